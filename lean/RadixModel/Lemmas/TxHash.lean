/-
C32 — lemmas about the hash-tree / preparation model (`RadixModel/Model/TxHash.lean`):
conformance of a hash tree to a schema, injectivity of `summary` under an injective hash
(the engine of the collision-extraction theorem), the canonical re-encoding `unparse`, and the
two inductions over the preparation functions (`prep_conf`, `prep_canonical`).
-/
import RadixModel.Model.TxHash
import RadixModel.Lemmas.SborSize
import RadixModel.Lemmas.Sbor
import RadixModel.Lemmas.SborFlavours

set_option linter.unusedSimpArgs false
set_option linter.unusedVariables false

namespace Radix.TxHash
open Radix.Sbor Radix.Generated

/-! ## Conformance of a hash tree to the schema it was prepared with -/

mutual
/-- `t` has the shape of a prepared value of type `s`. -/
def Conf : Sch → HTree → Prop
  | .full, .leaf _ => True
  | .body _, .leaf _ => True
  | .blob, .leaf _ => True
  | .rawHash, .pre h => h.length = hashLen
  | .payload d fs, .node p cs => p = payloadPrefix d ∧ ConfL fs cs
  | .core fs, .node p cs => p = [] ∧ ConfL fs cs
  | .arr _ _ _ e _, .node p cs => p = [] ∧ ConfA e cs
  | _, _ => False
def ConfL : List Sch → List HTree → Prop
  | [], [] => True
  | f :: fs, c :: cs => Conf f c ∧ ConfL fs cs
  | _, _ => False
def ConfA : Sch → List HTree → Prop
  | _, [] => True
  | e, c :: cs => Conf e c ∧ ConfA e cs
end

theorem hashLen_pos : 0 < hashLen := by decide

theorem summary_length (H : Bytes → Bytes) (hl : ∀ x, (H x).length = hashLen) (s : Sch) (t : HTree)
    (h : Conf s t) : (summary H t).length = hashLen := by
  cases t with
  | leaf bs => simp [summary, hl]
  | pre p => cases s <;> simp_all [Conf, summary]
  | node p cs => simp [summary, hl]

/-! ## `summary` is injective on conforming trees when `H` is -/

mutual
theorem binds (H : Bytes → Bytes) (hl : ∀ x, (H x).length = hashLen) (hinj : ∀ x y, H x = H y → x = y) :
    ∀ (s : Sch) (t1 t2 : HTree), Conf s t1 → Conf s t2 → summary H t1 = summary H t2 → t1 = t2
  | .full, .leaf a, .leaf b, _, _, h => by simp only [summary] at h; rw [hinj _ _ h]
  | .body _, .leaf a, .leaf b, _, _, h => by simp only [summary] at h; rw [hinj _ _ h]
  | .blob, .leaf a, .leaf b, _, _, h => by simp only [summary] at h; rw [hinj _ _ h]
  | .rawHash, .pre a, .pre b, _, _, h => by simp only [summary] at h; rw [h]
  | .payload d fs, .node p1 cs1, .node p2 cs2, c1, c2, h => by
    simp only [Conf] at c1 c2
    obtain ⟨rfl, c1⟩ := c1
    obtain ⟨rfl, c2⟩ := c2
    simp only [summary] at h
    have := hinj _ _ h
    have hc := List.append_cancel_left this
    rw [bindsL H hl hinj fs cs1 cs2 c1 c2 hc]
  | .core fs, .node p1 cs1, .node p2 cs2, c1, c2, h => by
    simp only [Conf] at c1 c2
    obtain ⟨rfl, c1⟩ := c1
    obtain ⟨rfl, c2⟩ := c2
    simp only [summary] at h
    have := hinj _ _ h
    have hc := List.append_cancel_left this
    rw [bindsL H hl hinj fs cs1 cs2 c1 c2 hc]
  | .arr _ _ _ e _, .node p1 cs1, .node p2 cs2, c1, c2, h => by
    simp only [Conf] at c1 c2
    obtain ⟨rfl, c1⟩ := c1
    obtain ⟨rfl, c2⟩ := c2
    simp only [summary] at h
    have := hinj _ _ h
    have hc := List.append_cancel_left this
    rw [bindsA H hl hinj e cs1 cs2 c1 c2 hc]
  | .full, .pre _, _, c, _, _ => by simp [Conf] at c
  | .full, .node _ _, _, c, _, _ => by simp [Conf] at c
  | .full, .leaf _, .pre _, _, c, _ => by simp [Conf] at c
  | .full, .leaf _, .node _ _, _, c, _ => by simp [Conf] at c
  | .body _, .pre _, _, c, _, _ => by simp [Conf] at c
  | .body _, .node _ _, _, c, _, _ => by simp [Conf] at c
  | .body _, .leaf _, .pre _, _, c, _ => by simp [Conf] at c
  | .body _, .leaf _, .node _ _, _, c, _ => by simp [Conf] at c
  | .blob, .pre _, _, c, _, _ => by simp [Conf] at c
  | .blob, .node _ _, _, c, _, _ => by simp [Conf] at c
  | .blob, .leaf _, .pre _, _, c, _ => by simp [Conf] at c
  | .blob, .leaf _, .node _ _, _, c, _ => by simp [Conf] at c
  | .rawHash, .leaf _, _, c, _, _ => by simp [Conf] at c
  | .rawHash, .node _ _, _, c, _, _ => by simp [Conf] at c
  | .rawHash, .pre _, .leaf _, _, c, _ => by simp [Conf] at c
  | .rawHash, .pre _, .node _ _, _, c, _ => by simp [Conf] at c
  | .payload _ _, .leaf _, _, c, _, _ => by simp [Conf] at c
  | .payload _ _, .pre _, _, c, _, _ => by simp [Conf] at c
  | .payload _ _, .node _ _, .leaf _, _, c, _ => by simp [Conf] at c
  | .payload _ _, .node _ _, .pre _, _, c, _ => by simp [Conf] at c
  | .core _, .leaf _, _, c, _, _ => by simp [Conf] at c
  | .core _, .pre _, _, c, _, _ => by simp [Conf] at c
  | .core _, .node _ _, .leaf _, _, c, _ => by simp [Conf] at c
  | .core _, .node _ _, .pre _, _, c, _ => by simp [Conf] at c
  | .arr _ _ _ _ _, .leaf _, _, c, _, _ => by simp [Conf] at c
  | .arr _ _ _ _ _, .pre _, _, c, _, _ => by simp [Conf] at c
  | .arr _ _ _ _ _, .node _ _, .leaf _, _, c, _ => by simp [Conf] at c
  | .arr _ _ _ _ _, .node _ _, .pre _, _, c, _ => by simp [Conf] at c
theorem bindsL (H : Bytes → Bytes) (hl : ∀ x, (H x).length = hashLen) (hinj : ∀ x y, H x = H y → x = y) :
    ∀ (fs : List Sch) (cs1 cs2 : List HTree), ConfL fs cs1 → ConfL fs cs2 →
      summaryCat H cs1 = summaryCat H cs2 → cs1 = cs2
  | [], [], [], _, _, _ => rfl
  | f :: fs, a :: as, b :: bs, c1, c2, h => by
    simp only [ConfL] at c1 c2
    simp only [summaryCat] at h
    have hlen : (summary H a).length = (summary H b).length := by
      rw [summary_length H hl f a c1.1, summary_length H hl f b c2.1]
    obtain ⟨h1, h2⟩ := List.append_inj h hlen
    rw [binds H hl hinj f a b c1.1 c2.1 h1, bindsL H hl hinj fs as bs c1.2 c2.2 h2]
  | [], _ :: _, _, c, _, _ => by simp [ConfL] at c
  | [], [], _ :: _, _, c, _ => by simp [ConfL] at c
  | _ :: _, [], _, c, _, _ => by simp [ConfL] at c
  | _ :: _, _ :: _, [], _, c, _ => by simp [ConfL] at c
theorem bindsA (H : Bytes → Bytes) (hl : ∀ x, (H x).length = hashLen) (hinj : ∀ x y, H x = H y → x = y) :
    ∀ (e : Sch) (cs1 cs2 : List HTree), ConfA e cs1 → ConfA e cs2 →
      summaryCat H cs1 = summaryCat H cs2 → cs1 = cs2
  | _, [], [], _, _, _ => rfl
  | e, a :: as, b :: bs, c1, c2, h => by
    simp only [ConfA] at c1 c2
    simp only [summaryCat] at h
    have hlen : (summary H a).length = (summary H b).length := by
      rw [summary_length H hl e a c1.1, summary_length H hl e b c2.1]
    obtain ⟨h1, h2⟩ := List.append_inj h hlen
    rw [binds H hl hinj e a b c1.1 c2.1 h1, bindsA H hl hinj e as bs c1.2 c2.2 h2]
  | e, [], b :: bs, _, c2, h => by
    simp only [ConfA] at c2
    have := congrArg List.length h
    simp only [summaryCat, List.length_nil, List.length_append, summary_length H hl e b c2.1] at this
    have := hashLen_pos
    omega
  | e, a :: as, [], c1, _, h => by
    simp only [ConfA] at c1
    have := congrArg List.length h
    simp only [summaryCat, List.length_nil, List.length_append, summary_length H hl e a c1.1] at this
    have := hashLen_pos
    omega
end

/-! ## Canonical re-encoding of a prepared tree -/

def kindByte (vk : MVK) : UInt8 := VK.toU8 manifestKinds vk
def u8Kind : UInt8 := kindByte (.int .u8)

/-- the value-kind byte that `prepare_from_value` reads before the body (`SummarizedRawFullValue` reads it as
part of the hashed slice) -/
def kindPrefix : Sch → Bytes
  | .full => []
  | s => [kindByte s.valueKind]

mutual
/-- The bytes `prepare_from_value_body` of type `s` consumes when it produces the tree `t`. -/
def unparseB : Sch → HTree → Bytes
  | .full, .leaf bs => bs
  | .body _, .leaf bs => bs
  | .blob, .leaf inner => u8Kind :: (sizeBytes inner.length ++ inner)
  | .rawHash, .pre h => u8Kind :: (sizeBytes hashLen ++ h)
  | .payload _ fs, .node _ cs => sizeBytes fs.length ++ unparseL fs cs
  | .core fs, .node _ cs => sizeBytes fs.length ++ unparseL fs cs
  | .arr _ _ _ e _, .node _ cs => kindByte e.valueKind :: (sizeBytes cs.length ++ unparseA e cs)
  | _, _ => []
def unparseL : List Sch → List HTree → Bytes
  | f :: fs, c :: cs => kindPrefix f ++ unparseB f c ++ unparseL fs cs
  | _, _ => []
def unparseA : Sch → List HTree → Bytes
  | e, c :: cs => unparseB e c ++ unparseA e cs
  | _, [] => []
end

theorem consumed_append (a r : Bytes) : consumed (a ++ r) r = a := by
  simp [consumed]

/-- what every `prepare_from_value_body` satisfies -/
def BSpec (pb : Sch → Bytes → PR) : Prop :=
  ∀ s bs p rest, pb s bs = .ok (p, rest) → Conf s p.tree ∧ bs = unparseB s p.tree ++ rest

/-- what every `prepare_from_value` satisfies -/
def VSpec (pv : Sch → Bytes → PR) : Prop :=
  ∀ s bs p rest, pv s bs = .ok (p, rest) → Conf s p.tree ∧ bs = kindPrefix s ++ unparseB s p.tree ++ rest

theorem readKindExpect_ok (vk : MVK) (bs rest : Bytes) (h : readKindExpect vk bs = .ok rest) :
    bs = kindByte vk :: rest := by
  unfold readKindExpect at h
  split at h
  · simp at h
  · rename_i k r hk
    split at h
    · rename_i hkv
      simp at h
      subst h; subst hkv
      exact readValueKind_ok manifestKinds manifestKinds_lawful _ _ _ hk
    · simp at h

theorem readSizeExpect_ok (n : Nat) (bs rest : Bytes) (h : readSizeExpect n bs = .ok rest) :
    bs = sizeBytes n ++ rest := by
  unfold readSizeExpect at h
  split at h
  · simp at h
  · rename_i m r hm
    split at h
    · rename_i hmn
      simp at h
      subst h; subst hmn
      exact (readSize_canonical _ _ _ hm).2
    · simp at h

theorem prepBody_spec (rem : Nat) (vk : MVK) (bs : Bytes) (p : Prep) (rest : Bytes)
    (h : prepBody rem vk bs = .ok (p, rest)) : ∃ sl, p.tree = .leaf sl ∧ bs = sl ++ rest := by
  unfold prepBody at h
  split at h
  · simp at h
  · rename_i v r hv
    simp at h
    obtain ⟨rfl, rfl⟩ := h
    obtain ⟨_, _, body, _, rfl⟩ := encBody_decBody manifest ManifestCustom.WF manifest_lawful D D rem vk bs v r hv
    exact ⟨body, by simp [consumed_append], rfl⟩

theorem prepFull_spec (rem : Nat) (bs : Bytes) (p : Prep) (rest : Bytes)
    (h : prepFull rem bs = .ok (p, rest)) : ∃ sl, p.tree = .leaf sl ∧ bs = sl ++ rest := by
  unfold prepFull at h
  split at h
  · simp at h
  · rename_i v r hv
    simp at h
    obtain ⟨rfl, rfl⟩ := h
    simp only [decValue, decField] at hv
    split at hv
    · simp at hv
    · rename_i vk bs' hvk
      have hb := readValueKind_ok manifest.kc manifest_lawful.kinds _ _ _ hvk
      obtain ⟨_, _, body, _, rfl⟩ := encBody_decBody manifest ManifestCustom.WF manifest_lawful D D rem vk bs' v r hv
      subst hb
      refine ⟨VK.toU8 manifest.kc vk :: body, ?_, by simp⟩
      have : (VK.toU8 manifest.kc vk :: (body ++ r)) = (VK.toU8 manifest.kc vk :: body) ++ r := by simp
      rw [this, consumed_append]

theorem decBytesBody_ok (rem : Nat) (bs sl rest : Bytes) (h : decBytesBody rem bs = .ok (sl, rest)) :
    bs = u8Kind :: (sizeBytes sl.length ++ sl ++ rest) := by
  unfold decBytesBody at h
  split at h
  · simp at h
  · split at h
    · simp at h
    · rename_i ek bs0 hk
      split at h
      · simp at h
      · rename_i hek
        simp at hek
        subst hek
        split at h
        · simp at h
        · rename_i n bs1 hn
          split at h
          · simp at h
          · rename_i a r hs
            simp at h
            obtain ⟨rfl, rfl⟩ := h
            have h1 := readValueKind_ok manifestKinds manifestKinds_lawful _ _ _ hk
            have h2 := (readSize_canonical _ _ _ hn).2
            obtain ⟨h3, h4⟩ := readSlice_ok _ _ _ _ hs
            subst h1; subst h2; subst h3; subst h4
            simp [u8Kind, kindByte]

theorem decHashBody_ok (rem : Nat) (bs sl rest : Bytes) (h : decHashBody rem bs = .ok (sl, rest)) :
    sl.length = hashLen ∧ bs = u8Kind :: (sizeBytes hashLen ++ sl ++ rest) := by
  unfold decHashBody at h
  split at h
  · simp at h
  · split at h
    · simp at h
    · rename_i ek bs0 hk
      split at h
      · simp at h
      · rename_i hek
        simp at hek
        subst hek
        split at h
        · simp at h
        · rename_i n bs1 hn
          split at h
          · simp at h
          · rename_i hnn
            simp at hnn
            subst hnn
            split at h
            · simp at h
            · split at h
              · simp at h
              · rename_i a r hs
                simp at h
                obtain ⟨rfl, rfl⟩ := h
                have h1 := readValueKind_ok manifestKinds manifestKinds_lawful _ _ _ hk
                have h2 := (readSize_canonical _ _ _ hn).2
                obtain ⟨h3, h4⟩ := readSlice_ok _ _ _ _ hs
                subst h1; subst h2; subst h3
                exact ⟨h4, by simp [u8Kind, kindByte]⟩

theorem prepFields_spec (pv : Sch → Bytes → PR) (hpv : VSpec pv) :
    ∀ (fs : List Sch) (bs : Bytes) (e t : Nat) (ts : List HTree) (e' t' : Nat) (rest : Bytes),
      prepFields pv fs bs e t = .ok (ts, e', t', rest) → ConfL fs ts ∧ bs = unparseL fs ts ++ rest := by
  intro fs
  induction fs with
  | nil =>
    intro bs e t ts e' t' rest h
    simp [prepFields] at h
    obtain ⟨rfl, _, _, rfl⟩ := h
    simp [ConfL, unparseL]
  | cons f fs ih =>
    intro bs e t ts e' t' rest h
    simp only [prepFields] at h
    split at h
    · simp at h
    · rename_i p bs' hp
      split at h
      · simp at h
      · split at h
        · simp at h
        · split at h
          · simp at h
          · rename_i ts0 e0 t0 r0 hrec
            simp at h
            obtain ⟨rfl, _, _, rfl⟩ := h
            obtain ⟨c1, rfl⟩ := hpv _ _ _ _ hp
            obtain ⟨c2, rfl⟩ := ih _ _ _ _ _ _ _ hrec
            exact ⟨by simp [ConfL, c1, c2], by simp [unparseL]⟩

theorem prepElems_spec (el : Sch) (pb : Bytes → PR)
    (hpb : ∀ bs p rest, pb bs = .ok (p, rest) → Conf el p.tree ∧ bs = unparseB el p.tree ++ rest) :
    ∀ (n : Nat) (bs : Bytes) (e t : Nat) (ts : List HTree) (e' t' : Nat) (rest : Bytes),
      prepElems pb n bs e t = .ok (ts, e', t', rest) →
        ConfA el ts ∧ ts.length = n ∧ bs = unparseA el ts ++ rest := by
  intro n
  induction n with
  | zero =>
    intro bs e t ts e' t' rest h
    simp [prepElems] at h
    obtain ⟨rfl, _, _, rfl⟩ := h
    simp [ConfA, unparseA]
  | succ n ih =>
    intro bs e t ts e' t' rest h
    simp only [prepElems] at h
    split at h
    · simp at h
    · rename_i p bs' hp
      split at h
      · simp at h
      · split at h
        · simp at h
        · split at h
          · simp at h
          · rename_i ts0 e0 t0 r0 hrec
            simp at h
            obtain ⟨rfl, _, _, rfl⟩ := h
            obtain ⟨c1, rfl⟩ := hpb _ _ _ hp
            obtain ⟨c2, hlen, rfl⟩ := ih _ _ _ _ _ _ _ hrec
            exact ⟨by simp [ConfA, c1, c2], by simp [hlen], by simp [unparseA]⟩

theorem prepVWith_spec (pb : Sch → Bytes → PR) (rem : Nat) (hpb : BSpec pb) : VSpec (prepVWith pb rem) := by
  intro s bs p rest h
  unfold prepVWith at h
  split at h
  · obtain ⟨sl, ht, rfl⟩ := prepFull_spec _ _ _ _ h
    rw [ht]
    simp [Conf, kindPrefix, unparseB]
  · rename_i hs
    split at h
    · simp at h
    · rename_i bs' hk
      split at h
      · simp at h
      · rename_i p0 r0 hp
        split at h
        · simp at h
        · simp at h
          obtain ⟨rfl, rfl⟩ := h
          obtain ⟨c, rfl⟩ := hpb _ _ _ _ hp
          have := readKindExpect_ok _ _ _ hk
          subst this
          refine ⟨c, ?_⟩
          cases s <;> simp_all [kindPrefix]

theorem tupleRest_spec (pv : Sch → Bytes → PR) (hpv : VSpec pv) (pfx : Bytes) (fields : List Sch)
    (bs : Bytes) (p : Prep) (rest : Bytes) (h : tupleRest pv pfx fields bs = .ok (p, rest)) :
    ∃ ts, p.tree = .node pfx ts ∧ ConfL fields ts ∧ bs = sizeBytes fields.length ++ unparseL fields ts ++ rest := by
  unfold tupleRest at h
  split at h
  · simp at h
  · rename_i bs1 hs
    split at h
    · simp at h
    · rename_i ts e t r hf
      split at h
      · simp at h
      · simp at h
        obtain ⟨rfl, rfl⟩ := h
        obtain ⟨c, rfl⟩ := prepFields_spec pv hpv _ _ _ _ _ _ _ _ hf
        have := readSizeExpect_ok _ _ _ hs
        subst this
        exact ⟨ts, rfl, c, by simp⟩

/-- **Main induction**: whatever `prepare_from_value_body` accepts, the produced tree conforms to the
schema and the consumed bytes are exactly the canonical re-encoding of that tree. -/
theorem prepB_spec (S : Settings) : ∀ rem, BSpec (prepB S rem) := by
  intro rem
  induction rem with
  | zero =>
    intro s bs p rest h
    cases s with
    | full => simp [prepB] at h
    | body vk =>
      simp only [prepB] at h
      obtain ⟨sl, ht, rfl⟩ := prepBody_spec _ _ _ _ _ h
      rw [ht]; simp [Conf, unparseB]
    | blob =>
      simp only [prepB, prepBlob, decBytesBody] at h
      simp at h
    | rawHash =>
      simp only [prepB, prepRawHash, decHashBody] at h
      simp at h
    | payload d fs => simp [prepB] at h
    | core fs =>
      simp only [prepB] at h
      split at h <;> simp at h
    | arr a b c d e => simp [prepB] at h
  | succ rem ih =>
    intro s bs p rest h
    have hv : VSpec (prepVWith (prepB S rem) rem) := prepVWith_spec _ _ ih
    cases s with
    | full => simp [prepB] at h
    | body vk =>
      simp only [prepB] at h
      obtain ⟨sl, ht, rfl⟩ := prepBody_spec _ _ _ _ _ h
      rw [ht]; simp [Conf, unparseB]
    | blob =>
      simp only [prepB, prepBlob] at h
      split at h
      · simp at h
      · rename_i inner r hd
        split at h
        · simp at h
        · simp at h
          obtain ⟨rfl, rfl⟩ := h
          have := decBytesBody_ok _ _ _ _ hd
          subst this
          simp [Conf, unparseB]
    | rawHash =>
      simp only [prepB, prepRawHash] at h
      split at h
      · simp at h
      · rename_i hh r hd
        simp at h
        obtain ⟨rfl, rfl⟩ := h
        obtain ⟨hlen, hb⟩ := decHashBody_ok _ _ _ _ hd
        subst hb
        simp [Conf, unparseB, hlen]
    | payload d fs =>
      simp only [prepB] at h
      obtain ⟨ts, ht, c, rfl⟩ := tupleRest_spec _ hv _ _ _ _ _ h
      rw [ht]; simp [Conf, unparseB, c]
    | core fs =>
      simp only [prepB] at h
      split at h
      · simp at h
      · obtain ⟨ts, ht, c, rfl⟩ := tupleRest_spec _ hv _ _ _ _ _ h
        rw [ht]; simp [Conf, unparseB, c]
    | arr fv vt lim el nd =>
      simp only [prepB] at h
      split at h
      · simp at h
      · rename_i bs0 hk
        split at h
        · simp at h
        · rename_i n bs1 hn
          split at h
          · simp at h
          · split at h
            · simp at h
            · rename_i ts e t r hel
              split at h
              · simp at h
              · split at h
                · simp at h
                · simp at h
                  obtain ⟨rfl, rfl⟩ := h
                  obtain ⟨c, hlen, rfl⟩ := prepElems_spec el (prepB S rem el) (fun b p r hh => ih el b p r hh) _ _ _ _ _ _ _ _ hel
                  have h1 := readKindExpect_ok _ _ _ hk
                  have h2 := (readSize_canonical _ _ _ hn).2
                  subst h1; subst h2
                  simp [Conf, unparseB, c, hlen]

end Radix.TxHash
