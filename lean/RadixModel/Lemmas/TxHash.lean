/-
C32 — lemmas about the hash-tree / preparation model (`RadixModel/Model/TxHash.lean`):
conformance of a hash tree to a schema, injectivity of `summary` under an injective hash
(the engine of the collision-extraction theorem), the canonical re-encoding `unparse`, and the
two inductions over the preparation functions (`prep_conf`, `prep_canonical`).
-/
import RadixModel.Model.TxHash
import RadixModel.Lemmas.SborSize
import RadixModel.Lemmas.Sbor
import RadixModel.Lemmas.SborFlavours

set_option linter.unusedSimpArgs false
set_option linter.unusedVariables false

namespace Radix.TxHash
open Radix.Sbor Radix.Generated

/-! ## Conformance of a hash tree to the schema it was prepared with -/

mutual
/-- `t` has the shape of a prepared value of type `s`. -/
def Conf : Sch → HTree → Prop
  | .full, .leaf _ => True
  | .body _, .leaf _ => True
  | .blob, .leaf _ => True
  | .rawHash, .pre h => h.length = hashLen
  | .payload d fs, .node p cs => p = payloadPrefix d ∧ ConfL fs cs
  | .core fs, .node p cs => p = [] ∧ ConfL fs cs
  | .arr _ _ _ e _, .node p cs => p = [] ∧ ConfA e cs
  | _, _ => False
def ConfL : List Sch → List HTree → Prop
  | [], [] => True
  | f :: fs, c :: cs => Conf f c ∧ ConfL fs cs
  | _, _ => False
def ConfA : Sch → List HTree → Prop
  | _, [] => True
  | e, c :: cs => Conf e c ∧ ConfA e cs
end

theorem hashLen_pos : 0 < hashLen := by decide

theorem summary_length (H : Bytes → Bytes) (hl : ∀ x, (H x).length = hashLen) (s : Sch) (t : HTree)
    (h : Conf s t) : (summary H t).length = hashLen := by
  cases t with
  | leaf bs => simp [summary, hl]
  | pre p => cases s <;> simp_all [Conf, summary]
  | node p cs => simp [summary, hl]

/-! ## `summary` is injective on conforming trees when `H` is -/

mutual
theorem binds (H : Bytes → Bytes) (hl : ∀ x, (H x).length = hashLen) (hinj : ∀ x y, H x = H y → x = y) :
    ∀ (s : Sch) (t1 t2 : HTree), Conf s t1 → Conf s t2 → summary H t1 = summary H t2 → t1 = t2
  | .full, .leaf a, .leaf b, _, _, h => by simp only [summary] at h; rw [hinj _ _ h]
  | .body _, .leaf a, .leaf b, _, _, h => by simp only [summary] at h; rw [hinj _ _ h]
  | .blob, .leaf a, .leaf b, _, _, h => by simp only [summary] at h; rw [hinj _ _ h]
  | .rawHash, .pre a, .pre b, _, _, h => by simp only [summary] at h; rw [h]
  | .payload d fs, .node p1 cs1, .node p2 cs2, c1, c2, h => by
    simp only [Conf] at c1 c2
    obtain ⟨rfl, c1⟩ := c1
    obtain ⟨rfl, c2⟩ := c2
    simp only [summary] at h
    have := hinj _ _ h
    have hc := List.append_cancel_left this
    rw [bindsL H hl hinj fs cs1 cs2 c1 c2 hc]
  | .core fs, .node p1 cs1, .node p2 cs2, c1, c2, h => by
    simp only [Conf] at c1 c2
    obtain ⟨rfl, c1⟩ := c1
    obtain ⟨rfl, c2⟩ := c2
    simp only [summary] at h
    have := hinj _ _ h
    have hc := List.append_cancel_left this
    rw [bindsL H hl hinj fs cs1 cs2 c1 c2 hc]
  | .arr _ _ _ e _, .node p1 cs1, .node p2 cs2, c1, c2, h => by
    simp only [Conf] at c1 c2
    obtain ⟨rfl, c1⟩ := c1
    obtain ⟨rfl, c2⟩ := c2
    simp only [summary] at h
    have := hinj _ _ h
    have hc := List.append_cancel_left this
    rw [bindsA H hl hinj e cs1 cs2 c1 c2 hc]
  | .full, .pre _, _, c, _, _ => by simp [Conf] at c
  | .full, .node _ _, _, c, _, _ => by simp [Conf] at c
  | .full, .leaf _, .pre _, _, c, _ => by simp [Conf] at c
  | .full, .leaf _, .node _ _, _, c, _ => by simp [Conf] at c
  | .body _, .pre _, _, c, _, _ => by simp [Conf] at c
  | .body _, .node _ _, _, c, _, _ => by simp [Conf] at c
  | .body _, .leaf _, .pre _, _, c, _ => by simp [Conf] at c
  | .body _, .leaf _, .node _ _, _, c, _ => by simp [Conf] at c
  | .blob, .pre _, _, c, _, _ => by simp [Conf] at c
  | .blob, .node _ _, _, c, _, _ => by simp [Conf] at c
  | .blob, .leaf _, .pre _, _, c, _ => by simp [Conf] at c
  | .blob, .leaf _, .node _ _, _, c, _ => by simp [Conf] at c
  | .rawHash, .leaf _, _, c, _, _ => by simp [Conf] at c
  | .rawHash, .node _ _, _, c, _, _ => by simp [Conf] at c
  | .rawHash, .pre _, .leaf _, _, c, _ => by simp [Conf] at c
  | .rawHash, .pre _, .node _ _, _, c, _ => by simp [Conf] at c
  | .payload _ _, .leaf _, _, c, _, _ => by simp [Conf] at c
  | .payload _ _, .pre _, _, c, _, _ => by simp [Conf] at c
  | .payload _ _, .node _ _, .leaf _, _, c, _ => by simp [Conf] at c
  | .payload _ _, .node _ _, .pre _, _, c, _ => by simp [Conf] at c
  | .core _, .leaf _, _, c, _, _ => by simp [Conf] at c
  | .core _, .pre _, _, c, _, _ => by simp [Conf] at c
  | .core _, .node _ _, .leaf _, _, c, _ => by simp [Conf] at c
  | .core _, .node _ _, .pre _, _, c, _ => by simp [Conf] at c
  | .arr _ _ _ _ _, .leaf _, _, c, _, _ => by simp [Conf] at c
  | .arr _ _ _ _ _, .pre _, _, c, _, _ => by simp [Conf] at c
  | .arr _ _ _ _ _, .node _ _, .leaf _, _, c, _ => by simp [Conf] at c
  | .arr _ _ _ _ _, .node _ _, .pre _, _, c, _ => by simp [Conf] at c
theorem bindsL (H : Bytes → Bytes) (hl : ∀ x, (H x).length = hashLen) (hinj : ∀ x y, H x = H y → x = y) :
    ∀ (fs : List Sch) (cs1 cs2 : List HTree), ConfL fs cs1 → ConfL fs cs2 →
      summaryCat H cs1 = summaryCat H cs2 → cs1 = cs2
  | [], [], [], _, _, _ => rfl
  | f :: fs, a :: as, b :: bs, c1, c2, h => by
    simp only [ConfL] at c1 c2
    simp only [summaryCat] at h
    have hlen : (summary H a).length = (summary H b).length := by
      rw [summary_length H hl f a c1.1, summary_length H hl f b c2.1]
    obtain ⟨h1, h2⟩ := List.append_inj h hlen
    rw [binds H hl hinj f a b c1.1 c2.1 h1, bindsL H hl hinj fs as bs c1.2 c2.2 h2]
  | [], _ :: _, _, c, _, _ => by simp [ConfL] at c
  | [], [], _ :: _, _, c, _ => by simp [ConfL] at c
  | _ :: _, [], _, c, _, _ => by simp [ConfL] at c
  | _ :: _, _ :: _, [], _, c, _ => by simp [ConfL] at c
theorem bindsA (H : Bytes → Bytes) (hl : ∀ x, (H x).length = hashLen) (hinj : ∀ x y, H x = H y → x = y) :
    ∀ (e : Sch) (cs1 cs2 : List HTree), ConfA e cs1 → ConfA e cs2 →
      summaryCat H cs1 = summaryCat H cs2 → cs1 = cs2
  | _, [], [], _, _, _ => rfl
  | e, a :: as, b :: bs, c1, c2, h => by
    simp only [ConfA] at c1 c2
    simp only [summaryCat] at h
    have hlen : (summary H a).length = (summary H b).length := by
      rw [summary_length H hl e a c1.1, summary_length H hl e b c2.1]
    obtain ⟨h1, h2⟩ := List.append_inj h hlen
    rw [binds H hl hinj e a b c1.1 c2.1 h1, bindsA H hl hinj e as bs c1.2 c2.2 h2]
  | e, [], b :: bs, _, c2, h => by
    simp only [ConfA] at c2
    have := congrArg List.length h
    simp only [summaryCat, List.length_nil, List.length_append, summary_length H hl e b c2.1] at this
    have := hashLen_pos
    omega
  | e, a :: as, [], c1, _, h => by
    simp only [ConfA] at c1
    have := congrArg List.length h
    simp only [summaryCat, List.length_nil, List.length_append, summary_length H hl e a c1.1] at this
    have := hashLen_pos
    omega
end

/-! ## Canonical re-encoding of a prepared tree -/

def kindByte (vk : MVK) : UInt8 := VK.toU8 manifestKinds vk
def u8Kind : UInt8 := kindByte (.int .u8)

/-- the value-kind byte that `prepare_from_value` reads before the body (`SummarizedRawFullValue` reads it as
part of the hashed slice) -/
def kindPrefix : Sch → Bytes
  | .full => []
  | s => [kindByte s.valueKind]

mutual
/-- The bytes `prepare_from_value_body` of type `s` consumes when it produces the tree `t`. -/
def unparseB : Sch → HTree → Bytes
  | .full, .leaf bs => bs
  | .body _, .leaf bs => bs
  | .blob, .leaf inner => u8Kind :: (sizeBytes inner.length ++ inner)
  | .rawHash, .pre h => u8Kind :: (sizeBytes hashLen ++ h)
  | .payload _ fs, .node _ cs => sizeBytes fs.length ++ unparseL fs cs
  | .core fs, .node _ cs => sizeBytes fs.length ++ unparseL fs cs
  | .arr _ _ _ e _, .node _ cs => kindByte e.valueKind :: (sizeBytes cs.length ++ unparseA e cs)
  | _, _ => []
def unparseL : List Sch → List HTree → Bytes
  | f :: fs, c :: cs => kindPrefix f ++ unparseB f c ++ unparseL fs cs
  | _, _ => []
def unparseA : Sch → List HTree → Bytes
  | e, c :: cs => unparseB e c ++ unparseA e cs
  | _, [] => []
end

theorem consumed_append (a r : Bytes) : consumed (a ++ r) r = a := by
  simp [consumed]

/-- what every `prepare_from_value_body` satisfies -/
def BSpec (pb : Sch → Bytes → PR) : Prop :=
  ∀ s bs p rest, pb s bs = .ok (p, rest) → Conf s p.tree ∧ bs = unparseB s p.tree ++ rest

/-- what every `prepare_from_value` satisfies -/
def VSpec (pv : Sch → Bytes → PR) : Prop :=
  ∀ s bs p rest, pv s bs = .ok (p, rest) → Conf s p.tree ∧ bs = kindPrefix s ++ unparseB s p.tree ++ rest

theorem readKindExpect_ok (vk : MVK) (bs rest : Bytes) (h : readKindExpect vk bs = .ok rest) :
    bs = kindByte vk :: rest := by
  unfold readKindExpect at h
  split at h
  · simp at h
  · rename_i k r hk
    split at h
    · rename_i hkv
      simp at h
      subst h; subst hkv
      exact readValueKind_ok manifestKinds manifestKinds_lawful _ _ _ hk
    · simp at h

theorem readSizeExpect_ok (n : Nat) (bs rest : Bytes) (h : readSizeExpect n bs = .ok rest) :
    bs = sizeBytes n ++ rest := by
  unfold readSizeExpect at h
  split at h
  · simp at h
  · rename_i m r hm
    split at h
    · rename_i hmn
      simp at h
      subst h; subst hmn
      exact (readSize_canonical _ _ _ hm).2
    · simp at h

theorem prepBody_spec (rem : Nat) (vk : MVK) (bs : Bytes) (p : Prep) (rest : Bytes)
    (h : prepBody rem vk bs = .ok (p, rest)) : ∃ sl, p.tree = .leaf sl ∧ bs = sl ++ rest := by
  unfold prepBody at h
  split at h
  · simp at h
  · rename_i v r hv
    simp at h
    obtain ⟨rfl, rfl⟩ := h
    obtain ⟨_, _, body, _, rfl⟩ := encBody_decBody manifest ManifestCustom.WF manifest_lawful D D rem vk bs v r hv
    exact ⟨body, by simp [consumed_append], rfl⟩

theorem prepFull_spec (rem : Nat) (bs : Bytes) (p : Prep) (rest : Bytes)
    (h : prepFull rem bs = .ok (p, rest)) : ∃ sl, p.tree = .leaf sl ∧ bs = sl ++ rest := by
  unfold prepFull at h
  split at h
  · simp at h
  · rename_i v r hv
    simp at h
    obtain ⟨rfl, rfl⟩ := h
    simp only [decValue, decField] at hv
    split at hv
    · simp at hv
    · rename_i vk bs' hvk
      have hb := readValueKind_ok manifest.kc manifest_lawful.kinds _ _ _ hvk
      obtain ⟨_, _, body, _, rfl⟩ := encBody_decBody manifest ManifestCustom.WF manifest_lawful D D rem vk bs' v r hv
      subst hb
      refine ⟨VK.toU8 manifest.kc vk :: body, ?_, by simp⟩
      have : (VK.toU8 manifest.kc vk :: (body ++ r)) = (VK.toU8 manifest.kc vk :: body) ++ r := by simp
      rw [this, consumed_append]

theorem decBytesBody_ok (rem : Nat) (bs sl rest : Bytes) (h : decBytesBody rem bs = .ok (sl, rest)) :
    bs = u8Kind :: (sizeBytes sl.length ++ sl ++ rest) := by
  unfold decBytesBody at h
  split at h
  · simp at h
  · split at h
    · simp at h
    · rename_i ek bs0 hk
      split at h
      · simp at h
      · rename_i hek
        simp at hek
        subst hek
        split at h
        · simp at h
        · rename_i n bs1 hn
          split at h
          · simp at h
          · rename_i a r hs
            simp at h
            obtain ⟨rfl, rfl⟩ := h
            have h1 := readValueKind_ok manifestKinds manifestKinds_lawful _ _ _ hk
            have h2 := (readSize_canonical _ _ _ hn).2
            obtain ⟨h3, h4⟩ := readSlice_ok _ _ _ _ hs
            subst h1; subst h2; subst h3; subst h4
            simp [u8Kind, kindByte]

theorem decHashBody_ok (rem : Nat) (bs sl rest : Bytes) (h : decHashBody rem bs = .ok (sl, rest)) :
    sl.length = hashLen ∧ bs = u8Kind :: (sizeBytes hashLen ++ sl ++ rest) := by
  unfold decHashBody at h
  split at h
  · simp at h
  · split at h
    · simp at h
    · rename_i ek bs0 hk
      split at h
      · simp at h
      · rename_i hek
        simp at hek
        subst hek
        split at h
        · simp at h
        · rename_i n bs1 hn
          split at h
          · simp at h
          · rename_i hnn
            simp at hnn
            subst hnn
            split at h
            · simp at h
            · split at h
              · simp at h
              · rename_i a r hs
                simp at h
                obtain ⟨rfl, rfl⟩ := h
                have h1 := readValueKind_ok manifestKinds manifestKinds_lawful _ _ _ hk
                have h2 := (readSize_canonical _ _ _ hn).2
                obtain ⟨h3, h4⟩ := readSlice_ok _ _ _ _ hs
                subst h1; subst h2; subst h3
                exact ⟨h4, by simp [u8Kind, kindByte]⟩

theorem prepFields_spec (pv : Sch → Bytes → PR) (hpv : VSpec pv) :
    ∀ (fs : List Sch) (bs : Bytes) (e t : Nat) (ts : List HTree) (e' t' : Nat) (rest : Bytes),
      prepFields pv fs bs e t = .ok (ts, e', t', rest) → ConfL fs ts ∧ bs = unparseL fs ts ++ rest := by
  intro fs
  induction fs with
  | nil =>
    intro bs e t ts e' t' rest h
    simp [prepFields] at h
    obtain ⟨rfl, _, _, rfl⟩ := h
    simp [ConfL, unparseL]
  | cons f fs ih =>
    intro bs e t ts e' t' rest h
    simp only [prepFields] at h
    split at h
    · simp at h
    · rename_i p bs' hp
      split at h
      · simp at h
      · split at h
        · simp at h
        · split at h
          · simp at h
          · rename_i ts0 e0 t0 r0 hrec
            simp at h
            obtain ⟨rfl, _, _, rfl⟩ := h
            obtain ⟨c1, rfl⟩ := hpv _ _ _ _ hp
            obtain ⟨c2, rfl⟩ := ih _ _ _ _ _ _ _ hrec
            exact ⟨by simp [ConfL, c1, c2], by simp [unparseL]⟩

theorem prepElems_spec (el : Sch) (pb : Bytes → PR)
    (hpb : ∀ bs p rest, pb bs = .ok (p, rest) → Conf el p.tree ∧ bs = unparseB el p.tree ++ rest) :
    ∀ (n : Nat) (bs : Bytes) (e t : Nat) (ts : List HTree) (e' t' : Nat) (rest : Bytes),
      prepElems pb n bs e t = .ok (ts, e', t', rest) →
        ConfA el ts ∧ ts.length = n ∧ bs = unparseA el ts ++ rest := by
  intro n
  induction n with
  | zero =>
    intro bs e t ts e' t' rest h
    simp [prepElems] at h
    obtain ⟨rfl, _, _, rfl⟩ := h
    simp [ConfA, unparseA]
  | succ n ih =>
    intro bs e t ts e' t' rest h
    simp only [prepElems] at h
    split at h
    · simp at h
    · rename_i p bs' hp
      split at h
      · simp at h
      · split at h
        · simp at h
        · split at h
          · simp at h
          · rename_i ts0 e0 t0 r0 hrec
            simp at h
            obtain ⟨rfl, _, _, rfl⟩ := h
            obtain ⟨c1, rfl⟩ := hpb _ _ _ hp
            obtain ⟨c2, hlen, rfl⟩ := ih _ _ _ _ _ _ _ hrec
            exact ⟨by simp [ConfA, c1, c2], by simp [hlen], by simp [unparseA]⟩

theorem prepVWith_spec (pb : Sch → Bytes → PR) (rem : Nat) (hpb : BSpec pb) : VSpec (prepVWith pb rem) := by
  intro s bs p rest h
  unfold prepVWith at h
  split at h
  · obtain ⟨sl, ht, rfl⟩ := prepFull_spec _ _ _ _ h
    rw [ht]
    simp [Conf, kindPrefix, unparseB]
  · rename_i hs
    split at h
    · simp at h
    · rename_i bs' hk
      split at h
      · simp at h
      · rename_i p0 r0 hp
        split at h
        · simp at h
        · simp at h
          obtain ⟨rfl, rfl⟩ := h
          obtain ⟨c, rfl⟩ := hpb _ _ _ _ hp
          have := readKindExpect_ok _ _ _ hk
          subst this
          refine ⟨c, ?_⟩
          cases s <;> simp_all [kindPrefix]

theorem tupleRest_spec (pv : Sch → Bytes → PR) (hpv : VSpec pv) (pfx : Bytes) (fields : List Sch)
    (bs : Bytes) (p : Prep) (rest : Bytes) (h : tupleRest pv pfx fields bs = .ok (p, rest)) :
    ∃ ts, p.tree = .node pfx ts ∧ ConfL fields ts ∧ bs = sizeBytes fields.length ++ unparseL fields ts ++ rest := by
  unfold tupleRest at h
  split at h
  · simp at h
  · rename_i bs1 hs
    split at h
    · simp at h
    · rename_i ts e t r hf
      split at h
      · simp at h
      · simp at h
        obtain ⟨rfl, rfl⟩ := h
        obtain ⟨c, rfl⟩ := prepFields_spec pv hpv _ _ _ _ _ _ _ _ hf
        have := readSizeExpect_ok _ _ _ hs
        subst this
        exact ⟨ts, rfl, c, by simp⟩

/-- **Main induction**: whatever `prepare_from_value_body` accepts, the produced tree conforms to the
schema and the consumed bytes are exactly the canonical re-encoding of that tree. -/
theorem prepB_spec (S : Settings) : ∀ rem, BSpec (prepB S rem) := by
  intro rem
  induction rem with
  | zero =>
    intro s bs p rest h
    cases s with
    | full => simp [prepB] at h
    | body vk =>
      simp only [prepB] at h
      obtain ⟨sl, ht, rfl⟩ := prepBody_spec _ _ _ _ _ h
      rw [ht]; simp [Conf, unparseB]
    | blob =>
      simp only [prepB, prepBlob, decBytesBody] at h
      simp at h
    | rawHash =>
      simp only [prepB, prepRawHash, decHashBody] at h
      simp at h
    | payload d fs => simp [prepB] at h
    | core fs =>
      simp only [prepB] at h
      split at h <;> simp at h
    | arr a b c d e => simp [prepB] at h
  | succ rem ih =>
    intro s bs p rest h
    have hv : VSpec (prepVWith (prepB S rem) rem) := prepVWith_spec _ _ ih
    cases s with
    | full => simp [prepB] at h
    | body vk =>
      simp only [prepB] at h
      obtain ⟨sl, ht, rfl⟩ := prepBody_spec _ _ _ _ _ h
      rw [ht]; simp [Conf, unparseB]
    | blob =>
      simp only [prepB, prepBlob] at h
      split at h
      · simp at h
      · rename_i inner r hd
        split at h
        · simp at h
        · simp at h
          obtain ⟨rfl, rfl⟩ := h
          have := decBytesBody_ok _ _ _ _ hd
          subst this
          simp [Conf, unparseB]
    | rawHash =>
      simp only [prepB, prepRawHash] at h
      split at h
      · simp at h
      · rename_i hh r hd
        simp at h
        obtain ⟨rfl, rfl⟩ := h
        obtain ⟨hlen, hb⟩ := decHashBody_ok _ _ _ _ hd
        subst hb
        simp [Conf, unparseB, hlen]
    | payload d fs =>
      simp only [prepB] at h
      obtain ⟨ts, ht, c, rfl⟩ := tupleRest_spec _ hv _ _ _ _ _ h
      rw [ht]; simp [Conf, unparseB, c]
    | core fs =>
      simp only [prepB] at h
      split at h
      · simp at h
      · obtain ⟨ts, ht, c, rfl⟩ := tupleRest_spec _ hv _ _ _ _ _ h
        rw [ht]; simp [Conf, unparseB, c]
    | arr fv vt lim el nd =>
      simp only [prepB] at h
      split at h
      · simp at h
      · rename_i bs0 hk
        split at h
        · simp at h
        · rename_i n bs1 hn
          split at h
          · simp at h
          · split at h
            · simp at h
            · rename_i ts e t r hel
              split at h
              · simp at h
              · split at h
                · simp at h
                · simp at h
                  obtain ⟨rfl, rfl⟩ := h
                  obtain ⟨c, hlen, rfl⟩ := prepElems_spec el (prepB S rem el) (fun b p r hh => ih el b p r hh) _ _ _ _ _ _ _ _ hel
                  have h1 := readKindExpect_ok _ _ _ hk
                  have h2 := (readSize_canonical _ _ _ hn).2
                  subst h1; subst h2
                  simp [Conf, unparseB, c, hlen]

end Radix.TxHash

/-! ## Extension lemmas: every reader ignores what follows the bytes it consumed

`Ext f` : if `f bs` succeeds leaving `rest`, then `f (bs ++ x)` succeeds with the same result leaving
`rest ++ x`. Used for the trailing-bytes theorem. -/

namespace Radix.TxHash
open Radix.Sbor Radix.Generated

theorem consumed_ext (a r x : Bytes) : consumed (a ++ r ++ x) (r ++ x) = consumed (a ++ r) r := by
  have : a ++ r ++ x = a ++ (r ++ x) := by simp
  rw [this, consumed_append, consumed_append]

theorem readValueKind_ext (bs rest x : Bytes) (k : MVK) (h : readValueKind manifestKinds bs = .ok (k, rest)) :
    readValueKind manifestKinds (bs ++ x) = .ok (k, rest ++ x) := by
  have := readValueKind_ok manifestKinds manifestKinds_lawful _ _ _ h
  subst this
  exact readValueKind_toU8 manifestKinds manifestKinds_lawful k (rest ++ x)

theorem readSize_ext (bs rest x : Bytes) (n : Nat) (h : readSize bs = .ok (n, rest)) :
    readSize (bs ++ x) = .ok (n, rest ++ x) := by
  obtain ⟨hn, rfl⟩ := readSize_canonical _ _ _ h
  simpa using readSize_sizeBytes n (rest ++ x) hn

theorem readSlice_ext (n : Nat) (bs a rest x : Bytes) (h : readSlice n bs = .ok (a, rest)) :
    readSlice n (bs ++ x) = .ok (a, rest ++ x) := by
  obtain ⟨rfl, hl⟩ := readSlice_ok _ _ _ _ h
  simpa using readSlice_append n a (rest ++ x) hl

theorem decBody_ext (rem : Nat) (vk : MVK) (bs rest x : Bytes) (v : Value ManifestKind ManifestCustom)
    (h : decBody manifest D rem vk bs = .ok (v, rest)) :
    decBody manifest D rem vk (bs ++ x) = .ok (v, rest ++ x) ∧ ∃ a, bs = a ++ rest := by
  obtain ⟨hk, hwf, body, hbody, rfl⟩ := encBody_decBody manifest ManifestCustom.WF manifest_lawful D D rem vk bs v rest h
  have := decBody_encBody manifest ManifestCustom.WF manifest_lawful D D rem v body (rest ++ x) hwf hbody
  rw [hk] at this
  exact ⟨by simpa using this, body, rfl⟩

theorem readKindExpect_ext (vk : MVK) (bs rest x : Bytes) (h : readKindExpect vk bs = .ok rest) :
    readKindExpect vk (bs ++ x) = .ok (rest ++ x) := by
  unfold readKindExpect at h ⊢
  split at h
  · simp at h
  · rename_i k r hk
    rw [readValueKind_ext _ _ x _ hk]
    split at h
    · rename_i hkv
      simp at h
      subst h
      simp [hkv]
    · simp at h

theorem readSizeExpect_ext (n : Nat) (bs rest x : Bytes) (h : readSizeExpect n bs = .ok rest) :
    readSizeExpect n (bs ++ x) = .ok (rest ++ x) := by
  unfold readSizeExpect at h ⊢
  split at h
  · simp at h
  · rename_i m r hm
    rw [readSize_ext _ _ x _ hm]
    split at h
    · rename_i hmn
      simp at h
      subst h
      simp [hmn]
    · simp at h

/-- extension property of a preparation function -/
def Ext (f : Bytes → PR) : Prop :=
  ∀ bs p rest x, f bs = .ok (p, rest) → f (bs ++ x) = .ok (p, rest ++ x)

theorem prepBody_ext (rem : Nat) (vk : MVK) : Ext (prepBody rem vk) := by
  intro bs p rest x h
  unfold prepBody at h ⊢
  split at h
  · simp at h
  · rename_i v r hv
    simp at h
    obtain ⟨rfl, rfl⟩ := h
    obtain ⟨h1, a, rfl⟩ := decBody_ext rem vk bs r x v hv
    rw [h1]
    simp only [consumed_ext]

theorem prepFull_ext (rem : Nat) : Ext (prepFull rem) := by
  intro bs p rest x h
  unfold prepFull at h ⊢
  split at h
  · simp at h
  · rename_i v r hv
    simp at h
    obtain ⟨rfl, rfl⟩ := h
    simp only [decValue, decField] at hv ⊢
    split at hv
    · simp at hv
    · rename_i vk bs' hvk
      have hb := readValueKind_ok manifest.kc manifest_lawful.kinds _ _ _ hvk
      obtain ⟨h1, a, ha⟩ := decBody_ext rem vk bs' r x v hv
      subst hb
      have hk : readValueKind manifest.kc (VK.toU8 manifest.kc vk :: bs' ++ x) = .ok (vk, bs' ++ x) := by
        simpa using readValueKind_toU8 manifest.kc manifest_lawful.kinds vk (bs' ++ x)
      rw [hk]
      simp only [h1]
      subst ha
      have e1 : VK.toU8 manifest.kc vk :: (a ++ r) ++ x = (VK.toU8 manifest.kc vk :: a) ++ r ++ x := by simp
      have e2 : VK.toU8 manifest.kc vk :: (a ++ r) = (VK.toU8 manifest.kc vk :: a) ++ r := by simp
      rw [e1, consumed_ext, ← e2]

theorem decBytesBody_ext (rem : Nat) (bs sl rest x : Bytes) (h : decBytesBody rem bs = .ok (sl, rest)) :
    decBytesBody rem (bs ++ x) = .ok (sl, rest ++ x) := by
  unfold decBytesBody at h ⊢
  split at h
  · simp at h
  · split at h
    · simp at h
    · rename_i ek bs0 hk
      rw [readValueKind_ext _ _ x _ hk]
      split at h
      · simp at h
      · rename_i hek
        simp only [hek, if_false]
        split at h
        · simp at h
        · rename_i n bs1 hn
          rw [readSize_ext _ _ x _ hn]
          split at h
          · simp at h
          · rename_i a r hs
            simp at h
            obtain ⟨rfl, rfl⟩ := h
            simp only [readSlice_ext _ _ _ _ x hs]

theorem decHashBody_ext (rem : Nat) (bs sl rest x : Bytes) (h : decHashBody rem bs = .ok (sl, rest)) :
    decHashBody rem (bs ++ x) = .ok (sl, rest ++ x) ∧ ∃ a, bs = a ++ rest := by
  have hb := (decHashBody_ok rem bs sl rest h).2
  unfold decHashBody at h ⊢
  split at h
  · simp at h
  · split at h
    · simp at h
    · rename_i ek bs0 hk
      rw [readValueKind_ext _ _ x _ hk]
      split at h
      · simp at h
      · rename_i hek
        simp only [hek, if_false]
        split at h
        · simp at h
        · rename_i n bs1 hn
          rw [readSize_ext _ _ x _ hn]
          split at h
          · simp at h
          · rename_i hnn
            simp only [hnn, if_false]
            split at h
            · simp at h
            · rename_i hz
              simp only [hz, if_false]
              split at h
              · simp at h
              · rename_i a r hs
                simp at h
                obtain ⟨rfl, rfl⟩ := h
                simp only [readSlice_ext _ _ _ _ x hs]
                exact ⟨trivial, u8Kind :: (sizeBytes hashLen ++ a), by rw [hb]; simp⟩

theorem prepBlob_ext (rem : Nat) : Ext (prepBlob rem) := by
  intro bs p rest x h
  unfold prepBlob at h ⊢
  split at h
  · simp at h
  · rename_i inner r hd
    rw [decBytesBody_ext _ _ _ _ x hd]
    split at h
    · simp at h
    · simp at h
      obtain ⟨rfl, rfl⟩ := h
      simp_all

theorem prepRawHash_ext (rem : Nat) : Ext (prepRawHash rem) := by
  intro bs p rest x h
  unfold prepRawHash at h ⊢
  split at h
  · simp at h
  · rename_i hh r hd
    obtain ⟨h1, a, rfl⟩ := decHashBody_ext _ _ _ _ x hd
    rw [h1]
    simp at h
    obtain ⟨rfl, rfl⟩ := h
    simp only [consumed_ext]

theorem prepFields_ext (pv : Sch → Bytes → PR) (hpv : ∀ s, Ext (pv s)) :
    ∀ (fs : List Sch) (bs : Bytes) (e t : Nat) (ts : List HTree) (e' t' : Nat) (rest x : Bytes),
      prepFields pv fs bs e t = .ok (ts, e', t', rest) →
      prepFields pv fs (bs ++ x) e t = .ok (ts, e', t', rest ++ x) := by
  intro fs
  induction fs with
  | nil =>
    intro bs e t ts e' t' rest x h
    simp [prepFields] at h ⊢
    obtain ⟨rfl, rfl, rfl, rfl⟩ := h
    simp
  | cons f fs ih =>
    intro bs e t ts e' t' rest x h
    simp only [prepFields] at h ⊢
    split at h
    · simp at h
    · rename_i p bs' hp
      rw [hpv f _ _ _ x hp]
      try simp only
      split at h
      · simp at h
      · rename_i eff' he
        try rw [he]
        try simp only
        split at h
        · simp at h
        · rename_i tot' ht
          try rw [ht]
          try simp only
          split at h
          · simp at h
          · rename_i ts0 e0 t0 r0 hrec
            rw [ih _ _ _ _ _ _ _ x hrec]
            simp at h ⊢
            obtain ⟨rfl, rfl, rfl, rfl⟩ := h
            simp

theorem prepElems_ext (pb : Bytes → PR) (hpb : Ext pb) :
    ∀ (n : Nat) (bs : Bytes) (e t : Nat) (ts : List HTree) (e' t' : Nat) (rest x : Bytes),
      prepElems pb n bs e t = .ok (ts, e', t', rest) →
      prepElems pb n (bs ++ x) e t = .ok (ts, e', t', rest ++ x) := by
  intro n
  induction n with
  | zero =>
    intro bs e t ts e' t' rest x h
    simp [prepElems] at h ⊢
    obtain ⟨rfl, rfl, rfl, rfl⟩ := h
    simp
  | succ n ih =>
    intro bs e t ts e' t' rest x h
    simp only [prepElems] at h ⊢
    split at h
    · simp at h
    · rename_i p bs' hp
      rw [hpb _ _ _ x hp]
      try simp only
      split at h
      · simp at h
      · rename_i eff' he
        try rw [he]
        try simp only
        split at h
        · simp at h
        · rename_i tot' ht
          try rw [ht]
          try simp only
          split at h
          · simp at h
          · rename_i ts0 e0 t0 r0 hrec
            rw [ih _ _ _ _ _ _ _ x hrec]
            simp at h ⊢
            obtain ⟨rfl, rfl, rfl, rfl⟩ := h
            simp

theorem prepVWith_ext (pb : Sch → Bytes → PR) (rem : Nat) (hpb : ∀ s, Ext (pb s)) :
    ∀ s, Ext (prepVWith pb rem s) := by
  intro s bs p rest x h
  unfold prepVWith at h ⊢
  split
  · exact prepFull_ext rem _ _ _ x h
  · rename_i hs
    simp only at h
    split at h
    · simp at h
    · rename_i bs' hk
      rw [readKindExpect_ext _ _ _ x hk]
      try simp only
      split at h
      · simp at h
      · rename_i p0 r0 hp
        rw [hpb _ _ _ _ x hp]
        try simp only
        split at h
        · simp at h
        · rename_i eff he
          try rw [he]
          simp at h ⊢
          obtain ⟨rfl, rfl⟩ := h
          simp

theorem tupleRest_ext (pv : Sch → Bytes → PR) (hpv : ∀ s, Ext (pv s)) (pfx : Bytes) (fields : List Sch) :
    Ext (tupleRest pv pfx fields) := by
  intro bs p rest x h
  unfold tupleRest at h ⊢
  split at h
  · simp at h
  · rename_i bs1 hs
    rw [readSizeExpect_ext _ _ _ x hs]
    try simp only
    split at h
    · simp at h
    · rename_i ts e t r hf
      rw [prepFields_ext pv hpv _ _ _ _ _ _ _ _ x hf]
      try simp only
      split at h
      · simp at h
      · rename_i tot he
        try rw [he]
        simp at h ⊢
        obtain ⟨rfl, rfl⟩ := h
        simp

theorem prepB_ext (S : Settings) : ∀ rem s, Ext (prepB S rem s) := by
  intro rem
  induction rem with
  | zero =>
    intro s bs p rest x h
    cases s with
    | full => simp [prepB] at h
    | body vk => simp only [prepB] at h ⊢; exact prepBody_ext _ _ _ _ _ x h
    | blob => simp only [prepB] at h ⊢; exact prepBlob_ext _ _ _ _ x h
    | rawHash => simp only [prepB] at h ⊢; exact prepRawHash_ext _ _ _ _ x h
    | payload d fs => simp [prepB] at h
    | core fs =>
      simp only [prepB] at h
      split at h <;> simp at h
    | arr a b c d e => simp [prepB] at h
  | succ rem ih =>
    intro s bs p rest x h
    have hv : ∀ s, Ext (prepVWith (prepB S rem) rem s) := prepVWith_ext _ _ ih
    cases s with
    | full => simp [prepB] at h
    | body vk => simp only [prepB] at h ⊢; exact prepBody_ext _ _ _ _ _ x h
    | blob => simp only [prepB] at h ⊢; exact prepBlob_ext _ _ _ _ x h
    | rawHash => simp only [prepB] at h ⊢; exact prepRawHash_ext _ _ _ _ x h
    | payload d fs => simp only [prepB] at h ⊢; exact tupleRest_ext _ hv _ _ _ _ _ x h
    | core fs =>
      simp only [prepB] at h ⊢
      split at h
      · simp at h
      · rename_i hv2
        simp only [hv2, if_false]
        exact tupleRest_ext _ hv _ _ _ _ _ x h
    | arr fv vt lim el nd =>
      simp only [prepB] at h ⊢
      split at h
      · simp at h
      · rename_i bs0 hk
        rw [readKindExpect_ext _ _ _ x hk]
        try simp only
        split at h
        · simp at h
        · rename_i n bs1 hn
          rw [readSize_ext _ _ x _ hn]
          try simp only
          split at h
          · simp at h
          · rename_i hlim
            simp only [hlim, if_false]
            split at h
            · simp at h
            · rename_i ts e t r hel
              rw [prepElems_ext _ (ih el) _ _ _ _ _ _ _ _ x hel]
              try simp only
              split at h
              · simp at h
              · rename_i tot he
                try rw [he]
                try simp only
                split at h
                · simp at h
                · rename_i hdup
                  simp only [hdup, if_false]
                  simp at h ⊢
                  obtain ⟨rfl, rfl⟩ := h
                  simp

end Radix.TxHash
