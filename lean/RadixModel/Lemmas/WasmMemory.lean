/-
C47 — helper lemmas for `RadixModel/Model/WasmMemory.lean`. Core Lean only.
-/
import RadixModel.Model.WasmMemory
namespace Radix.WasmMem

/-! ### `Slice` bit operations as arithmetic -/

theorem slicePtr_eq (s : Nat) : slicePtr s = s / 4294967296 % 4294967296 := by
  unfold slicePtr
  rw [Nat.shiftRight_eq_div_pow]

theorem sliceLen_eq (s : Nat) : sliceLen s = s % 4294967296 := by
  unfold sliceLen
  have : (0xffffffff : Nat) = 2 ^ 32 - 1 := by decide
  rw [this, Nat.and_two_pow_sub_one_eq_mod]
  omega

theorem sliceNew_eq (p l : Nat) (hp : p ≤ U32_MAX) (hl : l ≤ U32_MAX) :
    sliceNew p l = p * 4294967296 + l := by
  unfold sliceNew U32_MAX at *
  rw [← Nat.shiftLeft_add_eq_or_of_lt (by omega), Nat.shiftLeft_eq]
  omega

/-! ### list surgery -/

theorem getElem?_slice (mem : List UInt8) (p l i : Nat) (hi : i < l) :
    ((mem.drop p).take l)[i]? = mem[p + i]? := by
  rw [List.getElem?_take, if_pos hi, List.getElem?_drop]

theorem length_slice (mem : List UInt8) (p l : Nat) (h : p + l ≤ mem.length) :
    ((mem.drop p).take l).length = l := by
  rw [List.length_take, List.length_drop]; omega

theorem length_splice (mem data : List UInt8) (p : Nat) (h : p + data.length ≤ mem.length) :
    (mem.take p ++ data ++ mem.drop (p + data.length)).length = mem.length := by
  simp only [List.length_append, List.length_take, List.length_drop]; omega

theorem getElem?_splice_before (mem data : List UInt8) (p i : Nat) (h : p + data.length ≤ mem.length)
    (hi : i < p) : (mem.take p ++ data ++ mem.drop (p + data.length))[i]? = mem[i]? := by
  rw [List.append_assoc, List.getElem?_append_left (by rw [List.length_take]; omega),
    List.getElem?_take, if_pos hi]

theorem getElem?_splice_inside (mem data : List UInt8) (p i : Nat) (h : p + data.length ≤ mem.length)
    (hi : i < data.length) : (mem.take p ++ data ++ mem.drop (p + data.length))[p + i]? = data[i]? := by
  have hl : (mem.take p).length = p := by rw [List.length_take]; omega
  rw [List.append_assoc, List.getElem?_append_right (by omega), hl,
    List.getElem?_append_left (by omega)]
  congr 1; omega

theorem getElem?_splice_after (mem data : List UInt8) (p i : Nat) (h : p + data.length ≤ mem.length)
    (hi : p + data.length ≤ i) : (mem.take p ++ data ++ mem.drop (p + data.length))[i]? = mem[i]? := by
  have hl : (mem.take p ++ data).length = p + data.length := by
    rw [List.length_append, List.length_take]; omega
  rw [List.getElem?_append_right (by omega), hl, List.getElem?_drop]
  congr 1; omega

end Radix.WasmMem
