/-
Helper lemmas for C25: `checkedRound` reduced to its arithmetic core (`roundCore`), the declarative
meaning of the seven rounding modes (`IsRounded`), and the link between the two.
-/
import RadixModel.Model.Decimal
import RadixModel.Lemmas.Decimal

namespace Radix.Dec

/-- Declarative meaning of the rounding modes: `r` is `x` rounded to a multiple of `d` by `mode`. -/
def IsRounded (mode : Mode) (d x r : Int) : Prop :=
  d ∣ r ∧ |x - r| < d ∧
  match mode with
  | .toPositiveInfinity => x ≤ r
  | .toNegativeInfinity => r ≤ x
  | .toZero => |r| ≤ |x|
  | .awayFromZero => |x| ≤ |r|
  | .toNearestMidpointTowardZero => 2 * |x - r| ≤ d ∧ (2 * |x - r| = d → |r| < |x|)
  | .toNearestMidpointAwayFromZero => 2 * |x - r| ≤ d ∧ (2 * |x - r| = d → |x| < |r|)
  | .toNearestMidpointToEven => 2 * |x - r| ≤ d ∧ (2 * |x - r| = d → 2 * d ∣ r)

/-- The arithmetic core of `checked_round` once the divisor `d = 10^(SCALE - places)` is known and
all the internal panicking operations have been shown safe. -/
def roundCore (t : Ty) (mode : Mode) (d x : Int) : Outcome :=
  if Int.tmod x d = 0 then .val x else
  let pr := if Int.tmod x d < 0 then d + Int.tmod x d else Int.tmod x d
  match Strategy.fromMode mode (decide (x > 0)) (intCmp pr (d / 2)) with
  | .roundUp => Outcome.ofOption (chk t.bits (x + (d - pr)))
  | .roundDown => Outcome.ofOption (chk t.bits (x - pr))
  | .roundToEven =>
    if x > 0 then
      if Int.tmod (x - pr) (d * 2) = 0 then .val (x - pr)
      else Outcome.ofOption (chk t.bits (x - pr + d))
    else
      if Int.tmod (x + (d - pr)) (d * 2) = 0 then .val (x + (d - pr))
      else Outcome.ofOption (chk t.bits (x + (d - pr) - d))

/-- positive remainder of `x` modulo `d` as computed by the code -/
def posRem (d x : Int) : Int := if Int.tmod x d < 0 then d + Int.tmod x d else Int.tmod x d

theorem posRem_facts (d x : Int) (hd : 0 < d) (hrem : Int.tmod x d ≠ 0) :
    0 < posRem d x ∧ posRem d x < d ∧ (∃ k, x - posRem d x = d * k) ∧
    (x > 0 → 0 ≤ x - posRem d x ∧ Int.tmod x d > 0) ∧
    (¬ x > 0 → x - posRem d x + d ≤ 0 ∧ Int.tmod x d < 0) := by
  have h := Int.tmod_add_tdiv_mul x d
  have h2 := Int.tmod_lt_of_pos x hd
  have h3 := Int.lt_tmod_of_pos x hd
  have hb := tdiv_bounds x d hd
  unfold posRem
  by_cases hx : x > 0
  · have h1 := Int.tmod_nonneg d (Int.le_of_lt hx)
    have hq := (hb.1 (Int.le_of_lt hx)).2.2
    have hprod : 0 ≤ Int.tdiv x d * d := Int.mul_nonneg hq (Int.le_of_lt hd)
    rw [if_neg (by omega)]
    refine ⟨by omega, h2, ⟨Int.tdiv x d, ?_⟩, fun _ => ⟨by omega, by omega⟩, fun h' => absurd hx h'⟩
    rw [Int.mul_comm]; omega
  · have h1 : Int.tmod x d ≤ 0 := by
      have := Int.tmod_nonneg d (by omega : 0 ≤ -x)
      rw [Int.neg_tmod] at this; omega
    have hq := (hb.2 (by omega)).2.2
    have hprod : 0 ≤ (-Int.tdiv x d) * d := Int.mul_nonneg (by omega) (Int.le_of_lt hd)
    rw [Int.neg_mul] at hprod
    rw [if_pos (by omega)]
    refine ⟨by omega, by omega, ⟨Int.tdiv x d - 1, ?_⟩, fun h' => absurd h' hx, fun _ => ⟨by omega, by omega⟩⟩
    rw [Int.mul_sub, Int.mul_one, Int.mul_comm]; omega

/-! ## Divisors `10^n` -/

theorem pow10_eq (n : Nat) : pow10 n = (10 : Int) ^ n := rfl

theorem pow10_facts (t : Ty) (n : Nat) (hn : n ≤ t.scale) :
    0 < pow10 n ∧ InBits t.bits (pow10 n) ∧ InBits t.bits (pow10 n * 2) ∧
    (pow10 n = 1 ∨ 2 ∣ pow10 n) := by
  rw [pow10_eq]
  have hpos : 0 < (10 : Int) ^ n := by positivity
  have hle : (10 : Int) ^ n ≤ 10 ^ t.scale := pow_le_pow_right₀ (by norm_num) hn
  refine ⟨hpos, ?_, ?_, ?_⟩
  · cases t
    · simp only [Ty.bits, Ty.scale, minOf, maxOf, InBits, half_192] at *; norm_num at hle; omega
    · simp only [Ty.bits, Ty.scale, minOf, maxOf, InBits, half_256] at *; norm_num at hle; omega
  · cases t
    · simp only [Ty.bits, Ty.scale, minOf, maxOf, InBits, half_192] at *; norm_num at hle; omega
    · simp only [Ty.bits, Ty.scale, minOf, maxOf, InBits, half_256] at *; norm_num at hle; omega
  · cases n with
    | zero => left; rfl
    | succ m => right; exact ⟨5 * 10 ^ m, by rw [pow_succ]; ring⟩

theorem wrap_of_inBits (bits : Nat) (hb : 0 < bits) (v : Int) (hv : InBits bits v) : wrap bits v = v := by
  unfold wrap
  have hp := half_pos bits
  have h2 : (2 : Int) ^ bits = 2 * half bits := by
    unfold half
    have : bits = (bits - 1) + 1 := by omega
    conv_lhs => rw [this, pow_succ]
    ring
  unfold InBits minOf maxOf at hv
  rw [h2, Int.emod_eq_of_lt (by omega) (by omega)]
  omega

/-- For admissible `places` every internal panicking operation of `checked_round` is safe, and the
function is its arithmetic core. -/
theorem checkedRound_eq_core (t : Ty) (p : Int) (hp0 : 0 ≤ p) (hp : p ≤ t.scale) (mode : Mode)
    (x : Int) (hx : t.InRange x) :
    checkedRound t p mode x = roundCore t mode (pow10 (t.scale - p.toNat)) x := by
  obtain ⟨hd, hdin, hd2in, _⟩ := pow10_facts t (t.scale - p.toNat) (by omega)
  have hbits : 0 < t.bits := by cases t <;> decide
  unfold checkedRound roundCore
  rw [if_neg (by omega)]
  dsimp only
  generalize pow10 (t.scale - p.toNat) = d at *
  simp only [chk_of_inBits hdin]
  rw [if_neg (ne_of_gt hd)]
  by_cases hrem : Int.tmod x d = 0
  · rw [if_pos hrem, if_pos hrem]
  · rw [if_neg hrem, if_neg hrem]
    obtain ⟨hpr0, hprd, _, hpos, hneg⟩ := posRem_facts d x hd hrem
    have hxr : InBits t.bits x := hx
    unfold InBits minOf maxOf at hxr hdin
    have hpr_in : InBits t.bits (posRem d x) := by unfold InBits minOf maxOf; omega
    have hprchk : (if Int.tmod x d < 0 then chk t.bits (d + Int.tmod x d) else some (Int.tmod x d))
        = some (posRem d x) := by
      unfold posRem at *
      by_cases h : Int.tmod x d < 0
      · rw [if_pos h] at hpr_in ⊢; rw [if_pos h]; exact chk_of_inBits hpr_in
      · rw [if_neg h]; rw [if_neg h]
    rw [hprchk]
    simp only
    have hpe : (if Int.tmod x d < 0 then d + Int.tmod x d else Int.tmod x d) = posRem d x := rfl
    rw [hpe]
    have htoadd : chk t.bits (d - posRem d x) = some (d - posRem d x) :=
      chk_of_inBits (by unfold InBits minOf maxOf; omega)
    have hwrap : wrap t.bits (d * 2) = d * 2 := wrap_of_inBits t.bits hbits _ hd2in
    cases Strategy.fromMode mode (decide (x > 0)) (intCmp (posRem d x) (d / 2)) with
    | roundUp => simp only [htoadd]
    | roundDown => rfl
    | roundToEven =>
      simp only [htoadd, hwrap]
      rw [if_neg (by omega : ¬ d * 2 = 0)]
      by_cases hx0 : x > 0
      · have hlo := (hpos hx0).1
        have : chk t.bits (x - posRem d x) = some (x - posRem d x) :=
          chk_of_inBits (by unfold InBits minOf maxOf; omega)
        simp only [hx0, decide_true, if_true, this]
      · have hhi := (hneg hx0).1
        have : chk t.bits (x + (d - posRem d x)) = some (x + (d - posRem d x)) :=
          chk_of_inBits (by unfold InBits minOf maxOf; omega)
        simp only [hx0, decide_false, Bool.false_eq_true, if_false, this]

/-! ## The core picks the value prescribed by the mode -/

theorem dvd_double_alt (d k : Int) (h : ¬ (d * 2) ∣ d * k) : (d * 2) ∣ (d * k + d) := by
  obtain ⟨j, hj⟩ : ∃ j, k = 2 * j ∨ k = 2 * j + 1 := ⟨k / 2, by omega⟩
  rcases hj with hj | hj
  · exfalso; apply h; exact ⟨j, by rw [hj]; ring⟩
  · exact ⟨j + 1, by rw [hj]; ring⟩

/-- abs-elimination followed by linear arithmetic -/
macro "abs_omega" : tactic =>
  `(tactic| (simp only [abs_lt, abs_le, lt_abs, le_abs] at * <;> omega))

theorem cmp_cases {d pr : Int} (hpar : d = 1 ∨ 2 ∣ d) (hpr0 : 0 < pr) (hprd : pr < d) :
    (intCmp pr (d / 2) = .lt ∧ 2 * pr < d) ∨ (intCmp pr (d / 2) = .eq ∧ 2 * pr = d) ∨
    (intCmp pr (d / 2) = .gt ∧ d < 2 * pr) := by
  unfold intCmp
  rcases lt_trichotomy pr (d / 2) with hc | hc | hc
  · left; rw [if_pos hc]; exact ⟨rfl, by omega⟩
  · right; left; rw [if_neg (by omega), if_pos hc]; exact ⟨rfl, by rcases hpar with h | h <;> omega⟩
  · right; right; rw [if_neg (by omega), if_neg (by omega)]; exact ⟨rfl, by omega⟩

section pick
variable {d x pr k : Int} (hd : 0 < d) (hpar : d = 1 ∨ 2 ∣ d) (hpr0 : 0 < pr) (hprd : pr < d)
  (hk : x - pr = d * k) (hpos : x > 0 → 0 ≤ x - pr) (hneg : ¬ x > 0 → x - pr + d ≤ 0)
include hd hpar hpr0 hprd hk hpos hneg

theorem isRounded_down (mode : Mode)
    (hS : Strategy.fromMode mode (decide (x > 0)) (intCmp pr (d / 2)) = .roundDown) :
    IsRounded mode d x (x - pr) := by
  have hdvd : d ∣ x - pr := ⟨k, hk⟩
  have hxr : x - (x - pr) = pr := by omega
  unfold IsRounded
  rw [hxr, abs_of_pos hpr0]
  refine ⟨hdvd, hprd, ?_⟩
  by_cases hx0 : x > 0
  · have h1 := hpos hx0
    have ax : |x| = x := abs_of_pos hx0
    have ar : |x - pr| = x - pr := abs_of_nonneg h1
    rcases cmp_cases hpar hpr0 hprd with ⟨hc, h2⟩ | ⟨hc, h2⟩ | ⟨hc, h2⟩ <;> rw [hc] at hS <;> cases mode <;>
      simp [Strategy.fromMode, Strategy.towardsZero, Strategy.awayFromZero,
        Strategy.fromMidpointOrdering, hx0] at hS ⊢ <;>
      (try rw [ax, ar]) <;> (try omega) <;> (try (constructor <;> intros <;> omega))
  · have h1 := hneg hx0
    have ax : |x| = -x := abs_of_nonpos (by omega)
    have ar : |x - pr| = -(x - pr) := abs_of_nonpos (by omega)
    rcases cmp_cases hpar hpr0 hprd with ⟨hc, h2⟩ | ⟨hc, h2⟩ | ⟨hc, h2⟩ <;> rw [hc] at hS <;> cases mode <;>
      simp [Strategy.fromMode, Strategy.towardsZero, Strategy.awayFromZero,
        Strategy.fromMidpointOrdering, hx0] at hS ⊢ <;>
      (try rw [ax, ar]) <;> (try omega) <;> (try (constructor <;> intros <;> omega))

theorem isRounded_up (mode : Mode)
    (hS : Strategy.fromMode mode (decide (x > 0)) (intCmp pr (d / 2)) = .roundUp) :
    IsRounded mode d x (x + (d - pr)) := by
  have hdvd : d ∣ x + (d - pr) := ⟨k + 1, by rw [Int.mul_add, Int.mul_one, ← hk]; omega⟩
  have hxr : x - (x + (d - pr)) = -(d - pr) := by omega
  unfold IsRounded
  rw [hxr, abs_neg, abs_of_pos (by omega : 0 < d - pr)]
  refine ⟨hdvd, by omega, ?_⟩
  by_cases hx0 : x > 0
  · have h1 := hpos hx0
    have ax : |x| = x := abs_of_pos hx0
    have ar : |x + (d - pr)| = x + (d - pr) := abs_of_nonneg (by omega)
    rcases cmp_cases hpar hpr0 hprd with ⟨hc, h2⟩ | ⟨hc, h2⟩ | ⟨hc, h2⟩ <;> rw [hc] at hS <;> cases mode <;>
      simp [Strategy.fromMode, Strategy.towardsZero, Strategy.awayFromZero,
        Strategy.fromMidpointOrdering, hx0] at hS ⊢ <;>
      (try rw [ax, ar]) <;> (try omega) <;> (try (constructor <;> intros <;> omega))
  · have h1 := hneg hx0
    have ax : |x| = -x := abs_of_nonpos (by omega)
    have ar : |x + (d - pr)| = -(x + (d - pr)) := abs_of_nonpos (by omega)
    rcases cmp_cases hpar hpr0 hprd with ⟨hc, h2⟩ | ⟨hc, h2⟩ | ⟨hc, h2⟩ <;> rw [hc] at hS <;> cases mode <;>
      simp [Strategy.fromMode, Strategy.towardsZero, Strategy.awayFromZero,
        Strategy.fromMidpointOrdering, hx0] at hS ⊢ <;>
      (try rw [ax, ar]) <;> (try omega) <;> (try (constructor <;> intros <;> omega))

/-- the strategy resolves to `RoundToEven` only for the to-even mode exactly at the midpoint -/
theorem even_only_at_tie (mode : Mode)
    (hS : Strategy.fromMode mode (decide (x > 0)) (intCmp pr (d / 2)) = .roundToEven) :
    mode = .toNearestMidpointToEven ∧ 2 * pr = d := by
  rcases cmp_cases hpar hpr0 hprd with ⟨hc, h2⟩ | ⟨hc, h2⟩ | ⟨hc, h2⟩ <;> rw [hc] at hS <;> cases mode <;>
    simp [Strategy.fromMode, Strategy.towardsZero, Strategy.awayFromZero,
      Strategy.fromMidpointOrdering] at hS ⊢ <;>
    (try (split at hS <;> simp at hS)) <;> (try omega)

theorem isRounded_even_lo (h2 : 2 * pr = d) (he : (d * 2) ∣ (x - pr)) :
    IsRounded .toNearestMidpointToEven d x (x - pr) := by
  have hxr : x - (x - pr) = pr := by omega
  unfold IsRounded
  rw [hxr, abs_of_pos hpr0]
  refine ⟨⟨k, hk⟩, hprd, by omega, fun _ => ?_⟩
  rw [Int.mul_comm]; exact he

theorem isRounded_even_hi (h2 : 2 * pr = d) (he : (d * 2) ∣ (x + (d - pr))) :
    IsRounded .toNearestMidpointToEven d x (x + (d - pr)) := by
  have hxr : x - (x + (d - pr)) = -(d - pr) := by omega
  unfold IsRounded
  rw [hxr, abs_neg, abs_of_pos (by omega : 0 < d - pr)]
  refine ⟨⟨k + 1, by rw [Int.mul_add, Int.mul_one, ← hk]; omega⟩, by omega, by omega, fun _ => ?_⟩
  rw [Int.mul_comm]; exact he

end pick

/-- The arithmetic core returns the value prescribed by the mode when it is representable and
`none` when it is not. -/
theorem roundCore_pick (t : Ty) (mode : Mode) (d x : Int) (hd : 0 < d) (hpar : d = 1 ∨ 2 ∣ d)
    (hx : t.InRange x) :
    ∃ r, IsRounded mode d x r ∧ roundCore t mode d x = Outcome.ofOption (chk t.bits r) := by
  unfold roundCore
  by_cases hrem : Int.tmod x d = 0
  · refine ⟨x, ⟨Int.dvd_of_tmod_eq_zero hrem, by simpa using hd, ?_⟩, ?_⟩
    · cases mode <;> simp <;> omega
    · rw [if_pos hrem, chk_of_inBits hx]; rfl
  · rw [if_neg hrem]
    obtain ⟨hpr0, hprd, ⟨k, hk⟩, hpos, hneg⟩ := posRem_facts d x hd hrem
    have hpe : (if Int.tmod x d < 0 then d + Int.tmod x d else Int.tmod x d) = posRem d x := rfl
    simp only [hpe]
    have hpos' : x > 0 → 0 ≤ x - posRem d x := fun h => (hpos h).1
    have hneg' : ¬ x > 0 → x - posRem d x + d ≤ 0 := fun h => (hneg h).1
    generalize posRem d x = pr at *
    cases hS : Strategy.fromMode mode (decide (x > 0)) (intCmp pr (d / 2)) with
    | roundUp => exact ⟨_, isRounded_up hd hpar hpr0 hprd hk hpos' hneg' mode hS, rfl⟩
    | roundDown => exact ⟨_, isRounded_down hd hpar hpr0 hprd hk hpos' hneg' mode hS, rfl⟩
    | roundToEven =>
      obtain ⟨hm, h2⟩ := even_only_at_tie hd hpar hpr0 hprd hk hpos' hneg' mode hS
      subst hm
      have hxin : InBits t.bits x := hx
      unfold InBits minOf maxOf at hxin
      simp only
      by_cases hx0 : x > 0
      · rw [if_pos hx0]
        have hin : InBits t.bits (x - pr) := by
          have := hpos' hx0; unfold InBits minOf maxOf; omega
        by_cases he : Int.tmod (x - pr) (d * 2) = 0
        · rw [if_pos he]
          refine ⟨x - pr, isRounded_even_lo hd hpar hpr0 hprd hk hpos' hneg' h2 (Int.dvd_of_tmod_eq_zero he), ?_⟩
          rw [chk_of_inBits hin]; rfl
        · rw [if_neg he]
          have hnd : ¬ (d * 2) ∣ d * k := fun hc => he (Int.tmod_eq_zero_of_dvd (hk ▸ hc))
          have h3 := dvd_double_alt d k hnd
          have e : x - pr + d = x + (d - pr) := by omega
          rw [e]
          refine ⟨x + (d - pr), isRounded_even_hi hd hpar hpr0 hprd hk hpos' hneg' h2 ?_, rfl⟩
          have : x + (d - pr) = d * k + d := by omega
          rw [this]; exact h3
      · rw [if_neg hx0]
        have hin : InBits t.bits (x + (d - pr)) := by
          have := hneg' hx0; unfold InBits minOf maxOf; omega
        by_cases he : Int.tmod (x + (d - pr)) (d * 2) = 0
        · rw [if_pos he]
          refine ⟨x + (d - pr), isRounded_even_hi hd hpar hpr0 hprd hk hpos' hneg' h2 (Int.dvd_of_tmod_eq_zero he), ?_⟩
          rw [chk_of_inBits hin]; rfl
        · rw [if_neg he]
          have e : x + (d - pr) - d = x - pr := by omega
          rw [e]
          refine ⟨x - pr, isRounded_even_lo hd hpar hpr0 hprd hk hpos' hneg' h2 ?_, rfl⟩
          -- `d*k + d` is not a multiple of `2d`, so `d*k` is
          by_contra hc
          apply he
          apply Int.tmod_eq_zero_of_dvd
          have h3 := dvd_double_alt d k (hk ▸ hc)
          have : x + (d - pr) = d * k + d := by omega
          rw [this]; exact h3

/-! ## The prescribed value is unique -/

private theorem isRounded_adjacent_false (mode : Mode) (d x r : Int) (hd : 0 < d)
    (h : IsRounded mode d x r) (h' : IsRounded mode d x (r + d)) : False := by
  obtain ⟨⟨j, hj⟩, hlt, hm⟩ := h
  obtain ⟨_, hlt', hm'⟩ := h'
  rw [abs_lt] at hlt hlt'
  -- r < x < r + d
  have hxr : |x - r| = x - r := abs_of_pos (by omega)
  have hxr' : |x - (r + d)| = r + d - x := by rw [abs_of_neg (by omega)]; omega
  rw [hxr] at hm; rw [hxr'] at hm'
  have hrd : r + d = d * (j + 1) := by rw [Int.mul_add, Int.mul_one, ← hj]
  by_cases hx : 0 < x
  · -- `r` and `r + d` are non-negative
    have h2 : 0 < j + 1 := Int.pos_of_mul_pos_right (by rw [← hrd]; omega) hd
    have hr0 : 0 ≤ r := by rw [hj]; exact Int.mul_nonneg (Int.le_of_lt hd) (by omega)
    have a1 : |x| = x := abs_of_pos hx
    have a2 : |r| = r := abs_of_nonneg hr0
    have a3 : |r + d| = r + d := abs_of_nonneg (by omega)
    cases mode <;> simp only [a1, a2, a3] at hm hm' <;> try omega
    -- to even: both neighbours are ties, so `2d ∣ r` and `2d ∣ r + d`, hence `2d ∣ d`
    have e1 := hm.2 (by omega)
    have e2 := hm'.2 (by omega)
    have e3 : 2 * d ∣ d := by
      have := Int.dvd_sub e2 e1
      have e : r + d - r = d := by omega
      rwa [e] at this
    have := Int.le_of_dvd hd e3
    omega
  · have h2 : j < 0 := Int.neg_of_mul_neg_right (by rw [← hj]; omega) hd
    have hrd0 : r + d ≤ 0 := by
      rw [hrd]; exact Int.mul_nonpos_of_nonneg_of_nonpos (Int.le_of_lt hd) (by omega)
    have a1 : |x| = -x := abs_of_nonpos (by omega)
    have a2 : |r| = -r := abs_of_nonpos (by omega)
    have a3 : |r + d| = -(r + d) := abs_of_nonpos hrd0
    cases mode <;> simp only [a1, a2, a3] at hm hm' <;> try omega
    have e1 := hm.2 (by omega)
    have e2 := hm'.2 (by omega)
    have e3 : 2 * d ∣ d := by
      have := Int.dvd_sub e2 e1
      have e : r + d - r = d := by omega
      rwa [e] at this
    have := Int.le_of_dvd hd e3
    omega

/-- For every mode there is at most one value `x` can be rounded to. -/
theorem isRounded_unique (mode : Mode) (d x r r' : Int) (hd : 0 < d)
    (h : IsRounded mode d x r) (h' : IsRounded mode d x r') : r = r' := by
  obtain ⟨j, hj⟩ := h.1
  obtain ⟨j', hj'⟩ := h'.1
  have hlt := abs_lt.mp h.2.1
  have hlt' := abs_lt.mp h'.2.1
  have h1 : d * (j - j') < d * 2 := by rw [Int.mul_sub, ← hj, ← hj']; omega
  have h2 : d * (j' - j) < d * 2 := by rw [Int.mul_sub, ← hj, ← hj']; omega
  have h3 := Int.lt_of_mul_lt_mul_left h1 (Int.le_of_lt hd)
  have h4 := Int.lt_of_mul_lt_mul_left h2 (Int.le_of_lt hd)
  have hcases : j' = j ∨ j' = j + 1 ∨ j = j' + 1 := by omega
  rcases hcases with e | e | e
  · rw [hj, hj', e]
  · exfalso
    have : r' = r + d := by rw [hj, hj', e, Int.mul_add, Int.mul_one]
    rw [this] at h'
    exact isRounded_adjacent_false mode d x r hd h h'
  · exfalso
    have : r = r' + d := by rw [hj, hj', e, Int.mul_add, Int.mul_one]
    rw [this] at h
    exact isRounded_adjacent_false mode d x r' hd h' h

/-- If `r` is the value prescribed by `mode` and is representable, `checked_round` returns it. -/
theorem checkedRound_of_isRounded (t : Ty) (p : Int) (hp0 : 0 ≤ p) (hp : p ≤ t.scale) (mode : Mode)
    (x r : Int) (hx : t.InRange x) (hr : IsRounded mode (pow10 (t.scale - p.toNat)) x r)
    (hin : t.InRange r) : checkedRound t p mode x = .val r := by
  obtain ⟨hd, _, _, hpar⟩ := pow10_facts t (t.scale - p.toNat) (by omega)
  rw [checkedRound_eq_core t p hp0 hp mode x hx]
  obtain ⟨r0, hr0, he⟩ := roundCore_pick t mode _ x hd hpar hx
  have : r = r0 := isRounded_unique mode _ x r r0 hd hr hr0
  subst this
  rw [he, chk_of_inBits hin]; rfl

end Radix.Dec
