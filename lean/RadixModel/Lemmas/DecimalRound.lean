/-
Helper lemmas for C25: `checkedRound` reduced to its arithmetic core.
-/
import RadixModel.Model.Decimal
import RadixModel.Lemmas.Decimal

namespace Radix.Dec

end Radix.Dec
