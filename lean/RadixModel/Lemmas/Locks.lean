import RadixModel.Model.Locks

namespace Radix.Locks

theorem uniq_of_pairwise {l : List Handle} (hp : l.Pairwise (fun a b => a.id ≠ b.id))
    {x y : Handle} (hx : x ∈ l) (hy : y ∈ l) (e : x.id = y.id) : x = y := by
  induction l with
  | nil => cases hx
  | cons a t ih =>
    simp only [List.pairwise_cons] at hp
    simp only [List.mem_cons] at hx hy
    rcases hx with rfl | hx <;> rcases hy with rfl | hy
    · rfl
    · exact absurd e (hp.1 y hy)
    · exact absurd e.symm (hp.1 x hx)
    · exact ih hp.2 hx hy

theorem filter_ne_length {l : List Handle} (hp : l.Pairwise (fun a b => a.id ≠ b.id))
    {hd : Handle} (hm : hd ∈ l) :
    (l.filter (fun x => x.id != hd.id)).length + 1 = l.length := by
  induction l with
  | nil => cases hm
  | cons a t ih =>
    simp only [List.pairwise_cons] at hp
    simp only [List.mem_cons] at hm
    rcases hm with rfl | hm
    · have : t.filter (fun x => x.id != hd.id) = t := by
        apply List.filter_eq_self.mpr
        intro b hb; have := hp.1 b hb; simp; exact fun e => this e.symm
      simp [this]
    · have hne : a.id ≠ hd.id := hp.1 hd hm
      simp [hne, ih hp.2 hm]

theorem filter_ne_self {l : List Handle} {h : Nat} (hno : ∀ x ∈ l, x.id ≠ h) :
    l.filter (fun x => x.id != h) = l := by
  apply List.filter_eq_self.mpr
  intro b hb; simp; exact hno b hb

end Radix.Locks
