/-
C17 — the batch put (`batch_update_subtree`, `…_with_existing_leaf`, `batch_insert_at`) preserves the
invariant `Inv` and implements the overlay of the value set on the old leaves (`Rep`).
-/
import RadixModel.Lemmas.JmtInv
namespace Radix.Jmt

variable {α : Type}

abbrev Val (α : Type) := Hash × Nat × α

/-- lookup of a key (`get_with_proof` without the error case). -/
def getT : Tree α → Key → Nat → Option (Val α)
  | .null, _, _ => none
  | .leaf _ k vh p s, key, _ => if k = key then some (vh, p, s) else none
  | .node _ _ c, key, d =>
    match nib key d with
    | none => none
    | some n => getT (c n) key (d + 1)

/-- `S` overlaid with the value set `kvs` (`Some` = upsert, `None` = delete). -/
def over (kvs : List (KV α)) (base : Key → Option (Val α)) (k : Key) : Option (Val α) :=
  match kvs.find? (fun kv => kv.key = k) with
  | some kv => kv.val
  | none => base k

def toOpt (t : Tree α) : Option (Tree α) := if t.isNull then none else some t

/-- `ot` is the canonical representation, at local path `lp`, of the finite map `S` restricted to the
keys extending `lp`. -/
def Rep (H : List UInt8 → Hash) (lp : Path) (S : Key → Option (Val α)) : Option (Tree α) → Prop
  | none => ∀ k, lp <+: nibbles k → S k = none
  | some t => t.isNull = false ∧ Inv H lp t ∧ ∀ k, lp <+: nibbles k → getT t k lp.length = S k

/-! ### nibbles and prefixes -/

theorem nibbles_lt (k : Key) : ∀ n ∈ nibbles k, n < 16 := by
  induction k with
  | nil => intro n h; simp [nibbles] at h
  | cons b r ih =>
    intro n h
    simp only [nibbles, List.mem_cons] at h
    rcases h with h | h | h
    · have := b.toNat_lt; subst h; omega
    · subst h; omega
    · exact ih n h

theorem nib_lt (k : Key) (d n : Nat) (h : nib k d = some n) : n < 16 := by
  unfold nib at h
  exact nibbles_lt k n (List.mem_of_getElem? h)

theorem nib_of_prefix (lp : Path) (n : Nat) (k : Key) (h : (lp ++ [n]) <+: nibbles k) :
    nib k lp.length = some n := by
  obtain ⟨rest, hr⟩ := h
  unfold nib
  rw [← hr]; simp

theorem prefix_snoc (lp : Path) (n : Nat) (k : Key) (h : lp <+: nibbles k)
    (hn : nib k lp.length = some n) : (lp ++ [n]) <+: nibbles k := by
  obtain ⟨rest, hr⟩ := h
  unfold nib at hn
  rw [← hr] at hn ⊢
  cases rest with
  | nil => simp at hn
  | cons a rest =>
    simp at hn; subst hn
    exact ⟨rest, by simp⟩

theorem prefix_of_snoc (lp : Path) (n : Nat) (k : Key) (h : (lp ++ [n]) <+: nibbles k) :
    lp <+: nibbles k := List.IsPrefix.trans (List.prefix_append lp [n]) h

/-! ### tabulated children -/

theorem norm_lt (M : Nat → Tree α) (i : Nat) (h : i < 16) : norm M i = M i := by
  unfold norm ofTable
  rw [List.getD_eq_getElem?_getD, List.getElem?_map, List.getElem?_range h]; rfl

theorem norm_ge (M : Nat → Tree α) (i : Nat) (h : 16 ≤ i) : norm M i = .null := by
  unfold norm ofTable
  rw [List.getD_eq_getElem?_getD, List.getElem?_eq_none (by simp; omega)]; rfl

theorem size_node_norm (v : Nat) (h : Hash) (M : Nat → Tree α) :
    size (Tree.node v h (norm M)) = ((List.range 16).map fun i => size (M i)).sum := by
  have : (List.range 16).map (fun i => size (norm M i)) = (List.range 16).map (fun i => size (M i)) :=
    List.map_congr_left (fun i hi => by rw [norm_lt M i (List.mem_range.mp hi)])
  simp only [size]; rw [this]

theorem sum_ge_one (f : Nat → Nat) (n i : Nat) (h : i < n) : f i ≤ ((List.range n).map f).sum := by
  induction n with
  | zero => omega
  | succ n ih =>
    rw [List.range_succ, List.map_append, List.sum_append]
    by_cases hi : i < n
    · have := ih hi; omega
    · have : i = n := by omega
      subst this; simp

theorem sum_ge_two (f : Nat → Nat) (n i j : Nat) (hi : i < n) (hj : j < n) (hij : i ≠ j) :
    f i + f j ≤ ((List.range n).map f).sum := by
  induction n with
  | zero => omega
  | succ n ih =>
    rw [List.range_succ, List.map_append, List.sum_append]
    simp only [List.map_cons, List.map_nil, List.sum_cons, List.sum_nil, Nat.add_zero]
    by_cases hi' : i < n
    · by_cases hj' : j < n
      · have := ih hi' hj'; omega
      · have : j = n := by omega
        subst this
        have := sum_ge_one f j i hi'; omega
    · have : i = n := by omega
      subst this
      have hj' : j < i := by omega
      have := sum_ge_one f i j hj'; omega

/-! ### the three ways a put returns -/

section shapes
variable (H : List UInt8 → Hash) (lp : Path) (S : Key → Option (Val α)) (M : Nat → Tree α)
variable (hrep : ∀ i, i < 16 → Rep H (lp ++ [i]) S (toOpt (M i)))
variable (hbase : ∀ k, lp <+: nibbles k → nib k lp.length = none → S k = none)
include hrep hbase

theorem rep_none (hnull : ∀ i, i < 16 → (M i).isNull = true) : Rep H lp S none := by
  intro k hk
  cases hn : nib k lp.length with
  | none => exact hbase k hk hn
  | some n =>
    have hlt := nib_lt k _ n hn
    have := hrep n hlt
    simp only [toOpt, hnull n hlt, if_true] at this
    exact this k (prefix_snoc lp n k hk hn)

theorem rep_leaf (n : Nat) (hn : n < 16) (v v' : Nat) (lk : Key) (vh : Hash) (pl : Nat) (s : α)
    (hM : M n = .leaf v lk vh pl s) (hnull : ∀ i, i < 16 → i ≠ n → (M i).isNull = true) :
    Rep H lp S (some (.leaf v' lk vh pl s)) := by
  have hr := hrep n hn
  simp only [toOpt, hM, Tree.isNull] at hr
  obtain ⟨_, hinv, hget⟩ := hr
  have hpre : (lp ++ [n]) <+: nibbles lk := hinv
  refine ⟨rfl, prefix_of_snoc lp n lk hpre, ?_⟩
  intro k hk
  have hlkn := nib_of_prefix lp n lk hpre
  cases hkn : nib k lp.length with
  | none =>
    rw [hbase k hk hkn]
    simp only [getT]
    have : lk ≠ k := by intro e; rw [e, hkn] at hlkn; cases hlkn
    simp [this]
  | some m =>
    have hm := nib_lt k _ m hkn
    by_cases hmn : m = n
    · subst hmn
      have := hget k (prefix_snoc lp m k hk hkn)
      simpa [getT] using this
    · have hr' := hrep m hm
      simp only [toOpt, hnull m hm hmn, if_true] at hr'
      rw [hr' k (prefix_snoc lp m k hk hkn)]
      have : lk ≠ k := by intro e; rw [e, hkn] at hlkn; cases hlkn; exact hmn rfl
      simp [getT, this]

theorem rep_node (v : Nat)
    (hsize : (∃ i, i < 16 ∧ (M i).isNode = true) ∨
      (∃ i j, i < 16 ∧ j < 16 ∧ i ≠ j ∧ (M i).isNull = false ∧ (M j).isNull = false)) :
    Rep H lp S (some (.node v (internalHash H (norm M)) (norm M))) := by
  have hinv : ∀ i, Inv H (lp ++ [i]) (norm M i) := by
    intro i
    by_cases hi : i < 16
    · rw [norm_lt M i hi]
      have := hrep i hi
      unfold toOpt at this
      by_cases hnl : (M i).isNull = true
      · cases hM : M i with
        | null => trivial
        | leaf => rw [hM] at hnl; simp [Tree.isNull] at hnl
        | node => rw [hM] at hnl; simp [Tree.isNull] at hnl
      · simp only [hnl] at this; exact this.2.1
    · rw [norm_ge M i (by omega)]; trivial
  have hsz : ∀ i, i < 16 → (M i).isNull = false → 1 ≤ size (M i) := by
    intro i hi hnl
    have := hrep i hi
    simp only [toOpt, hnl] at this
    exact size_pos_of_not_null H _ _ this.2.1 hnl
  refine ⟨rfl, ⟨rfl, hinv, fun i hi => norm_ge M i hi, ?_⟩, ?_⟩
  · rw [size_node_norm]
    rcases hsize with ⟨i, hi, hnode⟩ | ⟨i, j, hi, hj, hij, hni, hnj⟩
    · have h1 := sum_ge_one (fun i => size (M i)) 16 i hi
      have h2 : 2 ≤ size (M i) := by
        have := hrep i hi
        cases hM : M i with
        | null => rw [hM] at hnode; simp [Tree.isNode] at hnode
        | leaf => rw [hM] at hnode; simp [Tree.isNode] at hnode
        | node v' h' c' =>
          simp only [toOpt, hM, Tree.isNull] at this
          exact this.2.1.2.2.2
      omega
    · have h1 := sum_ge_two (fun i => size (M i)) 16 i j hi hj hij
      have := hsz i hi hni; have := hsz j hj hnj
      omega
  · intro k hk
    simp only [getT]
    cases hkn : nib k lp.length with
    | none => simp only; exact (hbase k hk hkn).symm
    | some m =>
      have hm := nib_lt k _ m hkn
      simp only
      rw [norm_lt M m hm]
      have hr := hrep m hm
      have hpre := prefix_snoc lp m k hk hkn
      unfold toOpt at hr
      by_cases hnl : (M m).isNull = true
      · simp only [hnl, if_true] at hr
        rw [hr k hpre]
        cases hM : M m with
        | null => rfl
        | leaf => rw [hM] at hnl; simp [Tree.isNull] at hnl
        | node => rw [hM] at hnl; simp [Tree.isNull] at hnl
      · simp only [hnl] at hr
        have := hr.2.2 k hpre
        simpa using this

end shapes


/-! ### groups, mapGroups, childFn -/

def grp (d : Nat) (kvs : List (KV α)) (n : Nat) : List (KV α) :=
  kvs.filter (fun kv => nib kv.key d == some n)

theorem groups_ok (d : Nat) (kvs : List (KV α)) (gs : List (Nat × List (KV α)))
    (h : groups d kvs = .ok gs) :
    (∀ kv ∈ kvs, ∃ n, nib kv.key d = some n) ∧
    (∀ x ∈ gs, x.1 < 16 ∧ x.2 = grp d kvs x.1 ∧ x.2 ≠ []) ∧
    (gs.map (·.1)).Nodup ∧
    (∀ n, n < 16 → grp d kvs n ≠ [] → (n, grp d kvs n) ∈ gs) := by
  unfold groups at h
  split at h
  · rename_i hall
    injection h with h
    subst h
    refine ⟨?_, ?_, ?_, ?_⟩
    · intro kv hkv
      have := List.all_eq_true.mp hall kv hkv
      exact Option.isSome_iff_exists.mp this
    · intro x hx
      simp only [List.mem_filterMap, List.mem_range] at hx
      obtain ⟨n, hn, hx⟩ := hx
      split at hx
      · cases hx
      · injection hx with hx; subst hx
        rename_i hne
        refine ⟨hn, rfl, ?_⟩
        simpa [grp] using hne
    · have : (List.map (·.1) ((List.range 16).filterMap fun n =>
          let g := kvs.filter (fun kv => nib kv.key d == some n)
          if g.isEmpty then none else some (n, g))) =
          (List.range 16).filter (fun n => !(kvs.filter (fun kv => nib kv.key d == some n)).isEmpty) := by
        generalize List.range 16 = l
        induction l with
        | nil => rfl
        | cons a l ih =>
          simp only [List.filterMap_cons, List.filter_cons]
          by_cases he : (kvs.filter (fun kv => nib kv.key d == some a)).isEmpty = true
          · simp only [he, if_true]; simpa using ih
          · simp only [he]; simpa using ih
      rw [this]
      exact List.Nodup.sublist List.filter_sublist List.nodup_range
    · intro n hn hne
      simp only [List.mem_filterMap, List.mem_range]
      refine ⟨n, hn, ?_⟩
      have : (kvs.filter (fun kv => nib kv.key d == some n)).isEmpty = false := by
        simpa [grp] using hne
      simp only [this]; rfl
  · cases h

theorem mapGroups_spec (f : Nat → List (KV α) → Except Err (R α)) :
    ∀ (gs : List (Nat × List (KV α))) (rs : List (Nat × Option (Tree α))) (b : Batch),
    mapGroups f gs = .ok (rs, b) →
    rs.map (·.1) = gs.map (·.1) ∧
    (∀ x ∈ gs, ∃ r, f x.1 x.2 = .ok r ∧ (x.1, r.t) ∈ rs) ∧
    (∀ y ∈ rs, ∃ g r, (y.1, g) ∈ gs ∧ f y.1 g = .ok r ∧ r.t = y.2) := by
  intro gs
  induction gs with
  | nil =>
    intro rs b h
    simp only [mapGroups] at h
    injection h with h; injection h with h1 h2; subst h1
    simp
  | cons x gs ih =>
    intro rs b h
    obtain ⟨n, g⟩ := x
    simp only [mapGroups] at h
    cases hf : f n g with
    | error e => rw [hf] at h; cases h
    | ok r =>
      rw [hf] at h
      cases hm : mapGroups f gs with
      | error e => rw [hm] at h; cases h
      | ok p =>
        obtain ⟨rs', b'⟩ := p
        rw [hm] at h
        injection h with h; injection h with h1 h2; subst h1
        obtain ⟨i1, i2, i3⟩ := ih rs' b' hm
        refine ⟨by simp [i1], ?_, ?_⟩
        · intro x hx
          simp only [List.mem_cons] at hx
          rcases hx with rfl | hx
          · exact ⟨r, hf, by simp⟩
          · obtain ⟨r', h1, h2⟩ := i2 x hx
            exact ⟨r', h1, by simp [h2]⟩
        · intro y hy
          simp only [List.mem_cons] at hy
          rcases hy with rfl | hy
          · exact ⟨g, r, by simp, hf, rfl⟩
          · obtain ⟨g', r', h1, h2, h3⟩ := i3 y hy
            exact ⟨g', r', by simp [h1], h2, h3⟩

theorem mem_someChildren (rs : List (Nat × Option (Tree α))) (n : Nat) (t : Tree α) :
    (n, t) ∈ someChildren rs ↔ (n, some t) ∈ rs := by
  unfold someChildren
  simp only [List.mem_filterMap]
  constructor
  · rintro ⟨⟨m, o⟩, hm, ho⟩
    cases o with
    | none => simp at ho
    | some t' => simp at ho; obtain ⟨rfl, rfl⟩ := ho; exact hm
  · intro h; exact ⟨(n, some t), h, rfl⟩

theorem someChildren_fst_sublist (rs : List (Nat × Option (Tree α))) :
    ((someChildren rs).map (·.1)).Sublist (rs.map (·.1)) := by
  unfold someChildren
  induction rs with
  | nil => simp
  | cons x rs ih =>
    obtain ⟨n, o⟩ := x
    cases o with
    | none => simp only [List.filterMap_cons, Option.map_none, List.map_cons]; exact List.Sublist.cons _ ih
    | some t => simp only [List.filterMap_cons, Option.map_some, List.map_cons]; exact List.Sublist.cons_cons _ ih

theorem childFn_mem (cs : List (Nat × Tree α)) (dflt : Nat → Tree α) (n : Nat) (t : Tree α)
    (hnd : (cs.map (·.1)).Nodup) (h : (n, t) ∈ cs) : childFn cs dflt n = t := by
  unfold childFn
  induction cs with
  | nil => simp at h
  | cons x cs ih =>
    obtain ⟨m, t'⟩ := x
    simp only [List.map_cons, List.nodup_cons] at hnd
    simp only [List.mem_cons] at h
    simp only [List.lookup_cons]
    rcases h with h | h
    · injection h with h1 h2; subst h1; subst h2; simp
    · have : n ≠ m := by
        intro e; subst e
        exact hnd.1 (List.mem_map.mpr ⟨(n, t), h, rfl⟩)
      have hb : (n == m) = false := by simpa using this
      simp only [hb]
      exact ih hnd.2 h

theorem childFn_not_mem (cs : List (Nat × Tree α)) (dflt : Nat → Tree α) (n : Nat)
    (h : n ∉ cs.map (·.1)) : childFn cs dflt n = dflt n := by
  unfold childFn
  induction cs with
  | nil => rfl
  | cons x cs ih =>
    obtain ⟨m, t'⟩ := x
    simp only [List.map_cons, List.mem_cons, not_or] at h
    simp only [List.lookup_cons]
    have hb : (n == m) = false := by simpa using h.1
    simp only [hb]
    exact ih h.2


/-! ### `finish` -/

theorem childFn_rep (H : List UInt8 → Hash) (lp : Path) (S : Key → Option (Val α))
    (cs : List (Nat × Tree α)) (dflt : Nat → Tree α)
    (hnd : (cs.map (·.1)).Nodup)
    (hcs : ∀ x ∈ cs, Rep H (lp ++ [x.1]) S (some x.2))
    (hd : ∀ n, n < 16 → n ∉ cs.map (·.1) → Rep H (lp ++ [n]) S (toOpt (dflt n))) :
    ∀ i, i < 16 → Rep H (lp ++ [i]) S (toOpt (childFn cs dflt i)) := by
  intro i hi
  by_cases hmem : i ∈ cs.map (·.1)
  · obtain ⟨⟨n, t⟩, hx, hn⟩ := List.mem_map.mp hmem
    simp only at hn; subst hn
    rw [childFn_mem cs dflt n t hnd hx]
    have := hcs (n, t) hx
    have hnl : t.isNull = false := this.1
    simp only [toOpt, hnl]
    exact this
  · rw [childFn_not_mem cs dflt i hmem]
    exact hd i hi hmem

theorem finish_spec (H : List UInt8 → Hash) (v : Nat) (pfx lp : Path) (cs : List (Nat × Tree α))
    (b : Batch) (S : Key → Option (Val α))
    (hnd : (cs.map (·.1)).Nodup) (hlt : ∀ x ∈ cs, x.1 < 16)
    (hcs : ∀ x ∈ cs, Rep H (lp ++ [x.1]) S (some x.2))
    (hnone : ∀ n, n < 16 → n ∉ cs.map (·.1) → ∀ k, (lp ++ [n]) <+: nibbles k → S k = none)
    (hbase : ∀ k, lp <+: nibbles k → nib k lp.length = none → S k = none) :
    Rep H lp S (finish H v pfx lp cs b).t := by
  have hrep := childFn_rep H lp S cs (fun _ => Tree.null) hnd hcs
    (fun n hn hmem => by simp only [toOpt, Tree.isNull, if_true]; exact hnone n hn hmem)
  match cs, hnd, hlt, hcs, hrep with
  | [], _, _, _, hrep =>
    simp only [finish]
    exact rep_none H lp S _ hrep hbase (fun i _ => by simp [childFn, Tree.isNull])
  | [(n, t)], hnd, hlt, hcs, hrep =>
    have hn : n < 16 := hlt (n, t) (by simp)
    have hMn : childFn [(n, t)] (fun _ => Tree.null) n = t := childFn_mem _ _ n t hnd (by simp)
    have hnl : t.isNull = false := (hcs (n, t) (by simp)).1
    simp only [finish]
    by_cases hl : t.isLeaf = true
    · simp only [hl, if_true]
      cases ht : t with
      | null => rw [ht] at hl; simp [Tree.isLeaf] at hl
      | node => rw [ht] at hl; simp [Tree.isLeaf] at hl
      | leaf v' lk vh pl s =>
        refine rep_leaf H lp S _ hrep hbase n hn v' v' lk vh pl s (by rw [hMn, ht]) ?_
        intro i _ hin
        rw [childFn_not_mem _ _ i (by simpa using hin)]; rfl
    · simp only [hl]
      refine rep_node H lp S _ hrep hbase v (Or.inl ⟨n, hn, ?_⟩)
      rw [hMn]
      cases ht : t with
      | null => rw [ht] at hnl; simp [Tree.isNull] at hnl
      | leaf => rw [ht] at hl; simp [Tree.isLeaf] at hl
      | node => rfl
  | x :: y :: rest, hnd, hlt, hcs, hrep =>
    simp only [finish]
    refine rep_node H lp S _ hrep hbase v (Or.inr ⟨x.1, y.1, hlt x (by simp), hlt y (by simp), ?_, ?_, ?_⟩)
    · simp only [List.map_cons, List.nodup_cons, List.mem_cons, not_or] at hnd
      exact hnd.1.1
    · rw [childFn_mem _ _ x.1 x.2 hnd (by simp)]; exact (hcs x (by simp)).1
    · rw [childFn_mem _ _ y.1 y.2 hnd (by simp)]; exact (hcs y (by simp)).1


/-! ### `batch_update_subtree` -/

def KeysNodup (kvs : List (KV α)) : Prop := (kvs.map (·.key)).Nodup

theorem Rep_congr (H : List UInt8 → Hash) (lp : Path) (S S' : Key → Option (Val α))
    (h : ∀ k, lp <+: nibbles k → S k = S' k) (ot : Option (Tree α)) (hr : Rep H lp S ot) :
    Rep H lp S' ot := by
  cases ot with
  | none => intro k hk; rw [← h k hk]; exact hr k hk
  | some t => exact ⟨hr.1, hr.2.1, fun k hk => by rw [← h k hk]; exact hr.2.2 k hk⟩

theorem find_grp (d : Nat) (kvs : List (KV α)) (n : Nat) (k : Key) (hk : nib k d = some n) :
    (grp d kvs n).find? (fun kv => kv.key = k) = kvs.find? (fun kv => kv.key = k) := by
  unfold grp
  induction kvs with
  | nil => rfl
  | cons kv kvs ih =>
    by_cases hkk : kv.key = k
    · subst hkk
      have : (nib kv.key d == some n) = true := by rw [hk]; simp
      simp only [List.filter_cons, this, if_true, List.find?_cons, decide_true]
    · by_cases hp : (nib kv.key d == some n) = true
      · simp only [List.filter_cons, hp, if_true, List.find?_cons, hkk, decide_false]
        exact ih
      · simp only [List.filter_cons, hp, List.find?_cons, hkk, decide_false]
        exact ih

theorem over_grp (d : Nat) (kvs : List (KV α)) (n : Nat) (base : Key → Option (Val α)) (k : Key)
    (hk : nib k d = some n) : over (grp d kvs n) base k = over kvs base k := by
  unfold over; rw [find_grp d kvs n k hk]

theorem grp_nodup (d : Nat) (kvs : List (KV α)) (n : Nat) (h : KeysNodup kvs) :
    KeysNodup (grp d kvs n) := by
  unfold KeysNodup grp at *
  exact List.Nodup.sublist (List.Sublist.map _ List.filter_sublist) h

theorem grp_prefix (lp : Path) (kvs : List (KV α)) (n : Nat)
    (h : ∀ kv ∈ kvs, lp <+: nibbles kv.key) :
    ∀ kv ∈ grp lp.length kvs n, (lp ++ [n]) <+: nibbles kv.key := by
  intro kv hkv
  unfold grp at hkv
  obtain ⟨hmem, hp⟩ := List.mem_filter.mp hkv
  exact prefix_snoc lp n kv.key (h kv hmem) (by simpa using hp)

theorem find_none_of_grp_nil (d : Nat) (kvs : List (KV α)) (n : Nat) (k : Key)
    (hk : nib k d = some n) (hg : grp d kvs n = []) : kvs.find? (fun kv => kv.key = k) = none := by
  rw [← find_grp d kvs n k hk, hg]; rfl

theorem find_none_of_nib_none (d : Nat) (kvs : List (KV α)) (k : Key)
    (hall : ∀ kv ∈ kvs, ∃ n, nib kv.key d = some n) (hk : nib k d = none) :
    kvs.find? (fun kv => kv.key = k) = none := by
  cases hf : kvs.find? (fun kv => kv.key = k) with
  | none => rfl
  | some kv =>
    have h1 := List.find?_some hf
    have h2 := List.mem_of_find?_eq_some hf
    obtain ⟨n, hn⟩ := hall kv h2
    simp only [decide_eq_true_eq] at h1
    rw [h1, hk] at hn; cases hn

/-- the shared "general" branch: group, recurse, `finish`. `base` is what lies below `lp` before the
put, `F` the recursive call for nibble `n`; `hF` its specification. -/
theorem general_spec (H : List UInt8 → Hash) (v : Nat) (pfx lp : Path) (kvs : List (KV α))
    (base : Key → Option (Val α))
    (F : Nat → List (KV α) → Except Err (R α))
    (gs : List (Nat × List (KV α))) (rs : List (Nat × Option (Tree α))) (b : Batch)
    (hg : groups lp.length kvs = .ok gs) (hm : mapGroups F gs = .ok (rs, b))
    (hF : ∀ n r, n < 16 → grp lp.length kvs n ≠ [] → F n (grp lp.length kvs n) = .ok r →
      Rep H (lp ++ [n]) (over (grp lp.length kvs n) base) r.t)
    (extra : List (Nat × Tree α))
    (hextra : ∀ x ∈ extra, x.1 < 16 ∧ x.1 ∉ gs.map (·.1) ∧ Rep H (lp ++ [x.1]) base (some x.2))
    (hextra_nd : (extra.map (·.1)).Nodup)
    (hbase_none : ∀ n, n < 16 → n ∉ extra.map (·.1) → n ∉ gs.map (·.1) →
      ∀ k, (lp ++ [n]) <+: nibbles k → base k = none)
    (hbase0 : ∀ k, lp <+: nibbles k → nib k lp.length = none → base k = none) :
    Rep H lp (over kvs base) (finish H v pfx lp (someChildren rs ++ extra) b).t := by
  obtain ⟨hall, hgs, hgnd, hgmem⟩ := groups_ok _ _ _ hg
  obtain ⟨hfst, hfwd, hbwd⟩ := mapGroups_spec F gs rs b hm
  have hsub := someChildren_fst_sublist rs
  rw [hfst] at hsub
  -- a key whose nibble has no group is not touched by the value set
  have huntouched : ∀ n k, n ∉ gs.map (·.1) → n < 16 → (lp ++ [n]) <+: nibbles k →
      over kvs base k = base k := by
    intro n k hn hlt hk
    have hkn := nib_of_prefix lp n k hk
    have : grp lp.length kvs n = [] := by
      by_cases hgn : grp lp.length kvs n = []
      · exact hgn
      · exact absurd (List.mem_map.mpr ⟨_, hgmem n hlt hgn, rfl⟩) hn
    unfold over; rw [find_none_of_grp_nil _ _ n k hkn this]
  apply finish_spec
  · rw [List.map_append]
    refine List.nodup_append.mpr ⟨List.Nodup.sublist hsub hgnd, hextra_nd, ?_⟩
    intro a ha b' hb' e
    subst e
    obtain ⟨x, hx, hxa⟩ := List.mem_map.mp hb'
    have := (hextra x hx).2.1
    rw [hxa] at this
    exact this (hsub.subset ha)
  · intro x hx
    rcases List.mem_append.mp hx with hx | hx
    · obtain ⟨g, r, hmem, _, _⟩ := hbwd (x.1, some x.2) ((mem_someChildren rs x.1 x.2).mp hx)
      exact (hgs _ hmem).1
    · exact (hextra x hx).1
  · intro x hx
    rcases List.mem_append.mp hx with hx | hx
    · obtain ⟨g, r, hmem, hfr, hrt⟩ := hbwd (x.1, some x.2) ((mem_someChildren rs x.1 x.2).mp hx)
      obtain ⟨hlt, hgeq, hgne⟩ := hgs _ hmem
      simp only at hgeq hgne hfr hrt
      rw [hgeq] at hfr hgne
      have := hF x.1 r hlt hgne hfr
      rw [hrt] at this
      exact Rep_congr H _ _ _ (fun k hk => over_grp _ kvs x.1 base k (nib_of_prefix lp x.1 k hk)) _ this
    · obtain ⟨hlt, hnot, hr⟩ := hextra x hx
      exact Rep_congr H _ _ _ (fun k hk => (huntouched x.1 k hnot hlt hk).symm) _ hr
  · intro n hn hnot k hk
    rw [List.map_append, List.mem_append, not_or] at hnot
    by_cases hgn : n ∈ gs.map (·.1)
    · obtain ⟨⟨n', g⟩, hmem, hn'⟩ := List.mem_map.mp hgn
      simp only at hn'; subst hn'
      obtain ⟨r, hfr, hrs⟩ := hfwd _ hmem
      obtain ⟨hlt, hgeq, hgne⟩ := hgs _ hmem
      simp only at hgeq hgne hfr hrs
      rw [hgeq] at hfr hgne
      have hrep := hF n' r hlt hgne hfr
      cases hrt : r.t with
      | none =>
        rw [hrt] at hrep
        rw [← over_grp _ kvs n' base k (nib_of_prefix lp n' k hk)]
        exact hrep k hk
      | some t =>
        rw [hrt] at hrs
        exact absurd (List.mem_map.mpr ⟨(n', t), (mem_someChildren rs n' t).mpr hrs, rfl⟩) hnot.1
    · rw [huntouched n k hgn hn hk]
      exact hbase_none n hn hnot.2 hgn k hk
  · intro k hk hkn
    unfold over
    rw [find_none_of_nib_none _ kvs k hall hkn]
    exact hbase0 k hk hkn


def noBase : Key → Option (Val α) := fun _ => none

theorem single_spec (H : List UInt8 → Hash) (v : Nat) (lp : Path) (kv : KV α)
    (base : Key → Option (Val α)) (hb : ∀ k, k ≠ kv.key → lp <+: nibbles k → base k = none)
    (hp : lp <+: nibbles kv.key) :
    Rep H lp (over [kv] base) (single v kv).t := by
  unfold single
  cases hv : kv.val with
  | none =>
    intro k hk
    unfold over
    by_cases hkk : kv.key = k
    · subst hkk; simp [List.find?_cons, hv]
    · simp only [List.find?_cons, hkk, decide_false, List.find?_nil]
      exact hb k (fun e => hkk e.symm) hk
  | some val =>
    obtain ⟨vh, p, s⟩ := val
    refine ⟨rfl, hp, ?_⟩
    intro k hk
    unfold over
    by_cases hkk : kv.key = k
    · subst hkk; simp [getT, List.find?_cons, hv]
    · simp only [getT, List.find?_cons, hkk, decide_false, List.find?_nil, if_false]
      exact (hb k (fun e => hkk e.symm) hk).symm

theorem upd_spec (H : List UInt8 → Hash) (v : Nat) (pfx : Path) :
    ∀ (fuel : Nat) (lp : Path) (kvs : List (KV α)) (r : R α),
    updateSubtree H v pfx fuel lp kvs = .ok r → KeysNodup kvs →
    (∀ kv ∈ kvs, lp <+: nibbles kv.key) → Rep H lp (over kvs noBase) r.t := by
  intro fuel
  induction fuel with
  | zero => intro lp kvs r h; simp [updateSubtree] at h
  | succ fuel ih =>
    intro lp kvs r h hnd hpre
    have general : ∀ r, (match groups lp.length kvs with
        | .error e => .error e
        | .ok gs =>
          match mapGroups (fun n g => updateSubtree H v pfx fuel (lp ++ [n]) g) gs with
          | .error e => .error e
          | .ok (rs, b) => .ok (finish H v pfx lp (someChildren rs) b)) = Except.ok r →
        Rep H lp (over kvs noBase) r.t := by
      intro r h
      cases hg : groups lp.length kvs with
      | error e => rw [hg] at h; cases h
      | ok gs =>
        rw [hg] at h; simp only at h
        cases hm : mapGroups (fun n g => updateSubtree H v pfx fuel (lp ++ [n]) g) gs with
        | error e => rw [hm] at h; cases h
        | ok p =>
          obtain ⟨rs, b⟩ := p
          rw [hm] at h; simp only at h
          injection h with h; subst h
          have := general_spec H v pfx lp kvs noBase _ gs rs b hg hm
            (fun n r _ _ hr => ih (lp ++ [n]) _ r hr (grp_nodup _ kvs n hnd)
              (by have := grp_prefix lp kvs n hpre; simpa using this))
            [] (by simp) (by simp) (fun _ _ _ _ _ _ => rfl) (fun _ _ _ => rfl)
          simpa using this
    match kvs, h, hnd, hpre, general with
    | [], h, _, _, general => simp only [updateSubtree] at h; exact general r h
    | [kv], h, _, hpre, _ =>
      simp only [updateSubtree] at h
      injection h with h; subst h
      exact single_spec H v lp kv noBase (fun _ _ _ => rfl) (hpre kv (by simp))
    | kv :: kv2 :: rest, h, _, _, general => simp only [updateSubtree] at h; exact general r h


/-! ### `batch_update_subtree_with_existing_leaf` -/

def baseE (ek : Key) (e : Val α) : Key → Option (Val α) := fun k => if ek = k then some e else none

theorem over_congr_base (kvs : List (KV α)) (b1 b2 : Key → Option (Val α)) (k : Key) (h : b1 k = b2 k) :
    over kvs b1 k = over kvs b2 k := by
  unfold over; cases kvs.find? (fun kv => kv.key = k) <;> simp [h]

theorem wel_spec (H : List UInt8 → Hash) (v : Nat) (pfx : Path) (ek : Key) (evh : Hash) (epl : Nat)
    (esub : α) :
    ∀ (fuel : Nat) (lp : Path) (kvs : List (KV α)) (r : R α),
    withExistingLeaf H v pfx ek evh epl esub fuel lp kvs = .ok r → KeysNodup kvs →
    (∀ kv ∈ kvs, lp <+: nibbles kv.key) → lp <+: nibbles ek →
    Rep H lp (over kvs (baseE ek (evh, epl, esub))) r.t := by
  intro fuel
  induction fuel with
  | zero => intro lp kvs r h; simp [withExistingLeaf] at h
  | succ fuel ih =>
    intro lp kvs r h hnd hpre hek
    have general : ∀ r, (match nib ek lp.length with
      | none => .error (.panic "get_nibble out of range (existing leaf)")
      | some bucket =>
        match groups lp.length kvs with
        | .error e => .error e
        | .ok gs =>
          match mapGroups (fun n g =>
              if n = bucket then withExistingLeaf H v pfx ek evh epl esub fuel (lp ++ [n]) g
              else updateSubtree H v pfx fuel (lp ++ [n]) g) gs with
          | .error e => .error e
          | .ok (rs, b) =>
            let isolated := !(gs.any fun g => g.1 == bucket)
            let cs := someChildren rs ++
              (if isolated then [(bucket, Tree.leaf v ek evh epl esub)] else [])
            .ok (finish H v pfx lp cs b)) = Except.ok r →
        Rep H lp (over kvs (baseE ek (evh, epl, esub))) r.t := by
      intro r h
      cases hb : nib ek lp.length with
      | none => rw [hb] at h; cases h
      | some bucket =>
        rw [hb] at h; simp only at h
        have hblt := nib_lt ek _ bucket hb
        cases hg : groups lp.length kvs with
        | error e => rw [hg] at h; cases h
        | ok gs =>
          rw [hg] at h; simp only at h
          generalize hF : (fun n g =>
              if n = bucket then withExistingLeaf H v pfx ek evh epl esub fuel (lp ++ [n]) g
              else updateSubtree H v pfx fuel (lp ++ [n]) g) = F at h
          cases hm : mapGroups F gs with
          | error e => rw [hm] at h; cases h
          | ok p =>
            obtain ⟨rs, b⟩ := p
            rw [hm] at h; simp only at h
            injection h with h; subst h
            have hne : ∀ n k, n ≠ bucket → (lp ++ [n]) <+: nibbles k →
                baseE ek (evh, epl, esub) k = none := by
              intro n k hn hk
              unfold baseE
              have : ek ≠ k := by
                intro e; rw [e, nib_of_prefix lp n k hk] at hb; injection hb with hb; exact hn hb
              simp [this]
            apply general_spec H v pfx lp kvs (baseE ek (evh, epl, esub)) F gs rs b hg hm
            · intro n r hn _ hr
              subst hF
              simp only at hr
              by_cases hnb : n = bucket
              · simp only [hnb, if_true] at hr
                subst hnb
                exact ih _ _ r hr (grp_nodup _ kvs n hnd)
                  (by have := grp_prefix lp kvs n hpre; simpa using this)
                  (prefix_snoc lp n ek hek hb)
              · simp only [hnb, if_false] at hr
                have := upd_spec H v pfx fuel _ _ r hr (grp_nodup _ kvs n hnd)
                  (by have := grp_prefix lp kvs n hpre; simpa using this)
                refine Rep_congr H _ _ _ (fun k hk => ?_) _ this
                apply over_congr_base
                rw [hne n k hnb hk]; rfl
            · intro x hx
              by_cases hiso : (!(gs.any fun g => g.1 == bucket)) = true
              · simp only [hiso, if_true, List.mem_singleton] at hx
                subst hx
                refine ⟨hblt, ?_, rfl, prefix_snoc lp bucket ek hek hb, ?_⟩
                · intro hmem
                  obtain ⟨y, hy, hyb⟩ := List.mem_map.mp hmem
                  simp only [Bool.not_eq_true', List.any_eq_false] at hiso
                  have := hiso y hy
                  simp only at hyb
                  simp [hyb] at this
                · intro k _
                  simp [getT, baseE]
              · simp only [hiso] at hx; simp at hx
            · by_cases hiso : (!(gs.any fun g => g.1 == bucket)) = true
              · simp [hiso]
              · simp [hiso]
            · intro n hn hnex hngs k hk
              by_cases hnb : n = bucket
              · subst hnb
                exfalso
                by_cases hiso : (!(gs.any fun g => g.1 == n)) = true
                · simp [hiso] at hnex
                · simp only [Bool.not_eq_true', Bool.not_eq_false] at hiso
                  simp only [Bool.not_eq_true, Bool.not_eq_false', List.any_eq_true] at hiso
                  obtain ⟨y, hy, hyb⟩ := hiso
                  exact hngs (List.mem_map.mpr ⟨y, hy, by simpa using hyb⟩)
              · exact hne n k hnb hk
            · intro k _ hkn
              unfold baseE
              have : ek ≠ k := by intro e; rw [e, hkn] at hb; cases hb
              simp [this]
    match kvs, h, hnd, hpre, general with
    | [], h, _, _, general => simp only [withExistingLeaf] at h; exact general r h
    | [kv], h, _, hpre, general =>
      simp only [withExistingLeaf] at h
      by_cases hk : kv.key = ek
      · simp only [hk, if_true] at h
        injection h with h; subst h
        refine single_spec H v lp kv _ ?_ (hpre kv (by simp))
        intro k hne _
        unfold baseE
        have : ek ≠ k := by intro e; exact hne (by rw [← e, hk])
        simp [this]
      · simp only [hk, if_false] at h; exact general r h
    | kv :: kv2 :: rest, h, _, _, general => simp only [withExistingLeaf] at h; exact general r h


/-! ### `batch_insert_at` -/

theorem mem_oldIdx (oldC : Nat → Tree α) (i : Nat) :
    i ∈ (List.range 16).filter (fun i => !(oldC i).isNull) ↔ i < 16 ∧ (oldC i).isNull = false := by
  simp [List.mem_filter]

theorem collapse_spec (H : List UInt8 → Hash) (v : Nat) (pfx lp : Path) (S : Key → Option (Val α))
    (newCs : List (Nat × Tree α)) (oldC : Nat → Tree α) (b : Batch)
    (hnd : (newCs.map (·.1)).Nodup) (hlt : ∀ x ∈ newCs, x.1 < 16)
    (hcs : ∀ x ∈ newCs, Rep H (lp ++ [x.1]) S (some x.2))
    (hold : ∀ n, n < 16 → n ∉ newCs.map (·.1) → Rep H (lp ++ [n]) S (toOpt (oldC n)))
    (hbase : ∀ k, lp <+: nibbles k → nib k lp.length = none → S k = none) :
    Rep H lp S (collapse H v pfx lp newCs oldC b).t := by
  have hrep := childFn_rep H lp S newCs oldC hnd hcs hold
  have hnew : ∀ x ∈ newCs, childFn newCs oldC x.1 = x.2 := fun x hx => childFn_mem _ _ x.1 x.2 hnd hx
  have hnewnn : ∀ x ∈ newCs, (childFn newCs oldC x.1).isNull = false := by
    intro x hx; rw [hnew x hx]; exact (hcs x hx).1
  have hrebuild : ((∃ i, i < 16 ∧ (childFn newCs oldC i).isNode = true) ∨
      (∃ i j, i < 16 ∧ j < 16 ∧ i ≠ j ∧ (childFn newCs oldC i).isNull = false ∧
        (childFn newCs oldC j).isNull = false)) →
      Rep H lp S (some (mkInternal H v pfx lp newCs oldC).1) :=
    fun hs => rep_node H lp S _ hrep hbase v hs
  have hnode_of : ∀ t : Tree α, t.isNull = false → t.isLeaf = false → t.isNode = true := by
    intro t h1 h2; cases t <;> simp_all [Tree.isNull, Tree.isLeaf, Tree.isNode]
  -- an old index keeps a non-null child in the merged children
  have hold_nn : ∀ i, i < 16 → (oldC i).isNull = false → (childFn newCs oldC i).isNull = false := by
    intro i hi hn
    by_cases hmem : i ∈ newCs.map (·.1)
    · obtain ⟨x, hx, hxi⟩ := List.mem_map.mp hmem
      rw [← hxi]; exact hnewnn x hx
    · rw [childFn_not_mem _ _ i hmem]; exact hn
  unfold collapse
  simp only []
  generalize hO : (List.range 16).filter (fun i => !(oldC i).isNull) = oldIdx
  have hmemO : ∀ i, i ∈ oldIdx ↔ i < 16 ∧ (oldC i).isNull = false := by
    intro i; rw [← hO]; exact mem_oldIdx oldC i
  have hOnd : oldIdx.Nodup := by rw [← hO]; exact List.Nodup.sublist List.filter_sublist List.nodup_range
  match newCs, oldIdx, hnd, hlt, hcs, hrep, hnew, hnewnn, hrebuild, hold_nn, hmemO, hOnd with
  | [], [], _, _, _, hrep, _, _, _, _, hmemO, _ =>
    simp only []
    refine rep_none H lp S _ hrep hbase ?_
    intro i hi
    rw [childFn_not_mem _ _ i (by simp)]
    cases hn : (oldC i).isNull with
    | true => rfl
    | false => exact absurd ((hmemO i).mpr ⟨hi, hn⟩) (by simp)
  | [(nn, nt)], [on], _, hlt, hcs, hrep, hnew, hnewnn, hrebuild, hold_nn, hmemO, _ =>
    simp only []
    have hnn : nn < 16 := hlt (nn, nt) (by simp)
    have hMn : childFn [(nn, nt)] oldC nn = nt := hnew (nn, nt) (by simp)
    have hntnn : nt.isNull = false := (hcs (nn, nt) (by simp)).1
    have hon := (hmemO on).mp (by simp)
    by_cases hc : (on = nn && nt.isLeaf) = true
    · simp only [hc, if_true]
      simp only [Bool.and_eq_true, decide_eq_true_eq] at hc
      obtain ⟨hon_eq, hl⟩ := hc
      cases ht : nt with
      | null => rw [ht] at hl; simp [Tree.isLeaf] at hl
      | node => rw [ht] at hl; simp [Tree.isLeaf] at hl
      | leaf v' lk vh pl s =>
        refine rep_leaf H lp S _ hrep hbase nn hnn v' v' lk vh pl s (by rw [hMn, ht]) ?_
        intro i hi hin
        rw [childFn_not_mem _ _ i (by simpa using hin)]
        cases hn : (oldC i).isNull with
        | true => rfl
        | false =>
          have := (hmemO i).mpr ⟨hi, hn⟩
          simp only [List.mem_singleton] at this
          exact absurd (this.trans hon_eq) hin
    · simp only [hc]
      apply hrebuild
      by_cases hon_eq : on = nn
      · have hl : nt.isLeaf = false := by
          cases h : nt.isLeaf with
          | false => rfl
          | true => simp [hon_eq, h] at hc
        exact Or.inl ⟨nn, hnn, by rw [hMn]; exact hnode_of nt hntnn hl⟩
      · exact Or.inr ⟨nn, on, hnn, hon.1, fun e => hon_eq e.symm, hnewnn (nn, nt) (by simp),
          hold_nn on hon.1 hon.2⟩
  | [(nn, nt)], [], _, hlt, hcs, hrep, hnew, _, hrebuild, _, hmemO, _ =>
    simp only []
    have hnn : nn < 16 := hlt (nn, nt) (by simp)
    have hMn : childFn [(nn, nt)] oldC nn = nt := hnew (nn, nt) (by simp)
    have hntnn : nt.isNull = false := (hcs (nn, nt) (by simp)).1
    by_cases hl : nt.isLeaf = true
    · simp only [hl, if_true]
      cases ht : nt with
      | null => rw [ht] at hl; simp [Tree.isLeaf] at hl
      | node => rw [ht] at hl; simp [Tree.isLeaf] at hl
      | leaf v' lk vh pl s =>
        refine rep_leaf H lp S _ hrep hbase nn hnn v' v' lk vh pl s (by rw [hMn, ht]) ?_
        intro i hi hin
        rw [childFn_not_mem _ _ i (by simpa using hin)]
        cases hn : (oldC i).isNull with
        | true => rfl
        | false => exact absurd ((hmemO i).mpr ⟨hi, hn⟩) (by simp)
    · simp only [hl]
      apply hrebuild
      exact Or.inl ⟨nn, hnn, by rw [hMn]; exact hnode_of nt hntnn (by simpa using hl)⟩
  | [], [on], _, _, _, hrep, _, _, hrebuild, hold_nn, hmemO, _ =>
    simp only []
    have hon := (hmemO on).mp (by simp)
    have hMo : childFn ([] : List (Nat × Tree α)) oldC on = oldC on := childFn_not_mem _ _ on (by simp)
    by_cases hl : (oldC on).isLeaf = true
    · simp only [hl, if_true]
      cases ht : oldC on with
      | null => rw [ht] at hl; simp [Tree.isLeaf] at hl
      | node => rw [ht] at hl; simp [Tree.isLeaf] at hl
      | leaf v' lk vh pl s =>
        simp only [Tree.setVer]
        refine rep_leaf H lp S _ hrep hbase on hon.1 v' v lk vh pl s (by rw [hMo, ht]) ?_
        intro i hi hin
        rw [childFn_not_mem _ _ i (by simp)]
        cases hn : (oldC i).isNull with
        | true => rfl
        | false =>
          have := (hmemO i).mpr ⟨hi, hn⟩
          simp only [List.mem_singleton] at this
          exact absurd this hin
    · simp only [hl]
      apply hrebuild
      exact Or.inl ⟨on, hon.1, by rw [hMo]; exact hnode_of _ hon.2 (by simpa using hl)⟩
  | [], o1 :: o2 :: orest, _, _, _, _, _, _, hrebuild, hold_nn, hmemO, hOnd =>
    simp only []
    apply hrebuild
    have h1 := (hmemO o1).mp (by simp)
    have h2 := (hmemO o2).mp (by simp)
    have hne : o1 ≠ o2 := by
      simp only [List.nodup_cons, List.mem_cons, not_or] at hOnd; exact hOnd.1.1
    exact Or.inr ⟨o1, o2, h1.1, h2.1, hne, hold_nn o1 h1.1 h1.2, hold_nn o2 h2.1 h2.2⟩
  | [x], o1 :: o2 :: orest, _, _, _, _, _, _, hrebuild, hold_nn, hmemO, hOnd =>
    simp only []
    apply hrebuild
    have h1 := (hmemO o1).mp (by simp)
    have h2 := (hmemO o2).mp (by simp)
    have hne : o1 ≠ o2 := by
      simp only [List.nodup_cons, List.mem_cons, not_or] at hOnd; exact hOnd.1.1
    exact Or.inr ⟨o1, o2, h1.1, h2.1, hne, hold_nn o1 h1.1 h1.2, hold_nn o2 h2.1 h2.2⟩
  | x :: y :: rest, _, hnd, hlt, _, _, _, hnewnn, hrebuild, _, _, _ =>
    simp only []
    apply hrebuild
    have hne : x.1 ≠ y.1 := by
      simp only [List.map_cons, List.nodup_cons, List.mem_cons, not_or] at hnd; exact hnd.1.1
    exact Or.inr ⟨x.1, y.1, hlt x (by simp), hlt y (by simp), hne, hnewnn x (by simp), hnewnn y (by simp)⟩


theorem rep_self (H : List UInt8 → Hash) (lp : Path) (t : Tree α) (hi : Inv H lp t) :
    Rep H lp (fun k => getT t k lp.length) (toOpt t) := by
  unfold toOpt
  cases t with
  | null => simp only [Tree.isNull, if_true]; intro k _; rfl
  | leaf v k vh p s => simp only [Tree.isNull]; exact ⟨rfl, hi, fun _ _ => rfl⟩
  | node v h c => simp only [Tree.isNull]; exact ⟨rfl, hi, fun _ _ => rfl⟩

theorem getT_node_child (v : Nat) (h : Hash) (c : Nat → Tree α) (lp : Path) (n : Nat) (k : Key)
    (hk : (lp ++ [n]) <+: nibbles k) :
    getT (.node v h c) k lp.length = getT (c n) k (lp ++ [n]).length := by
  simp only [getT, nib_of_prefix lp n k hk, List.length_append, List.length_singleton]

theorem ins_spec (H : List UInt8 → Hash) (v : Nat) (pfx : Path) (fuel : Nat) :
    ∀ (t : Tree α) (lp : Path) (kvs : List (KV α)) (r : R α),
    insertAt H v pfx fuel t lp kvs = .ok r → KeysNodup kvs →
    (∀ kv ∈ kvs, lp <+: nibbles kv.key) → Inv H lp t → t.isNull = false →
    Rep H lp (over kvs (fun k => getT t k lp.length)) r.t := by
  intro t
  induction t with
  | null => intro lp kvs r _ _ _ _ hn; simp [Tree.isNull] at hn
  | leaf v' ek evh epl esub =>
    intro lp kvs r h hnd hpre hinv _
    simp only [insertAt] at h
    cases hw : withExistingLeaf H v pfx ek evh epl esub fuel lp kvs with
    | error e => rw [hw] at h; cases h
    | ok r' =>
      rw [hw] at h; simp only at h
      injection h with h; subst h
      exact wel_spec H v pfx ek evh epl esub fuel lp kvs r' hw hnd hpre hinv
  | node v' h' c ih =>
    intro lp kvs r h hnd hpre hinv _
    simp only [insertAt] at h
    cases hg : groups lp.length kvs with
    | error e => rw [hg] at h; cases h
    | ok gs =>
      rw [hg] at h; simp only at h
      generalize hF : (fun n g =>
          if (c n).isNull = true then updateSubtree H v pfx fuel (lp ++ [n]) g
          else insertAt H v pfx fuel (c n) (lp ++ [n]) g) = F at h
      cases hm : mapGroups F gs with
      | error e => rw [hm] at h; cases h
      | ok p =>
        obtain ⟨rs, b0⟩ := p
        rw [hm] at h; simp only at h
        injection h with h; subst h
        obtain ⟨hall, hgs, hgnd, hgmem⟩ := groups_ok _ _ _ hg
        obtain ⟨hfst, hfwd, hbwd⟩ := mapGroups_spec F gs rs b0 hm
        have hsub := someChildren_fst_sublist rs
        rw [hfst] at hsub
        -- specification of the recursive call for the group of nibble `n`
        have hFspec : ∀ n r, n < 16 → F n (grp lp.length kvs n) = .ok r →
            Rep H (lp ++ [n]) (over kvs (fun k => getT (Tree.node v' h' c) k lp.length)) r.t := by
          intro n r hn hr
          subst hF
          simp only at hr
          have hnd' := grp_nodup lp.length kvs n hnd
          have hpre' : ∀ kv ∈ grp lp.length kvs n, (lp ++ [n]) <+: nibbles kv.key := grp_prefix lp kvs n hpre
          by_cases hcn : (c n).isNull = true
          · simp only [hcn, if_true] at hr
            have := upd_spec H v pfx fuel _ _ r hr hnd' hpre'
            refine Rep_congr H _ _ _ (fun k hk => ?_) _ this
            rw [over_grp _ kvs n _ k (nib_of_prefix lp n k hk)]
            apply over_congr_base
            rw [getT_node_child v' h' c lp n k hk]
            cases hc : c n with
            | null => rfl
            | leaf => rw [hc] at hcn; simp [Tree.isNull] at hcn
            | node => rw [hc] at hcn; simp [Tree.isNull] at hcn
          · simp only [hcn] at hr
            have := ih n (lp ++ [n]) _ r hr hnd' hpre' (hinv.2.1 n) (by simpa using hcn)
            refine Rep_congr H _ _ _ (fun k hk => ?_) _ this
            rw [over_grp _ kvs n _ k (nib_of_prefix lp n k hk)]
            apply over_congr_base
            rw [getT_node_child v' h' c lp n k hk]
        apply collapse_spec
        · exact List.Nodup.sublist hsub hgnd
        · intro x hx
          obtain ⟨g, r, hmem, _, _⟩ := hbwd (x.1, some x.2) ((mem_someChildren rs x.1 x.2).mp hx)
          exact (hgs _ hmem).1
        · intro x hx
          obtain ⟨g, r, hmem, hfr, hrt⟩ := hbwd (x.1, some x.2) ((mem_someChildren rs x.1 x.2).mp hx)
          obtain ⟨hlt, hgeq, _⟩ := hgs _ hmem
          simp only at hgeq hfr hrt
          rw [hgeq] at hfr
          have := hFspec x.1 r hlt hfr
          rw [hrt] at this; exact this
        · intro n hn hnot
          by_cases hgn : n ∈ gs.map (·.1)
          · obtain ⟨⟨n', g⟩, hmem, hn'⟩ := List.mem_map.mp hgn
            simp only at hn'; subst hn'
            obtain ⟨r, hfr, hrs⟩ := hfwd _ hmem
            obtain ⟨hlt, hgeq, _⟩ := hgs _ hmem
            simp only at hgeq hfr hrs
            rw [hgeq] at hfr
            have hrep := hFspec n' r hlt hfr
            cases hrt : r.t with
            | some t =>
              rw [hrt] at hrs
              exact absurd (List.mem_map.mpr ⟨(n', t), (mem_someChildren rs n' t).mpr hrs, rfl⟩) hnot
            | none =>
              rw [hrt] at hrs hrep
              have hrem : (rs.any fun r => r.1 == n' && r.2.isNone) = true :=
                List.any_eq_true.mpr ⟨(n', none), hrs, by simp⟩
              simp only [hrem, if_true, toOpt, Tree.isNull]
              exact hrep
          · have hrem : (rs.any fun r => r.1 == n && r.2.isNone) = false := by
              rw [List.any_eq_false]
              intro y hy
              have : y.1 ∈ gs.map (·.1) := by rw [← hfst]; exact List.mem_map.mpr ⟨y, hy, rfl⟩
              have hne : y.1 ≠ n := fun e => hgn (e ▸ this)
              simp [hne]
            simp only [hrem, Bool.false_eq_true, if_false]
            have hself := rep_self H (lp ++ [n]) (c n) (hinv.2.1 n)
            refine Rep_congr H _ _ _ (fun k hk => ?_) _ hself
            have hkn := nib_of_prefix lp n k hk
            have hgnil : grp lp.length kvs n = [] := by
              by_cases hgn' : grp lp.length kvs n = []
              · exact hgn'
              · exact absurd (List.mem_map.mpr ⟨_, hgmem n hn hgn', rfl⟩) hgn
            unfold over
            rw [find_none_of_grp_nil _ _ n k hkn hgnil]
            exact (getT_node_child v' h' c lp n k hk).symm
        · intro k hk hkn
          unfold over
          rw [find_none_of_nib_none _ kvs k hall hkn]
          simp only [getT, hkn]

end Radix.Jmt
