/-
Helper lemmas about the fixed-width integer layer of Model/Decimal.lean
(`chk`, `iDiv`, `narrow`, `bitLen`, ranges). Used by Props/C24, Props/C25 (and C26/C27).
-/
import RadixModel.Model.Decimal
import Mathlib.Tactic.Linarith
import Mathlib.Tactic.Ring
import Mathlib.Tactic.NormNum
import Mathlib.Tactic.Positivity

namespace Radix.Dec

theorem half_pos (bits : Nat) : 0 < half bits := by unfold half; positivity

theorem half_mono {a b : Nat} (h : a ≤ b) : half a ≤ half b := by
  unfold half
  exact pow_le_pow_right₀ (by norm_num) (by omega)

theorem chk_eq_some {bits : Nat} {x r : Int} : chk bits x = some r ↔ InBits bits x ∧ r = x := by
  unfold chk; split <;> simp_all [eq_comm]

theorem chk_eq_none {bits : Nat} {x : Int} : chk bits x = none ↔ ¬ InBits bits x := by
  unfold chk; split <;> simp_all

theorem chk_of_inBits {bits : Nat} {x : Int} (h : InBits bits x) : chk bits x = some x := by
  unfold chk; simp [h]

theorem bitLen_ge_iff (n t : Nat) (ht : 0 < t) : t ≤ bitLen n ↔ 2 ^ (t - 1) ≤ n := by
  unfold bitLen
  by_cases hn : n = 0
  · subst hn
    simp only [if_true]
    constructor
    · intro h; omega
    · intro h; have : 0 < 2 ^ (t - 1) := by positivity
      omega
  · simp only [hn, if_false]
    rw [← Nat.le_log2 hn]; omega

/-- The narrowing conversion of convert.rs (signed source): succeeds exactly on the values whose
magnitude is below `2^(toB-1)` — the target minimum `-2^(toB-1)` is *rejected*. -/
theorem narrow_signed_spec (f t : Nat) (ht : 0 < t) (hft : t ≤ f) (v : Int) (hv : InBits f v) :
    narrow true f t v = if minOf t < v ∧ v ≤ maxOf t then some v else none := by
  have hmono : half t ≤ half f := half_mono hft
  have hpt := half_pos t
  have e1 : minOf t = -half t := rfl
  have e2 : maxOf t = half t - 1 := rfl
  have e3 : minOf f = -half f := rfl
  have e4 : maxOf f = half f - 1 := rfl
  obtain ⟨hv1, hv2⟩ := hv
  have hcast : ((2 ^ (t - 1) : Nat) : Int) = half t := by unfold half; push_cast; rfl
  have hft' : (0 : Int) ≤ (f : Int) - (t : Int) := by omega
  unfold narrow
  simp only [Bool.true_and]
  by_cases hneg : v < 0
  · by_cases hmin : v = minOf f
    · -- source minimum: bit pattern 100…0, zero leading zeros
      have hn : (decide (v < 0) && decide (v ≠ minOf f)) = false := by simp [hmin]
      rw [hn]
      simp only [Bool.false_eq_true, if_false]
      rw [if_pos hneg, if_pos hft', if_neg (by omega)]
    · have hn : (decide (v < 0) && decide (v ≠ minOf f)) = true := by simp [hmin, hneg]
      rw [hn]
      simp only [if_true]
      have hpos : ¬ (0 - v < 0) := by omega
      rw [if_neg hpos]
      have hb := bitLen_ge_iff (0 - v).toNat t ht
      have hto : (((0 - v).toNat : Nat) : Int) = -v := by rw [Int.toNat_of_nonneg (by omega)]; ring
      by_cases hbig : half t ≤ -v
      · have : t ≤ bitLen (0 - v).toNat := by rw [hb]; omega
        rw [if_pos (by omega), if_neg (by omega)]
      · have : ¬ t ≤ bitLen (0 - v).toNat := by rw [hb]; omega
        rw [if_neg (by omega), if_pos (by omega)]
        have : (0 - v) * (0 - 1) = v := by ring
        rw [this]
        exact chk_of_inBits ⟨by omega, by omega⟩
  · have hn : (decide (v < 0) && decide (v ≠ minOf f)) = false := by simp [hneg]
    rw [hn]
    simp only [Bool.false_eq_true, if_false]
    rw [if_neg hneg]
    have hb := bitLen_ge_iff v.toNat t ht
    have hto : ((v.toNat : Nat) : Int) = v := Int.toNat_of_nonneg (by omega)
    by_cases hbig : half t ≤ v
    · have : t ≤ bitLen v.toNat := by rw [hb]; omega
      rw [if_pos (by omega), if_neg (by omega)]
    · have : ¬ t ≤ bitLen v.toNat := by rw [hb]; omega
      rw [if_neg (by omega), if_pos (by omega), Int.mul_one]
      exact chk_of_inBits ⟨by omega, by omega⟩

/-! ## Truncating division -/

/-- `Int.tdiv` by a positive divisor is the quotient truncated toward zero (integer form). -/
theorem tdiv_bounds (n d : Int) (hd : 0 < d) :
    (0 ≤ n → Int.tdiv n d * d ≤ n ∧ n < Int.tdiv n d * d + d ∧ 0 ≤ Int.tdiv n d) ∧
    (n ≤ 0 → n ≤ Int.tdiv n d * d ∧ Int.tdiv n d * d - d < n ∧ Int.tdiv n d ≤ 0) := by
  have h := Int.tmod_add_tdiv_mul n d
  constructor
  · intro hn
    have h1 := Int.tmod_nonneg d hn
    have h2 := Int.tmod_lt_of_pos n hd
    have h3 := Int.tdiv_nonneg hn (Int.le_of_lt hd)
    omega
  · intro hn
    have h1 : Int.tmod n d ≤ 0 := by
      have := Int.tmod_nonneg d (by omega : 0 ≤ -n)
      rw [Int.neg_tmod] at this; omega
    have h2 := Int.lt_tmod_of_pos n hd
    have h3 : Int.tdiv n d ≤ 0 := by
      have := Int.tdiv_nonneg (by omega : 0 ≤ -n) (Int.le_of_lt hd)
      rw [Int.neg_tdiv] at this; omega
    omega

theorem abs_tdiv_le (a b : Int) : -|a| ≤ Int.tdiv a b ∧ Int.tdiv a b ≤ |a| := by
  have h := Int.natAbs_tdiv_le_natAbs a b
  have h1 : ((Int.tdiv a b).natAbs : Int) ≤ (a.natAbs : Int) := by exact_mod_cast h
  rw [Int.natCast_natAbs, Int.natCast_natAbs] at h1
  exact abs_le.mp h1

/-! ## Concrete widths -/

theorem half_192 : half 192 = 3138550867693340381917894711603833208051177722232017256448 := by
  norm_num [half]
theorem half_256 : half 256 = 57896044618658097711785492504343953926634992332820282019728792003956564819968 := by
  norm_num [half]
set_option exponentiation.threshold 512 in
theorem half_384 : half 384 = 19701003098197239606139520050071806902539869635232723333974146702122860885748605305707133127442457820403313995153408 := by
  norm_num [half]
theorem one_dec : Ty.one .dec = 1000000000000000000 := by norm_num [Ty.one, Ty.scale]
theorem one_pdec : Ty.one .pdec = 1000000000000000000000000000000000000 := by norm_num [Ty.one, Ty.scale]

theorem one_pos (t : Ty) : 0 < t.one := by unfold Ty.one; positivity

/-- What `checked_mul` computes: the exact product truncated toward zero, unless it falls outside
`(MIN, MAX]` (note: `MIN` itself is lost in the narrowing conversion). Overflow of the wide
intermediate implies the final result is out of range. -/
theorem checkedMul_eq (t : Ty) {a b : Int} (ha : t.InRange a) (hb : t.InRange b) :
    checkedMul t a b =
      if t.min < Int.tdiv (a * b) t.one ∧ Int.tdiv (a * b) t.one ≤ t.max
      then some (Int.tdiv (a * b) t.one) else none := by
  unfold checkedMul
  generalize hn : a * b = n
  have hbd := tdiv_bounds n t.one (one_pos t)
  have habs := abs_tdiv_le n t.one
  by_cases hw : InBits t.wide n
  · rw [chk_of_inBits hw]
    simp only
    unfold iDiv
    rw [if_neg (ne_of_gt (one_pos t))]
    have hq : InBits t.wide (Int.tdiv n t.one) := by
      unfold InBits minOf maxOf at hw ⊢
      have := half_pos t.wide
      rcases abs_cases n with ⟨h1, _⟩ | ⟨h1, _⟩ <;> omega
    rw [chk_of_inBits hq]
    simp only
    cases t
    · exact narrow_signed_spec 256 192 (by norm_num) (by norm_num) _ hq
    · exact narrow_signed_spec 384 256 (by norm_num) (by norm_num) _ hq
  · rw [chk_eq_none.mpr hw]
    simp only
    rw [if_neg]
    intro hc
    apply hw
    -- the product is at least `2^(wide-1)` in magnitude, so its quotient by ONE is out of range
    cases t
    · simp only [Ty.min, Ty.max, Ty.bits, Ty.wide, minOf, maxOf, InBits, half_192, half_256, one_dec] at *
      by_cases h0 : 0 ≤ n
      · have := hbd.1 h0; omega
      · have := hbd.2 (by omega); omega
    · simp only [Ty.min, Ty.max, Ty.bits, Ty.wide, minOf, maxOf, InBits, half_256, half_384, one_pdec] at *
      by_cases h0 : 0 ≤ n
      · have := hbd.1 h0; omega
      · have := hbd.2 (by omega); omega

/-- What `checked_div` computes: `None` for a zero divisor, otherwise the exact quotient truncated
toward zero unless it falls outside `(MIN, MAX]`. The wide intermediate `a * ONE` never overflows. -/
theorem checkedDiv_eq (t : Ty) {a b : Int} (ha : t.InRange a) (hb : t.InRange b) :
    checkedDiv t a b =
      if b = 0 then none
      else if t.min < Int.tdiv (a * t.one) b ∧ Int.tdiv (a * t.one) b ≤ t.max
      then some (Int.tdiv (a * t.one) b) else none := by
  unfold checkedDiv
  have habs := abs_tdiv_le (a * t.one) b
  have hw : InBits t.wide (a * t.one) ∧ InBits t.wide (Int.tdiv (a * t.one) b) := by
    cases t
    · simp only [Ty.InRange, Ty.bits, Ty.wide, minOf, maxOf, InBits, half_192, half_256, one_dec] at *
      rcases abs_cases (a * 1000000000000000000) with ⟨h1, _⟩ | ⟨h1, _⟩ <;> omega
    · simp only [Ty.InRange, Ty.bits, Ty.wide, minOf, maxOf, InBits, half_256, half_384, one_pdec] at *
      rcases abs_cases (a * 1000000000000000000000000000000000000) with ⟨h1, _⟩ | ⟨h1, _⟩ <;> omega
  obtain ⟨hw, hq⟩ := hw
  rw [chk_of_inBits hw]
  simp only
  unfold iDiv
  by_cases hb0 : b = 0
  · simp [hb0]
  · rw [if_neg hb0, if_neg hb0]
    rw [chk_of_inBits hq]
    simp only
    cases t
    · exact narrow_signed_spec 256 192 (by norm_num) (by norm_num) _ hq
    · exact narrow_signed_spec 384 256 (by norm_num) (by norm_num) _ hq

end Radix.Dec
