/-
Line-protocol helpers shared by all model drivers (core Lean only: the drivers are
compiled `lean_exe`s and must not import Mathlib).
-/
namespace Radix.Proto

def words (line : String) : List String :=
  (line.trimAscii.toString.splitOn " ").filter (· ≠ "")

def hexDigit (c : Char) : Option Nat :=
  if '0' ≤ c ∧ c ≤ '9' then some (c.toNat - '0'.toNat)
  else if 'a' ≤ c ∧ c ≤ 'f' then some (c.toNat - 'a'.toNat + 10)
  else if 'A' ≤ c ∧ c ≤ 'F' then some (c.toNat - 'A'.toNat + 10)
  else none

def unhexAux : List Char → List UInt8 → Option (List UInt8)
  | [], acc => some acc.reverse
  | [_], _ => none
  | a :: b :: rest, acc =>
    match hexDigit a, hexDigit b with
    | some x, some y => unhexAux rest (UInt8.ofNat (x * 16 + y) :: acc)
    | _, _ => none

/-- `-` is the empty byte string. -/
def unhex (s : String) : Option (List UInt8) :=
  if s = "-" then some [] else unhexAux s.toList []

def hexNibble (n : Nat) : Char :=
  if n < 10 then Char.ofNat ('0'.toNat + n) else Char.ofNat ('a'.toNat + n - 10)

def hex (bs : List UInt8) : String :=
  if bs.isEmpty then "-" else
  String.ofList (bs.foldr (fun b acc => hexNibble (b.toNat / 16) :: hexNibble (b.toNat % 16) :: acc) [])

def showBool (b : Bool) : String := if b then "true" else "false"

/-- Generic driver loop: one request line in, one answer line out. -/
partial def loop {σ : Type} (h : IO.FS.Stream) (out : IO.FS.Stream) (step : σ → String → σ × String) (s : σ) : IO Unit := do
  let line ← h.getLine
  if line.isEmpty then return ()
  if line.trimAscii.toString.isEmpty then
    loop h out step s
  else
    let (s', o) := step s line
    out.putStrLn o
    loop h out step s'

def run {σ : Type} (step : σ → String → σ × String) (init : σ) : IO Unit := do
  let stdin ← IO.getStdin
  let stdout ← IO.getStdout
  loop stdin stdout step init
  stdout.flush

end Radix.Proto
