/-
Executable BLAKE2b-256 (RFC 7693, unkeyed, 32-byte digest) — core Lean only, `UInt64` arithmetic.

Used ONLY by the model drivers (correspondence runs); every theorem of the project takes the hash
as an uninterpreted parameter `H : List UInt8 → List UInt8`.  The function is validated on every
`./check C17` run against `radix_common::crypto::hash` (area `c17h`: random messages including the
empty one, lengths around the 128-byte block boundary and multi-block messages).

All array indices below are literals `< 16` into arrays of size 16 (or `< 8` into size 8); `[i]!`
never falls back to a default.
-/
namespace Radix.Blake2b

def iv : Array UInt64 := #[
  0x6a09e667f3bcc908, 0xbb67ae8584caa73b, 0x3c6ef372fe94f82b, 0xa54ff53a5f1d36f1,
  0x510e527fade682d1, 0x9b05688c2b3e6c1f, 0x1f83d9abfb41bd6b, 0x5be0cd19137e2179]

def sigma : Array (Array Nat) := #[
  #[0, 1, 2, 3, 4, 5, 6, 7, 8, 9, 10, 11, 12, 13, 14, 15],
  #[14, 10, 4, 8, 9, 15, 13, 6, 1, 12, 0, 2, 11, 7, 5, 3],
  #[11, 8, 12, 0, 5, 2, 15, 13, 10, 14, 3, 6, 7, 1, 9, 4],
  #[7, 9, 3, 1, 13, 12, 11, 14, 2, 6, 5, 10, 4, 0, 15, 8],
  #[9, 0, 5, 7, 2, 4, 10, 15, 14, 1, 11, 12, 6, 8, 3, 13],
  #[2, 12, 6, 10, 0, 11, 8, 3, 4, 13, 7, 5, 15, 14, 1, 9],
  #[12, 5, 1, 15, 14, 13, 4, 10, 0, 7, 6, 3, 9, 2, 8, 11],
  #[13, 11, 7, 14, 12, 1, 3, 9, 5, 0, 15, 4, 8, 6, 2, 10],
  #[6, 15, 14, 9, 11, 3, 0, 8, 12, 2, 13, 7, 1, 4, 10, 5],
  #[10, 2, 8, 4, 7, 6, 1, 5, 15, 11, 9, 14, 3, 12, 13, 0],
  #[0, 1, 2, 3, 4, 5, 6, 7, 8, 9, 10, 11, 12, 13, 14, 15],
  #[14, 10, 4, 8, 9, 15, 13, 6, 1, 12, 0, 2, 11, 7, 5, 3]]

@[inline] def rotr (x : UInt64) (n : UInt64) : UInt64 := (x >>> n) ||| (x <<< (64 - n))

/-- The mixing function G on the work vector. -/
def g (v : Array UInt64) (a b c d : Nat) (x y : UInt64) : Array UInt64 :=
  let va := v[a]! + v[b]! + x
  let vd := rotr (v[d]! ^^^ va) 32
  let vc := v[c]! + vd
  let vb := rotr (v[b]! ^^^ vc) 24
  let va := va + vb + y
  let vd := rotr (vd ^^^ va) 16
  let vc := vc + vd
  let vb := rotr (vb ^^^ vc) 63
  (((v.set! a va).set! b vb).set! c vc).set! d vd

def round (m : Array UInt64) (v : Array UInt64) (r : Nat) : Array UInt64 :=
  let s := sigma[r]!
  let v := g v 0 4 8 12 m[s[0]!]! m[s[1]!]!
  let v := g v 1 5 9 13 m[s[2]!]! m[s[3]!]!
  let v := g v 2 6 10 14 m[s[4]!]! m[s[5]!]!
  let v := g v 3 7 11 15 m[s[6]!]! m[s[7]!]!
  let v := g v 0 5 10 15 m[s[8]!]! m[s[9]!]!
  let v := g v 1 6 11 12 m[s[10]!]! m[s[11]!]!
  let v := g v 2 7 8 13 m[s[12]!]! m[s[13]!]!
  let v := g v 3 4 9 14 m[s[14]!]! m[s[15]!]!
  v

/-- little-endian 64-bit word from (up to) 8 bytes; missing bytes are zero padding. -/
def leWord : List UInt8 → UInt64
  | [] => 0
  | b :: rest => b.toUInt64 ||| (leWord rest <<< 8)

/-- 16 message words of a block (the block is zero-padded to 128 bytes). -/
def wordsOf (block : List UInt8) : Array UInt64 :=
  (List.range 16).foldl (fun acc i => acc.push (leWord ((block.drop (8 * i)).take 8))) #[]

/-- Compression function F: `t` = number of message bytes so far (low 64 bits; the high counter word
is 0 for messages < 2^64 bytes), `last` = final-block flag. -/
def compress (h : Array UInt64) (block : List UInt8) (t : UInt64) (last : Bool) : Array UInt64 :=
  let m := wordsOf block
  let v := h ++ iv
  let v := v.set! 12 (v[12]! ^^^ t)
  let v := if last then v.set! 14 (v[14]! ^^^ 0xFFFFFFFFFFFFFFFF) else v
  let v := (List.range 12).foldl (round m) v
  (List.range 8).foldl (fun acc i => acc.push (h[i]! ^^^ v[i]! ^^^ v[i + 8]!)) #[]

/-- Process all blocks; `fuel` bounds the number of blocks (`msg.length / 128 + 1` suffices). -/
def blocks : Nat → Array UInt64 → List UInt8 → UInt64 → Array UInt64
  | 0, h, _, _ => h
  | fuel + 1, h, msg, t =>
    if msg.length ≤ 128 then
      compress h msg (t + msg.length.toUInt64) true
    else
      blocks fuel (compress h (msg.take 128) (t + 128) false) (msg.drop 128) (t + 128)

def leBytes (w : UInt64) : List UInt8 :=
  (List.range 8).map (fun i => (w >>> (8 * i).toUInt64).toUInt8)

/-- BLAKE2b with a 32-byte digest and no key. -/
def blake2b256 (msg : List UInt8) : List UInt8 :=
  let h0 := iv.set! 0 (iv[0]! ^^^ 0x01010020)
  let h := blocks (msg.length / 128 + 1) h0 msg 0
  (leBytes h[0]!) ++ (leBytes h[1]!) ++ (leBytes h[2]!) ++ (leBytes h[3]!)

end Radix.Blake2b
