-- Root of the `RadixModel` library: models, lemmas and property theorems.
import RadixModel.Util.Proto
import RadixModel.Model.Locks
