use std::io::{BufRead, Write};

/// SplitMix64: every random choice of the harness derives from one state.
#[derive(Clone)]
pub struct Rng(pub u64);

impl Rng {
    pub fn new(seed: u64) -> Self {
        Rng(seed ^ 0x9E37_79B9_7F4A_7C15)
    }
    pub fn next(&mut self) -> u64 {
        self.0 = self.0.wrapping_add(0x9E37_79B9_7F4A_7C15);
        let mut z = self.0;
        z = (z ^ (z >> 30)).wrapping_mul(0xBF58_476D_1CE4_E5B9);
        z = (z ^ (z >> 27)).wrapping_mul(0x94D0_49BB_1331_11EB);
        z ^ (z >> 31)
    }
    /// uniform in 0..n (n > 0)
    pub fn below(&mut self, n: u64) -> u64 {
        self.next() % n
    }
    pub fn range(&mut self, lo: i64, hi: i64) -> i64 {
        lo + (self.below((hi - lo + 1) as u64) as i64)
    }
    pub fn chance(&mut self, num: u64, den: u64) -> bool {
        self.below(den) < num
    }
    pub fn pick<'a, T>(&mut self, xs: &'a [T]) -> &'a T {
        &xs[self.below(xs.len() as u64) as usize]
    }
    pub fn bytes(&mut self, n: usize) -> Vec<u8> {
        (0..n).map(|_| self.next() as u8).collect()
    }
    pub fn fork(&mut self) -> Rng {
        Rng(self.next())
    }
}

pub fn hex(b: &[u8]) -> String {
    if b.is_empty() {
        "-".to_string()
    } else {
        hex::encode(b)
    }
}

pub fn unhex(s: &str) -> Option<Vec<u8>> {
    if s == "-" {
        Some(vec![])
    } else {
        hex::decode(s).ok()
    }
}

/// An area of the harness: a generator of op lines and a runner that answers each line
/// from the real implementation plus a property-oracle verdict.
pub trait Area {
    /// Write `n` cases (one or more op lines each) to `out`. Tier: "quick" | "thorough".
    fn gen(&self, rng: &mut Rng, n: usize, out: &mut dyn Write);
    /// Fresh runner (state lives for the whole stream; the op `reset` starts a new case).
    fn runner(&self) -> Box<dyn Runner>;
    /// Constants/tables as the compiled tree sees them: (name, value) pairs for the translator.
    fn consts(&self) -> Vec<(String, String)> {
        vec![]
    }
}

pub struct Answer {
    /// canonicalised implementation answer, compared with the Lean model's answer
    pub ans: String,
    /// None = property oracle satisfied; Some((key, description)) = property fails on the implementation
    pub fail: Option<(String, String)>,
}

impl Answer {
    pub fn ok(ans: impl Into<String>) -> Answer {
        Answer { ans: ans.into(), fail: None }
    }
    pub fn fail(ans: impl Into<String>, key: impl Into<String>, desc: impl Into<String>) -> Answer {
        Answer { ans: ans.into(), fail: Some((key.into(), desc.into())) }
    }
}

pub trait Runner {
    fn step(&mut self, line: &str) -> Answer;
}

pub fn run_stream(runner: &mut dyn Runner, input: &mut dyn BufRead, out: &mut dyn Write) {
    let mut line = String::new();
    loop {
        line.clear();
        let n = input.read_line(&mut line).unwrap();
        if n == 0 {
            break;
        }
        let l = line.trim_end_matches(['\n', '\r']);
        if l.is_empty() {
            continue;
        }
        let a = runner.step(l);
        match a.fail {
            None => writeln!(out, "{}\tok", a.ans).unwrap(),
            Some((k, d)) => writeln!(out, "{}\tFAIL\t{}\t{}", a.ans, k, d.replace(['\n', '\t'], " ")).unwrap(),
        }
    }
}

/// Run `f` catching panics; returns Err(message) on panic.
pub fn catch<T>(f: impl FnOnce() -> T) -> Result<T, String> {
    let r = std::panic::catch_unwind(std::panic::AssertUnwindSafe(f));
    match r {
        Ok(v) => Ok(v),
        Err(e) => {
            let msg = if let Some(s) = e.downcast_ref::<&str>() {
                s.to_string()
            } else if let Some(s) = e.downcast_ref::<String>() {
                s.clone()
            } else {
                "panic".to_string()
            };
            Err(msg)
        }
    }
}

/// Entry point shared by all area binaries: `<bin> <area> gen --seed S --n N [--tier T] | run | consts`.
pub fn main_with(areas: &[(&str, &dyn Area)]) {
    let args: Vec<String> = std::env::args().collect();
    if args.len() < 3 {
        eprintln!("usage: {} <area> gen --seed S --n N | run | consts   (areas: {:?})", args[0], areas.iter().map(|a| a.0).collect::<Vec<_>>());
        std::process::exit(2);
    }
    // silence panic messages from catch_unwind'ed implementation calls
    if std::env::var("VERIF_PANIC_VERBOSE").is_err() {
        std::panic::set_hook(Box::new(|_| {}));
    }
    let area = match areas.iter().find(|a| a.0 == args[1]) {
        Some(a) => a.1,
        None => {
            eprintln!("unknown area {}", args[1]);
            std::process::exit(2);
        }
    };
    let mut seed = 1u64;
    let mut n = 100usize;
    let mut i = 3;
    while i + 1 < args.len() {
        match args[i].as_str() {
            "--seed" => seed = args[i + 1].parse().unwrap(),
            "--n" => n = args[i + 1].parse().unwrap(),
            "--tier" => std::env::set_var("VERIF_TIER", &args[i + 1]),
            _ => {}
        }
        i += 2;
    }
    let stdout = std::io::stdout();
    let mut out = std::io::BufWriter::new(stdout.lock());
    match args[2].as_str() {
        "gen" => {
            let mut rng = Rng::new(seed);
            area.gen(&mut rng, n, &mut out);
        }
        "run" => {
            let stdin = std::io::stdin();
            let mut inp = stdin.lock();
            let mut r = area.runner();
            run_stream(r.as_mut(), &mut inp, &mut out);
        }
        "consts" => {
            for (k, v) in area.consts() {
                writeln!(out, "{}\t{}", k, v).unwrap();
            }
        }
        _ => {
            eprintln!("unknown command");
            std::process::exit(2);
        }
    }
    out.flush().unwrap();
}
