//! C09 — resources cannot vanish or be duplicated inside a transaction (engine-level; see c09c10_common.rs).
#[path = "../c09c10_common.rs"]
mod common;
use common::*;
use harness::util::*;
use std::io::Write;

pub fn oracle(which: &str, ops: &[Op], out: &Outcome) -> Option<(String, String)> {
    oracle_for(which, ops, out)
}

pub struct A;

impl Area for A {
    fn gen(&self, rng: &mut Rng, n: usize, out: &mut dyn Write) {
        gen_cases("c09", rng, n, out);
    }
    fn runner(&self) -> Box<dyn Runner> {
        Box::new(R::new("c09"))
    }
}

fn main() {
    main_with(&[("c09", &A)]);
}
