//! C20 / C21 — SBOR value codec and streaming traverser.
//! Areas: `c20` (encode/decode round trips, unique encoding, wire format) and `c21`
//! (decoder / traverser / encoder agreement, depth limits, panics, allocation).
//! Text form of values: see /verif/lean/Driver/SborIO.lean.
use harness::util::*;
use radix_common::data::manifest::model::*;
use radix_common::data::manifest::*;
use radix_common::data::scrypto::model::*;
use radix_common::data::scrypto::*;
use radix_common::types::{EntityType, NodeId};
use sbor::traversal::*;
use sbor::*;
use std::alloc::{GlobalAlloc, Layout, System};
use std::io::Write;
use std::sync::atomic::{AtomicUsize, Ordering};

// ---------------------------------------------------------------------------------------------
// counting allocator (peak live bytes during one call) — for the C21 allocation bound
struct Counting;
static CUR: AtomicUsize = AtomicUsize::new(0);
static PEAK: AtomicUsize = AtomicUsize::new(0);
unsafe impl GlobalAlloc for Counting {
    unsafe fn alloc(&self, l: Layout) -> *mut u8 {
        let p = System.alloc(l);
        if !p.is_null() {
            let c = CUR.fetch_add(l.size(), Ordering::Relaxed) + l.size();
            PEAK.fetch_max(c, Ordering::Relaxed);
        }
        p
    }
    unsafe fn dealloc(&self, p: *mut u8, l: Layout) {
        CUR.fetch_sub(l.size(), Ordering::Relaxed);
        System.dealloc(p, l)
    }
    unsafe fn realloc(&self, p: *mut u8, l: Layout, new_size: usize) -> *mut u8 {
        let q = System.realloc(p, l, new_size);
        if !q.is_null() {
            if new_size >= l.size() {
                let c = CUR.fetch_add(new_size - l.size(), Ordering::Relaxed) + (new_size - l.size());
                PEAK.fetch_max(c, Ordering::Relaxed);
            } else {
                CUR.fetch_sub(l.size() - new_size, Ordering::Relaxed);
            }
        }
        q
    }
}
#[global_allocator]
static ALLOC: Counting = Counting;

/// runs `f`, returns its result and the peak number of bytes live *above* the level at entry
fn measured<T>(f: impl FnOnce() -> T) -> (T, usize) {
    let base = CUR.load(Ordering::Relaxed);
    PEAK.store(base, Ordering::Relaxed);
    let r = f();
    let peak = PEAK.load(Ordering::Relaxed);
    (r, peak.saturating_sub(base))
}

// ---------------------------------------------------------------------------------------------
// tokens
struct Toks<'a> {
    v: Vec<&'a str>,
    i: usize,
}
impl<'a> Toks<'a> {
    fn next(&mut self) -> Option<&'a str> {
        let r = self.v.get(self.i).copied();
        if r.is_some() {
            self.i += 1;
        }
        r
    }
    fn done(&self) -> bool {
        self.i == self.v.len()
    }
}

fn parse_nat<T: std::str::FromStr>(s: &str) -> Option<T> {
    // decimal digits only (no sign, no '+'), as the Lean driver's `String.toNat?`
    if s.is_empty() || !s.bytes().all(|b| b.is_ascii_digit()) {
        return None;
    }
    s.parse::<T>().ok()
}

fn arr<const N: usize>(b: &[u8]) -> Option<[u8; N]> {
    <[u8; N]>::try_from(b).ok()
}



// ---------------------------------------------------------------------------------------------
// flavours
trait Flav {
    type X: CustomValueKind + 'static;
    type Y: CustomValue<Self::X> + Clone + PartialEq;
    type T: CustomTraversal<CustomValueKind = Self::X>;
    const PREFIX: u8;
    const DEFAULT_DEPTH: usize;
    fn kind_names() -> &'static [&'static str];
    fn parse_kind(s: &str) -> Option<Self::X>;
    fn show_kind(x: &Self::X) -> String;
    fn parse_custom(head: &str, t: &mut Toks) -> Option<Self::Y>;
    fn show_custom(y: &Self::Y, out: &mut Vec<String>);
    fn show_custom_ref(r: &<Self::T as CustomTraversal>::CustomTerminalValueRef<'_>, out: &mut Vec<String>);
    fn encode(v: &Value<Self::X, Self::Y>, d: usize) -> Result<Vec<u8>, EncodeError>;
    fn decode(bs: &[u8], d: usize) -> Result<Value<Self::X, Self::Y>, DecodeError>;
    /// content validity of a custom value as the *decoder* enforces it (independent statement)
    fn custom_content_valid(y: &Self::Y) -> bool;
    /// wire format of a custom value body of kind byte `k` at `bs[*pos..]` (reference recogniser)
    fn wire_custom(k: u8, bs: &[u8], pos: &mut usize) -> bool;
    fn is_custom_kind(k: u8) -> bool;
}

type V<F> = Value<<F as Flav>::X, <F as Flav>::Y>;
type VKd<F> = ValueKind<<F as Flav>::X>;

struct Basic;
struct Scrypto;
struct Manifest;

impl Flav for Basic {
    type X = NoCustomValueKind;
    type Y = NoCustomValue;
    type T = NoCustomTraversal;
    const PREFIX: u8 = BASIC_SBOR_V1_PAYLOAD_PREFIX;
    const DEFAULT_DEPTH: usize = BASIC_SBOR_V1_MAX_DEPTH;
    fn kind_names() -> &'static [&'static str] {
        &[]
    }
    fn parse_kind(_: &str) -> Option<Self::X> {
        None
    }
    fn show_kind(x: &Self::X) -> String {
        match *x {}
    }
    fn parse_custom(_: &str, _: &mut Toks) -> Option<Self::Y> {
        None
    }
    fn show_custom(y: &Self::Y, _: &mut Vec<String>) {
        match *y {}
    }
    fn show_custom_ref(r: &NoCustomTerminalValueRef, _: &mut Vec<String>) {
        match *r {}
    }
    fn encode(v: &V<Self>, d: usize) -> Result<Vec<u8>, EncodeError> {
        let mut buf = Vec::new();
        VecEncoder::<Self::X>::new(&mut buf, d).encode_payload(v, Self::PREFIX)?;
        Ok(buf)
    }
    fn decode(bs: &[u8], d: usize) -> Result<V<Self>, DecodeError> {
        VecDecoder::<Self::X>::new(bs, d).decode_payload(Self::PREFIX)
    }
    fn custom_content_valid(_: &Self::Y) -> bool {
        true
    }
    fn wire_custom(_: u8, _: &[u8], _: &mut usize) -> bool {
        false
    }
    fn is_custom_kind(_: u8) -> bool {
        false
    }
}

fn nf_chars_ok(s: &[u8]) -> bool {
    s.iter().all(|b| b.is_ascii_alphanumeric() || *b == b'_')
}

/// wire format of a non-fungible local id body (reference recogniser, written from the format description)
fn wire_nf(bs: &[u8], pos: &mut usize, max_len: usize) -> bool {
    let Some(&d) = bs.get(*pos) else { return false };
    *pos += 1;
    match d {
        0 | 2 => {
            let Some(n) = wire_size(bs, pos) else { return false };
            if n == 0 || n > max_len || bs.len() - *pos < n {
                return false;
            }
            let s = &bs[*pos..*pos + n];
            *pos += n;
            d == 2 || nf_chars_ok(s)
        }
        1 => take(bs, pos, 8),
        3 => take(bs, pos, 32),
        _ => false,
    }
}

fn take(bs: &[u8], pos: &mut usize, n: usize) -> bool {
    if bs.len() - *pos < n {
        return false;
    }
    *pos += n;
    true
}

/// canonical LEB128 size: 1..=4 bytes, continuation bit on all but the last, last byte non-zero
/// unless it is the only byte
fn wire_size(bs: &[u8], pos: &mut usize) -> Option<usize> {
    let mut v = 0usize;
    for i in 0..4 {
        let b = *bs.get(*pos)?;
        *pos += 1;
        v += ((b & 0x7f) as usize) << (7 * i);
        if b & 0x80 == 0 {
            if b == 0 && i > 0 {
                return None;
            }
            return Some(v);
        }
    }
    None
}

fn parse_nf_scrypto(t: &mut Toks) -> Option<NonFungibleLocalId> {
    match t.next()? {
        "s" => {
            let b = unhex(t.next()?)?;
            NonFungibleLocalId::string(String::from_utf8(b).ok()?).ok()
        }
        "i" => Some(NonFungibleLocalId::integer(parse_nat::<u64>(t.next()?)?)),
        "b" => NonFungibleLocalId::bytes(unhex(t.next()?)?).ok(),
        "r" => Some(NonFungibleLocalId::ruid(arr::<32>(&unhex(t.next()?)?)?)),
        _ => None,
    }
}

fn show_nf_scrypto(id: &NonFungibleLocalId, out: &mut Vec<String>) {
    out.push("nf".into());
    match id {
        NonFungibleLocalId::String(s) => {
            out.push("s".into());
            out.push(hex(s.value().as_bytes()));
        }
        NonFungibleLocalId::Integer(i) => {
            out.push("i".into());
            out.push(i.value().to_string());
        }
        NonFungibleLocalId::Bytes(b) => {
            out.push("b".into());
            out.push(hex(b.value()));
        }
        NonFungibleLocalId::RUID(r) => {
            out.push("r".into());
            out.push(hex(r.value()));
        }
    }
}

impl Flav for Scrypto {
    type X = ScryptoCustomValueKind;
    type Y = ScryptoCustomValue;
    type T = ScryptoCustomTraversal;
    const PREFIX: u8 = SCRYPTO_SBOR_V1_PAYLOAD_PREFIX;
    const DEFAULT_DEPTH: usize = SCRYPTO_SBOR_V1_MAX_DEPTH;
    fn kind_names() -> &'static [&'static str] {
        &["ref", "own", "dec", "pdec", "nf"]
    }
    fn parse_kind(s: &str) -> Option<Self::X> {
        Some(match s {
            "ref" => ScryptoCustomValueKind::Reference,
            "own" => ScryptoCustomValueKind::Own,
            "dec" => ScryptoCustomValueKind::Decimal,
            "pdec" => ScryptoCustomValueKind::PreciseDecimal,
            "nf" => ScryptoCustomValueKind::NonFungibleLocalId,
            _ => return None,
        })
    }
    fn show_kind(x: &Self::X) -> String {
        match x {
            ScryptoCustomValueKind::Reference => "ref",
            ScryptoCustomValueKind::Own => "own",
            ScryptoCustomValueKind::Decimal => "dec",
            ScryptoCustomValueKind::PreciseDecimal => "pdec",
            ScryptoCustomValueKind::NonFungibleLocalId => "nf",
        }
        .to_string()
    }
    fn parse_custom(head: &str, t: &mut Toks) -> Option<Self::Y> {
        Some(match head {
            "ref" => ScryptoCustomValue::Reference(Reference(NodeId(arr::<30>(&unhex(t.next()?)?)?))),
            "own" => ScryptoCustomValue::Own(Own(NodeId(arr::<30>(&unhex(t.next()?)?)?))),
            "dec" => ScryptoCustomValue::Decimal(radix_common::math::Decimal::try_from(&arr::<24>(&unhex(t.next()?)?)?[..]).ok()?),
            "pdec" => ScryptoCustomValue::PreciseDecimal(radix_common::math::PreciseDecimal::try_from(&arr::<32>(&unhex(t.next()?)?)?[..]).ok()?),
            "nf" => ScryptoCustomValue::NonFungibleLocalId(parse_nf_scrypto(t)?),
            _ => return None,
        })
    }
    fn show_custom(y: &Self::Y, out: &mut Vec<String>) {
        match y {
            ScryptoCustomValue::Reference(r) => {
                out.push("ref".into());
                out.push(hex(&r.0 .0));
            }
            ScryptoCustomValue::Own(r) => {
                out.push("own".into());
                out.push(hex(&r.0 .0));
            }
            ScryptoCustomValue::Decimal(d) => {
                out.push("dec".into());
                out.push(hex(&d.to_vec()));
            }
            ScryptoCustomValue::PreciseDecimal(d) => {
                out.push("pdec".into());
                out.push(hex(&d.to_vec()));
            }
            ScryptoCustomValue::NonFungibleLocalId(id) => show_nf_scrypto(id, out),
        }
    }
    fn show_custom_ref(r: &ScryptoCustomTerminalValueRef, out: &mut Vec<String>) {
        Self::show_custom(&r.0, out)
    }
    fn encode(v: &V<Self>, d: usize) -> Result<Vec<u8>, EncodeError> {
        let mut buf = Vec::new();
        VecEncoder::<Self::X>::new(&mut buf, d).encode_payload(v, Self::PREFIX)?;
        Ok(buf)
    }
    fn decode(bs: &[u8], d: usize) -> Result<V<Self>, DecodeError> {
        VecDecoder::<Self::X>::new(bs, d).decode_payload(Self::PREFIX)
    }
    fn custom_content_valid(_: &Self::Y) -> bool {
        true // the Rust types only admit valid content
    }
    fn wire_custom(k: u8, bs: &[u8], pos: &mut usize) -> bool {
        match k {
            0x80 | 0x90 => take(bs, pos, 30),
            0xa0 => take(bs, pos, 24),
            0xb0 => take(bs, pos, 32),
            0xc0 => wire_nf(bs, pos, 64),
            _ => false,
        }
    }
    fn is_custom_kind(k: u8) -> bool {
        matches!(k, 0x80 | 0x90 | 0xa0 | 0xb0 | 0xc0)
    }
}

impl Flav for Manifest {
    type X = ManifestCustomValueKind;
    type Y = ManifestCustomValue;
    type T = ManifestCustomTraversal;
    const PREFIX: u8 = MANIFEST_SBOR_V1_PAYLOAD_PREFIX;
    const DEFAULT_DEPTH: usize = MANIFEST_SBOR_V1_MAX_DEPTH;
    fn kind_names() -> &'static [&'static str] {
        &["addr", "bucket", "proof", "expr", "blob", "dec", "pdec", "nf", "resv"]
    }
    fn parse_kind(s: &str) -> Option<Self::X> {
        Some(match s {
            "addr" => ManifestCustomValueKind::Address,
            "bucket" => ManifestCustomValueKind::Bucket,
            "proof" => ManifestCustomValueKind::Proof,
            "expr" => ManifestCustomValueKind::Expression,
            "blob" => ManifestCustomValueKind::Blob,
            "dec" => ManifestCustomValueKind::Decimal,
            "pdec" => ManifestCustomValueKind::PreciseDecimal,
            "nf" => ManifestCustomValueKind::NonFungibleLocalId,
            "resv" => ManifestCustomValueKind::AddressReservation,
            _ => return None,
        })
    }
    fn show_kind(x: &Self::X) -> String {
        match x {
            ManifestCustomValueKind::Address => "addr",
            ManifestCustomValueKind::Bucket => "bucket",
            ManifestCustomValueKind::Proof => "proof",
            ManifestCustomValueKind::Expression => "expr",
            ManifestCustomValueKind::Blob => "blob",
            ManifestCustomValueKind::Decimal => "dec",
            ManifestCustomValueKind::PreciseDecimal => "pdec",
            ManifestCustomValueKind::NonFungibleLocalId => "nf",
            ManifestCustomValueKind::AddressReservation => "resv",
        }
        .to_string()
    }
    fn parse_custom(head: &str, t: &mut Toks) -> Option<Self::Y> {
        Some(match head {
            "addr" => match t.next()? {
                "s" => ManifestCustomValue::Address(ManifestAddress::Static(NodeId(arr::<30>(&unhex(t.next()?)?)?))),
                "n" => ManifestCustomValue::Address(ManifestAddress::Named(ManifestNamedAddress(parse_nat::<u32>(t.next()?)?))),
                _ => return None,
            },
            "bucket" => ManifestCustomValue::Bucket(ManifestBucket(parse_nat::<u32>(t.next()?)?)),
            "proof" => ManifestCustomValue::Proof(ManifestProof(parse_nat::<u32>(t.next()?)?)),
            "expr" => ManifestCustomValue::Expression(match t.next()? {
                "0" => ManifestExpression::EntireWorktop,
                "1" => ManifestExpression::EntireAuthZone,
                _ => return None,
            }),
            "blob" => ManifestCustomValue::Blob(ManifestBlobRef(arr::<32>(&unhex(t.next()?)?)?)),
            "dec" => ManifestCustomValue::Decimal(ManifestDecimal(arr::<24>(&unhex(t.next()?)?)?)),
            "pdec" => ManifestCustomValue::PreciseDecimal(ManifestPreciseDecimal(arr::<32>(&unhex(t.next()?)?)?)),
            "nf" => ManifestCustomValue::NonFungibleLocalId(match t.next()? {
                // the enum variants are public: content is NOT validated on construction
                "s" => ManifestNonFungibleLocalId::String(String::from_utf8(unhex(t.next()?)?).ok()?),
                "i" => ManifestNonFungibleLocalId::Integer(parse_nat::<u64>(t.next()?)?),
                "b" => ManifestNonFungibleLocalId::Bytes(unhex(t.next()?)?),
                "r" => ManifestNonFungibleLocalId::RUID(arr::<32>(&unhex(t.next()?)?)?),
                _ => return None,
            }),
            "resv" => ManifestCustomValue::AddressReservation(ManifestAddressReservation(parse_nat::<u32>(t.next()?)?)),
            _ => return None,
        })
    }
    fn show_custom(y: &Self::Y, out: &mut Vec<String>) {
        let mut p = |s: &str| out.push(s.to_string());
        match y {
            ManifestCustomValue::Address(ManifestAddress::Static(n)) => {
                p("addr");
                p("s");
                p(&hex(&n.0));
            }
            ManifestCustomValue::Address(ManifestAddress::Named(n)) => {
                p("addr");
                p("n");
                p(&n.0.to_string());
            }
            ManifestCustomValue::Bucket(b) => {
                p("bucket");
                p(&b.0.to_string());
            }
            ManifestCustomValue::Proof(b) => {
                p("proof");
                p(&b.0.to_string());
            }
            ManifestCustomValue::Expression(e) => {
                p("expr");
                p(match e {
                    ManifestExpression::EntireWorktop => "0",
                    ManifestExpression::EntireAuthZone => "1",
                });
            }
            ManifestCustomValue::Blob(b) => {
                p("blob");
                p(&hex(&b.0));
            }
            ManifestCustomValue::Decimal(b) => {
                p("dec");
                p(&hex(&b.0));
            }
            ManifestCustomValue::PreciseDecimal(b) => {
                p("pdec");
                p(&hex(&b.0));
            }
            ManifestCustomValue::NonFungibleLocalId(id) => {
                p("nf");
                match id {
                    ManifestNonFungibleLocalId::String(s) => {
                        p("s");
                        p(&hex(s.as_bytes()));
                    }
                    ManifestNonFungibleLocalId::Integer(i) => {
                        p("i");
                        p(&i.to_string());
                    }
                    ManifestNonFungibleLocalId::Bytes(b) => {
                        p("b");
                        p(&hex(b));
                    }
                    ManifestNonFungibleLocalId::RUID(r) => {
                        p("r");
                        p(&hex(r));
                    }
                }
            }
            ManifestCustomValue::AddressReservation(b) => {
                p("resv");
                p(&b.0.to_string());
            }
        }
    }
    fn show_custom_ref(r: &ManifestCustomTerminalValueRef, out: &mut Vec<String>) {
        Self::show_custom(&r.0, out)
    }
    fn encode(v: &V<Self>, d: usize) -> Result<Vec<u8>, EncodeError> {
        let mut buf = Vec::new();
        VecEncoder::<Self::X>::new(&mut buf, d).encode_payload(v, Self::PREFIX)?;
        Ok(buf)
    }
    fn decode(bs: &[u8], d: usize) -> Result<V<Self>, DecodeError> {
        VecDecoder::<Self::X>::new(bs, d).decode_payload(Self::PREFIX)
    }
    fn custom_content_valid(y: &Self::Y) -> bool {
        match y {
            ManifestCustomValue::Address(ManifestAddress::Static(n)) => EntityType::from_repr(n.0[0]).is_some(),
            ManifestCustomValue::NonFungibleLocalId(ManifestNonFungibleLocalId::String(s)) => {
                !s.is_empty() && s.len() <= 64 && nf_chars_ok(s.as_bytes())
            }
            ManifestCustomValue::NonFungibleLocalId(ManifestNonFungibleLocalId::Bytes(b)) => !b.is_empty() && b.len() <= 64,
            _ => true,
        }
    }
    fn wire_custom(k: u8, bs: &[u8], pos: &mut usize) -> bool {
        match k {
            0x80 => {
                let Some(&d) = bs.get(*pos) else { return false };
                *pos += 1;
                match d {
                    0 => {
                        let Some(&e) = bs.get(*pos) else { return false };
                        EntityType::from_repr(e).is_some() && take(bs, pos, 30)
                    }
                    1 => take(bs, pos, 4),
                    _ => false,
                }
            }
            0x81 | 0x82 | 0x88 => take(bs, pos, 4),
            0x83 => {
                let Some(&e) = bs.get(*pos) else { return false };
                *pos += 1;
                e <= 1
            }
            0x84 | 0x86 => take(bs, pos, 32),
            0x85 => take(bs, pos, 24),
            0x87 => wire_nf(bs, pos, 64),
            _ => false,
        }
    }
    fn is_custom_kind(k: u8) -> bool {
        (0x80..=0x88).contains(&k)
    }
}

// ---------------------------------------------------------------------------------------------
// values <-> tokens
fn int_kind<F: Flav>(s: &str) -> Option<VKd<F>> {
    Some(match s {
        "i8" => ValueKind::I8,
        "i16" => ValueKind::I16,
        "i32" => ValueKind::I32,
        "i64" => ValueKind::I64,
        "i128" => ValueKind::I128,
        "u8" => ValueKind::U8,
        "u16" => ValueKind::U16,
        "u32" => ValueKind::U32,
        "u64" => ValueKind::U64,
        "u128" => ValueKind::U128,
        _ => return None,
    })
}

fn parse_vk<F: Flav>(s: &str) -> Option<VKd<F>> {
    Some(match s {
        "bool" => ValueKind::Bool,
        "string" => ValueKind::String,
        "enum" => ValueKind::Enum,
        "array" => ValueKind::Array,
        "tuple" => ValueKind::Tuple,
        "map" => ValueKind::Map,
        _ => match int_kind::<F>(s) {
            Some(k) => k,
            None => ValueKind::Custom(F::parse_kind(s)?),
        },
    })
}

fn show_vk<F: Flav>(k: &VKd<F>) -> String {
    match k {
        ValueKind::Bool => "bool".into(),
        ValueKind::I8 => "i8".into(),
        ValueKind::I16 => "i16".into(),
        ValueKind::I32 => "i32".into(),
        ValueKind::I64 => "i64".into(),
        ValueKind::I128 => "i128".into(),
        ValueKind::U8 => "u8".into(),
        ValueKind::U16 => "u16".into(),
        ValueKind::U32 => "u32".into(),
        ValueKind::U64 => "u64".into(),
        ValueKind::U128 => "u128".into(),
        ValueKind::String => "string".into(),
        ValueKind::Enum => "enum".into(),
        ValueKind::Array => "array".into(),
        ValueKind::Tuple => "tuple".into(),
        ValueKind::Map => "map".into(),
        ValueKind::Custom(x) => F::show_kind(x),
    }
}

fn parse_value<F: Flav>(t: &mut Toks) -> Option<V<F>> {
    let head = t.next()?;
    Some(match head {
        "bool" => match t.next()? {
            "0" => Value::Bool { value: false },
            "1" => Value::Bool { value: true },
            _ => return None,
        },
        "i8" => Value::I8 { value: parse_nat::<u8>(t.next()?)? as i8 },
        "i16" => Value::I16 { value: parse_nat::<u16>(t.next()?)? as i16 },
        "i32" => Value::I32 { value: parse_nat::<u32>(t.next()?)? as i32 },
        "i64" => Value::I64 { value: parse_nat::<u64>(t.next()?)? as i64 },
        "i128" => Value::I128 { value: parse_nat::<u128>(t.next()?)? as i128 },
        "u8" => Value::U8 { value: parse_nat::<u8>(t.next()?)? },
        "u16" => Value::U16 { value: parse_nat::<u16>(t.next()?)? },
        "u32" => Value::U32 { value: parse_nat::<u32>(t.next()?)? },
        "u64" => Value::U64 { value: parse_nat::<u64>(t.next()?)? },
        "u128" => Value::U128 { value: parse_nat::<u128>(t.next()?)? },
        "str" => Value::String { value: String::from_utf8(unhex(t.next()?)?).ok()? },
        "enum" => {
            let d = parse_nat::<u8>(t.next()?)?;
            let n = parse_nat::<usize>(t.next()?)?;
            let mut fields = vec![];
            for _ in 0..n {
                fields.push(parse_value::<F>(t)?);
            }
            Value::Enum { discriminator: d, fields }
        }
        "arr" => {
            let k = parse_vk::<F>(t.next()?)?;
            let n = parse_nat::<usize>(t.next()?)?;
            let mut elements = vec![];
            for _ in 0..n {
                elements.push(parse_value::<F>(t)?);
            }
            Value::Array { element_value_kind: k, elements }
        }
        "tup" => {
            let n = parse_nat::<usize>(t.next()?)?;
            let mut fields = vec![];
            for _ in 0..n {
                fields.push(parse_value::<F>(t)?);
            }
            Value::Tuple { fields }
        }
        "map" => {
            let kk = parse_vk::<F>(t.next()?)?;
            let vk = parse_vk::<F>(t.next()?)?;
            let n = parse_nat::<usize>(t.next()?)?;
            let mut entries = vec![];
            for _ in 0..n {
                let k = parse_value::<F>(t)?;
                let v = parse_value::<F>(t)?;
                entries.push((k, v));
            }
            Value::Map { key_value_kind: kk, value_value_kind: vk, entries }
        }
        other => Value::Custom { value: F::parse_custom(other, t)? },
    })
}

fn show_value<F: Flav>(v: &V<F>, out: &mut Vec<String>) {
    match v {
        Value::Bool { value } => {
            out.push("bool".into());
            out.push(if *value { "1" } else { "0" }.into());
        }
        Value::I8 { value } => {
            out.push("i8".into());
            out.push((*value as u8).to_string());
        }
        Value::I16 { value } => {
            out.push("i16".into());
            out.push((*value as u16).to_string());
        }
        Value::I32 { value } => {
            out.push("i32".into());
            out.push((*value as u32).to_string());
        }
        Value::I64 { value } => {
            out.push("i64".into());
            out.push((*value as u64).to_string());
        }
        Value::I128 { value } => {
            out.push("i128".into());
            out.push((*value as u128).to_string());
        }
        Value::U8 { value } => {
            out.push("u8".into());
            out.push(value.to_string());
        }
        Value::U16 { value } => {
            out.push("u16".into());
            out.push(value.to_string());
        }
        Value::U32 { value } => {
            out.push("u32".into());
            out.push(value.to_string());
        }
        Value::U64 { value } => {
            out.push("u64".into());
            out.push(value.to_string());
        }
        Value::U128 { value } => {
            out.push("u128".into());
            out.push(value.to_string());
        }
        Value::String { value } => {
            out.push("str".into());
            out.push(hex(value.as_bytes()));
        }
        Value::Enum { discriminator, fields } => {
            out.push("enum".into());
            out.push(discriminator.to_string());
            out.push(fields.len().to_string());
            for f in fields {
                show_value::<F>(f, out);
            }
        }
        Value::Array { element_value_kind, elements } => {
            out.push("arr".into());
            out.push(show_vk::<F>(element_value_kind));
            out.push(elements.len().to_string());
            for f in elements {
                show_value::<F>(f, out);
            }
        }
        Value::Tuple { fields } => {
            out.push("tup".into());
            out.push(fields.len().to_string());
            for f in fields {
                show_value::<F>(f, out);
            }
        }
        Value::Map { key_value_kind, value_value_kind, entries } => {
            out.push("map".into());
            out.push(show_vk::<F>(key_value_kind));
            out.push(show_vk::<F>(value_value_kind));
            out.push(entries.len().to_string());
            for (k, v) in entries {
                show_value::<F>(k, out);
                show_value::<F>(v, out);
            }
        }
        Value::Custom { value } => F::show_custom(value, out),
    }
}

fn value_str<F: Flav>(v: &V<F>) -> String {
    let mut out = vec![];
    show_value::<F>(v, &mut out);
    out.join(" ")
}

// ---------------------------------------------------------------------------------------------
// independent statements used by the oracles

/// nesting depth as the property counts it: every value is one level
fn depth_of<F: Flav>(v: &V<F>) -> usize {
    match v {
        Value::Enum { fields, .. } | Value::Tuple { fields } => 1 + fields.iter().map(depth_of::<F>).max().unwrap_or(0),
        Value::Array { elements, .. } => 1 + elements.iter().map(depth_of::<F>).max().unwrap_or(0),
        Value::Map { entries, .. } => 1 + entries.iter().map(|(k, v)| depth_of::<F>(k).max(depth_of::<F>(v))).max().unwrap_or(0),
        _ => 1,
    }
}

/// kind of a value as a wire byte (oracle-side, from the format description)
fn kind_byte<F: Flav>(v: &V<F>) -> u8 {
    match v {
        Value::Bool { .. } => 0x01,
        Value::I8 { .. } => 0x02,
        Value::I16 { .. } => 0x03,
        Value::I32 { .. } => 0x04,
        Value::I64 { .. } => 0x05,
        Value::I128 { .. } => 0x06,
        Value::U8 { .. } => 0x07,
        Value::U16 { .. } => 0x08,
        Value::U32 { .. } => 0x09,
        Value::U64 { .. } => 0x0a,
        Value::U128 { .. } => 0x0b,
        Value::String { .. } => 0x0c,
        Value::Array { .. } => 0x20,
        Value::Tuple { .. } => 0x21,
        Value::Enum { .. } => 0x22,
        Value::Map { .. } => 0x23,
        Value::Custom { value } => value.get_custom_value_kind().as_u8(),
    }
}

fn vk_byte<F: Flav>(k: &VKd<F>) -> u8 {
    k.as_u8()
}

/// all declared element kinds match the elements, custom content is valid: the values for which
/// the round trip is claimed
fn well_formed<F: Flav>(v: &V<F>) -> (bool, bool) {
    // (kinds consistent, custom content valid)
    match v {
        Value::Enum { fields, .. } | Value::Tuple { fields } => fields.iter().map(well_formed::<F>).fold((true, true), |a, b| (a.0 && b.0, a.1 && b.1)),
        Value::Array { element_value_kind, elements } => elements
            .iter()
            .map(|e| {
                let w = well_formed::<F>(e);
                (w.0 && kind_byte::<F>(e) == vk_byte::<F>(element_value_kind), w.1)
            })
            .fold((true, true), |a, b| (a.0 && b.0, a.1 && b.1)),
        Value::Map { key_value_kind, value_value_kind, entries } => entries
            .iter()
            .map(|(k, v)| {
                let a = well_formed::<F>(k);
                let b = well_formed::<F>(v);
                (a.0 && b.0 && kind_byte::<F>(k) == vk_byte::<F>(key_value_kind) && kind_byte::<F>(v) == vk_byte::<F>(value_value_kind), a.1 && b.1)
            })
            .fold((true, true), |a, b| (a.0 && b.0, a.1 && b.1)),
        Value::Custom { value } => (true, F::custom_content_valid(value)),
        _ => (true, true),
    }
}

fn is_kind<F: Flav>(k: u8) -> bool {
    matches!(k, 0x01..=0x0c | 0x20..=0x23) || F::is_custom_kind(k)
}

/// reference recogniser of the SBOR wire format of one value body of kind `k` (written from the
/// format description, not from the decoder): `levels` = nesting levels still allowed.
fn wire_body<F: Flav>(k: u8, bs: &[u8], pos: &mut usize, levels: usize) -> bool {
    if levels == 0 {
        return false;
    }
    match k {
        0x01 => match bs.get(*pos) {
            Some(0) | Some(1) => {
                *pos += 1;
                true
            }
            _ => false,
        },
        0x02 | 0x07 => take(bs, pos, 1),
        0x03 | 0x08 => take(bs, pos, 2),
        0x04 | 0x09 => take(bs, pos, 4),
        0x05 | 0x0a => take(bs, pos, 8),
        0x06 | 0x0b => take(bs, pos, 16),
        0x0c => {
            let Some(n) = wire_size(bs, pos) else { return false };
            if bs.len() - *pos < n {
                return false;
            }
            let ok = std::str::from_utf8(&bs[*pos..*pos + n]).is_ok();
            *pos += n;
            ok
        }
        0x21 | 0x22 => {
            if k == 0x22 && !take(bs, pos, 1) {
                return false;
            }
            let Some(n) = wire_size(bs, pos) else { return false };
            for _ in 0..n {
                if !wire_value::<F>(bs, pos, levels - 1) {
                    return false;
                }
            }
            true
        }
        0x20 => {
            let Some(&ek) = bs.get(*pos) else { return false };
            *pos += 1;
            if !is_kind::<F>(ek) {
                return false;
            }
            let Some(n) = wire_size(bs, pos) else { return false };
            for _ in 0..n {
                if !wire_body::<F>(ek, bs, pos, levels - 1) {
                    return false;
                }
            }
            true
        }
        0x23 => {
            let Some(&kk) = bs.get(*pos) else { return false };
            let Some(&vk) = bs.get(*pos + 1) else { return false };
            *pos += 2;
            if !is_kind::<F>(kk) || !is_kind::<F>(vk) {
                return false;
            }
            let Some(n) = wire_size(bs, pos) else { return false };
            for _ in 0..n {
                if !wire_body::<F>(kk, bs, pos, levels - 1) || !wire_body::<F>(vk, bs, pos, levels - 1) {
                    return false;
                }
            }
            true
        }
        c if F::is_custom_kind(c) => F::wire_custom(c, bs, pos),
        _ => false,
    }
}

fn wire_value<F: Flav>(bs: &[u8], pos: &mut usize, levels: usize) -> bool {
    let Some(&k) = bs.get(*pos) else { return false };
    *pos += 1;
    is_kind::<F>(k) && wire_body::<F>(k, bs, pos, levels)
}

fn wire_payload<F: Flav>(bs: &[u8], depth: usize) -> bool {
    if bs.first() != Some(&F::PREFIX) {
        return false;
    }
    let mut pos = 1;
    wire_value::<F>(bs, &mut pos, depth) && pos == bs.len()
}

// ---------------------------------------------------------------------------------------------
// canonical answers
fn show_derr(e: &DecodeError) -> String {
    match e {
        DecodeError::ExtraTrailingBytes(n) => format!("ExtraTrailingBytes {}", n),
        DecodeError::BufferUnderflow { required, remaining } => format!("BufferUnderflow {} {}", required, remaining),
        DecodeError::UnexpectedPayloadPrefix { expected, actual } => format!("UnexpectedPayloadPrefix {} {}", expected, actual),
        DecodeError::UnexpectedCustomValueKind { actual } => format!("UnexpectedCustomValueKind {}", actual),
        DecodeError::UnknownValueKind(b) => format!("UnknownValueKind {}", b),
        DecodeError::InvalidBool(b) => format!("InvalidBool {}", b),
        DecodeError::InvalidUtf8 => "InvalidUtf8".into(),
        DecodeError::InvalidSize => "InvalidSize".into(),
        DecodeError::MaxDepthExceeded(n) => format!("MaxDepthExceeded {}", n),
        DecodeError::InvalidCustomValue => "InvalidCustomValue".into(),
        other => format!("Other:{:?}", other),
    }
}

fn show_eerr(e: &EncodeError) -> String {
    match e {
        EncodeError::MaxDepthExceeded(n) => format!("MaxDepthExceeded {}", n),
        EncodeError::SizeTooLarge { actual, max_allowed } => format!("SizeTooLarge {} {}", actual, max_allowed),
        EncodeError::MismatchingArrayElementValueKind { element_value_kind, actual_value_kind } => {
            format!("MismatchingArrayElementValueKind {} {}", element_value_kind, actual_value_kind)
        }
        EncodeError::MismatchingMapKeyValueKind { key_value_kind, actual_value_kind } => {
            format!("MismatchingMapKeyValueKind {} {}", key_value_kind, actual_value_kind)
        }
        EncodeError::MismatchingMapValueValueKind { value_value_kind, actual_value_kind } => {
            format!("MismatchingMapValueValueKind {} {}", value_value_kind, actual_value_kind)
        }
    }
}

fn show_header<F: Flav>(h: &ContainerHeader<F::T>) -> String {
    match h {
        ContainerHeader::Tuple(t) => format!("tup {}", t.length),
        ContainerHeader::EnumVariant(e) => format!("enum {} {}", e.variant, e.length),
        ContainerHeader::Array(a) => format!("arr {} {}", show_vk::<F>(&a.element_value_kind), a.length),
        ContainerHeader::Map(m) => format!("map {} {} {}", show_vk::<F>(&m.key_value_kind), show_vk::<F>(&m.value_value_kind), m.length),
    }
}

#[derive(PartialEq, Clone, Copy)]
enum Outcome {
    End,
    Error,
    Panic,
    Runaway,
}

struct TravResult {
    text: String,
    outcome: Outcome,
    err: Option<DecodeError>,
    /// sanity facts about the event stream (independent of the model)
    shape_problem: Option<String>,
    max_path_len: usize,
}

fn run_traverser<F: Flav>(bs: &[u8], start: ExpectedStart<F::X>, d: usize, exact: bool) -> TravResult {
    let limit = 3 * bs.len() + 10;
    let r = catch(|| {
        let mut tr = VecTraverser::<F::T>::new(bs, start, VecTraverserConfig { max_depth: d, check_exact_end: exact });
        let mut parts: Vec<String> = vec![];
        let mut outcome = Outcome::Runaway;
        let mut err = None;
        let mut problem: Option<String> = None;
        let mut open: Vec<String> = vec![];
        let mut last_end = 0usize;
        let mut max_path = 0usize;
        for _ in 0..limit {
            let ev = tr.next_event();
            let loc = &ev.location;
            let li = match loc.ancestor_path.last() {
                Some(a) => a.current_child_index.to_string(),
                None => "-".to_string(),
            };
            max_path = max_path.max(loc.ancestor_path.len());
            if loc.start_offset > loc.end_offset || loc.end_offset > bs.len() {
                problem.get_or_insert(format!("offsets out of order/bounds: {}..{} of {}", loc.start_offset, loc.end_offset, bs.len()));
            }
            if loc.end_offset < last_end {
                problem.get_or_insert(format!("end offset went backwards: {} after {}", loc.end_offset, last_end));
            }
            last_end = loc.end_offset;
            let body = match &ev.event {
                TraversalEvent::ContainerStart(h) => {
                    let s = show_header::<F>(h);
                    if loc.ancestor_path.len() != open.len() {
                        problem.get_or_insert("ancestor path length differs from number of open containers at ContainerStart".into());
                    }
                    open.push(s.clone());
                    format!("CS {}", s)
                }
                TraversalEvent::ContainerEnd(h) => {
                    let s = show_header::<F>(h);
                    match open.pop() {
                        Some(o) if o == s => {}
                        _ => {
                            problem.get_or_insert("ContainerEnd does not match the innermost open ContainerStart".into());
                        }
                    }
                    format!("CE {}", s)
                }
                TraversalEvent::TerminalValue(t) => {
                    let mut out = vec![];
                    match t {
                        TerminalValueRef::Bool(v) => show_value::<F>(&Value::Bool { value: *v }, &mut out),
                        TerminalValueRef::I8(v) => show_value::<F>(&Value::I8 { value: *v }, &mut out),
                        TerminalValueRef::I16(v) => show_value::<F>(&Value::I16 { value: *v }, &mut out),
                        TerminalValueRef::I32(v) => show_value::<F>(&Value::I32 { value: *v }, &mut out),
                        TerminalValueRef::I64(v) => show_value::<F>(&Value::I64 { value: *v }, &mut out),
                        TerminalValueRef::I128(v) => show_value::<F>(&Value::I128 { value: *v }, &mut out),
                        TerminalValueRef::U8(v) => show_value::<F>(&Value::U8 { value: *v }, &mut out),
                        TerminalValueRef::U16(v) => show_value::<F>(&Value::U16 { value: *v }, &mut out),
                        TerminalValueRef::U32(v) => show_value::<F>(&Value::U32 { value: *v }, &mut out),
                        TerminalValueRef::U64(v) => show_value::<F>(&Value::U64 { value: *v }, &mut out),
                        TerminalValueRef::U128(v) => show_value::<F>(&Value::U128 { value: *v }, &mut out),
                        TerminalValueRef::String(s) => {
                            out.push("str".into());
                            out.push(hex(s.as_bytes()));
                        }
                        TerminalValueRef::Custom(c) => F::show_custom_ref(c, &mut out),
                    }
                    format!("TV {}", out.join(" "))
                }
                TraversalEvent::TerminalValueBatch(TerminalValueBatchRef::U8(b)) => format!("TB {}", hex(b)),
                TraversalEvent::End => {
                    outcome = Outcome::End;
                    if !open.is_empty() {
                        problem.get_or_insert("End with open containers".into());
                    }
                    "END".to_string()
                }
                TraversalEvent::DecodeError(e) => {
                    outcome = Outcome::Error;
                    err = Some(*e);
                    format!("ERR {}", show_derr(e))
                }
            };
            parts.push(format!("{} @{} {} {} {}", body, loc.start_offset, loc.end_offset, loc.ancestor_path.len(), li));
            if outcome != Outcome::Runaway {
                break;
            }
        }
        (parts, outcome, err, problem, max_path)
    });
    match r {
        Ok((parts, outcome, err, problem, max_path)) => {
            let mut text = parts.join(" | ");
            if outcome == Outcome::Runaway {
                text.push_str(" | OUT-OF-FUEL");
            }
            TravResult { text, outcome, err, shape_problem: problem, max_path_len: max_path }
        }
        Err(m) => TravResult { text: format!("panic"), outcome: Outcome::Panic, err: None, shape_problem: Some(m), max_path_len: 0 },
    }
}

// ---------------------------------------------------------------------------------------------
// op handlers + property oracles
#[derive(Clone, Copy, PartialEq)]
enum Prop {
    C20,
    C21,
}

fn alloc_bound<F: Flav>(d: usize, len: usize) -> usize {
    // every container pre-allocates at most 1024 slots and there are at most min(d, len) containers
    // open at a time; everything else is proportional to the input
    2 * std::mem::size_of::<V<F>>() * (len + 1024 * (d.min(len) + 1)) + 8 * len + 4096
}

/// decoder/traverser agreement on one payload (C21)
fn agreement<F: Flav>(fl: &str, bs: &[u8], d: usize, dec_ok: bool, dec_err: Option<&DecodeError>) -> Option<(String, String)> {
    let t = run_traverser::<F>(bs, ExpectedStart::PayloadPrefix(F::PREFIX), d, true);
    match t.outcome {
        Outcome::Panic => return Some((format!("panic-traverser:{}", fl), format!("VecTraverser panicked: {:?}", t.shape_problem))),
        Outcome::Runaway => return Some((format!("traverser-runaway:{}", fl), "no End/DecodeError within 3*len+10 events".into())),
        _ => {}
    }
    if let Some(p) = &t.shape_problem {
        return Some((format!("traverser-event-shape:{}", fl), p.clone()));
    }
    let trav_ok = t.outcome == Outcome::End;
    if trav_ok != dec_ok {
        if d == 0 && trav_ok && matches!(dec_err, Some(DecodeError::MaxDepthExceeded(0))) {
            return Some((
                format!("depth0-traverser-accepts-childless-value:{}", fl),
                format!("max_depth=0: VecDecoder rejects the payload (MaxDepthExceeded(0)) but VecTraverser reaches End: {}", t.text),
            ));
        }
        return Some((
            format!("accept-disagree:{}:d={}", fl, d),
            format!("decoder {} but traverser {}: {}", if dec_ok { "accepts" } else { "rejects" }, if trav_ok { "reaches End" } else { "errors" }, t.text),
        ));
    }
    if trav_ok && d > 0 && t.max_path_len >= d {
        return Some((format!("traverser-path-exceeds:{}", fl), format!("ancestor path of length {} with max_depth {}", t.max_path_len, d)));
    }
    None
}

fn op_enc<F: Flav>(prop: Prop, fl: &str, d: usize, t: &mut Toks) -> Answer {
    let v = match parse_value::<F>(t) {
        Some(v) if t.done() => v,
        _ => return Answer::ok("bad-op"),
    };
    let r = match catch(|| F::encode(&v, d)) {
        Ok(r) => r,
        Err(m) => return Answer::fail("panic", format!("panic-encode:{}", fl), m),
    };
    let ans = match &r {
        Ok(bs) => format!("ok {}", hex(bs)),
        Err(e) => format!("err {}", show_eerr(e)),
    };
    let (wf_kinds, wf_content) = well_formed::<F>(&v);
    let dv = depth_of::<F>(&v);
    match prop {
        Prop::C20 => {
            match &r {
                Ok(bs) => {
                    if !wf_kinds {
                        return Answer::fail(ans, format!("encoder-accepts-mismatched-kinds:{}", fl), "a value whose elements do not have the declared element kind was encoded");
                    }
                    match catch(|| F::decode(bs, d)) {
                        Err(m) => return Answer::fail(ans, format!("panic-decode-of-encoding:{}", fl), m),
                        Ok(Ok(v2)) => {
                            if v2 != v {
                                return Answer::fail(ans, format!("roundtrip-enc-dec-differs:{}", fl), format!("decodes to {}", value_str::<F>(&v2)));
                            }
                        }
                        Ok(Err(e)) => {
                            if !wf_content {
                                return Answer::fail(
                                    ans,
                                    format!("unvalidated-custom-content:{}", fl),
                                    format!("the value is encodable (custom value content is not validated on construction/encoding) but its own encoding is rejected by the decoder: {}", show_derr(&e)),
                                );
                            }
                            return Answer::fail(ans, format!("roundtrip-enc-dec-rejected:{}", fl), format!("own encoding rejected: {}", show_derr(&e)));
                        }
                    }
                    if wf_content && !wire_payload::<F>(bs, d) {
                        return Answer::fail(ans, format!("encoding-not-wire-format:{}", fl), "the encoder produced bytes that the reference recogniser of the wire format rejects");
                    }
                }
                Err(e) => {
                    let expected = (!wf_kinds && !matches!(e, EncodeError::MaxDepthExceeded(_) | EncodeError::SizeTooLarge { .. })) || (dv > d && matches!(e, EncodeError::MaxDepthExceeded(m) if *m == d));
                    if !expected {
                        return Answer::fail(ans, format!("encoder-rejects-unexpectedly:{}", fl), format!("depth {} limit {} kinds-consistent {}", dv, d, wf_kinds));
                    }
                }
            }
            Answer::ok(ans)
        }
        Prop::C21 => {
            // depth agreement of encoder / decoder / traverser on a value that is encodable at all
            if let Ok(Ok(full)) = catch(|| F::encode(&v, 255)) {
                let expect_ok = dv <= d;
                match &r {
                    Ok(_) if !expect_ok => return Answer::fail(ans, format!("encoder-depth:{}", fl), format!("value of depth {} encoded with limit {}", dv, d)),
                    Err(EncodeError::MaxDepthExceeded(m)) if !expect_ok && *m == d => {}
                    Err(e) => return Answer::fail(ans, format!("encoder-depth:{}", fl), format!("value of depth {} limit {}: {}", dv, d, show_eerr(e))),
                    Ok(_) => {}
                }
                if wf_content {
                    let (dec, peak) = measured(|| catch(|| F::decode(&full, d)));
                    let dec = match dec {
                        Ok(x) => x,
                        Err(m) => return Answer::fail(ans, format!("panic-decode:{}", fl), m),
                    };
                    if peak > alloc_bound::<F>(d, full.len()) {
                        return Answer::fail(ans, format!("alloc-unbounded:{}", fl), format!("peak {} bytes for {} input bytes", peak, full.len()));
                    }
                    match &dec {
                        Ok(_) if !expect_ok => return Answer::fail(ans, format!("decoder-depth:{}", fl), format!("encoding of a value of depth {} accepted with limit {}", dv, d)),
                        Err(DecodeError::MaxDepthExceeded(m)) if !expect_ok && *m == d => {}
                        Err(e) => return Answer::fail(ans, format!("decoder-depth:{}", fl), format!("encoding of a value of depth {} limit {}: {}", dv, d, show_derr(e))),
                        Ok(_) => {}
                    }
                    if let Some((k, desc)) = agreement::<F>(fl, &full, d, dec.is_ok(), dec.as_ref().err()) {
                        return Answer::fail(ans, k, desc);
                    }
                }
            }
            Answer::ok(ans)
        }
    }
}

fn op_dec<F: Flav>(prop: Prop, fl: &str, d: usize, bs: &[u8]) -> Answer {
    let (r, peak) = measured(|| catch(|| F::decode(bs, d)));
    let r = match r {
        Ok(r) => r,
        Err(m) => return Answer::fail("panic", format!("panic-decode:{}", fl), m),
    };
    let ans = match &r {
        Ok(v) => format!("ok {}", value_str::<F>(v)),
        Err(e) => format!("err {}", show_derr(e)),
    };
    match prop {
        Prop::C20 => {
            if let Ok(v) = &r {
                match catch(|| F::encode(v, d)) {
                    Err(m) => return Answer::fail(ans, format!("panic-encode:{}", fl), m),
                    Ok(Ok(bs2)) => {
                        if bs2 != bs {
                            return Answer::fail(ans, format!("reencode-differs:{}", fl), format!("accepted payload re-encodes to {}", hex(&bs2)));
                        }
                    }
                    Ok(Err(e)) => return Answer::fail(ans, format!("reencode-fails:{}", fl), show_eerr(&e)),
                }
                let (k, c) = well_formed::<F>(v);
                if !k || !c {
                    return Answer::fail(ans, format!("decoded-not-well-formed:{}", fl), "decoder produced a value with mismatching element kinds or invalid custom content");
                }
            }
            let w = wire_payload::<F>(bs, d);
            if w != r.is_ok() {
                return Answer::fail(
                    ans,
                    format!("wire-format-mismatch:{}:{}", fl, if w { "decoder-rejects" } else { "decoder-accepts" }),
                    "decoder and the reference recogniser of the wire format disagree on acceptance",
                );
            }
            Answer::ok(ans)
        }
        Prop::C21 => {
            if peak > alloc_bound::<F>(d, bs.len()) {
                return Answer::fail(ans, format!("alloc-unbounded:{}", fl), format!("peak {} bytes for {} input bytes", peak, bs.len()));
            }
            if let Ok(v) = &r {
                if depth_of::<F>(v) > d {
                    return Answer::fail(ans, format!("decoder-depth:{}", fl), format!("decoded a value of depth {} with limit {}", depth_of::<F>(v), d));
                }
                // the encoder must agree on the accepted value
                match catch(|| F::encode(v, d)) {
                    Ok(Ok(_)) => {}
                    Ok(Err(e)) => return Answer::fail(ans, format!("encoder-depth:{}", fl), format!("decoder accepted but encoder says {}", show_eerr(&e))),
                    Err(m) => return Answer::fail(ans, format!("panic-encode:{}", fl), m),
                }
            }
            if let Some((k, desc)) = agreement::<F>(fl, bs, d, r.is_ok(), r.as_ref().err()) {
                return Answer::fail(ans, k, desc);
            }
            Answer::ok(ans)
        }
    }
}

fn op_trav<F: Flav>(fl: &str, d: usize, exact: bool, mode: &str, bs: &[u8]) -> Answer {
    let start = if mode == "p" {
        ExpectedStart::PayloadPrefix(F::PREFIX)
    } else if mode == "v" {
        ExpectedStart::Value
    } else if let Some(k) = mode.strip_prefix("b:") {
        match parse_vk::<F>(k) {
            Some(k) => ExpectedStart::ValueBody(k),
            None => return Answer::ok("bad-op"),
        }
    } else {
        return Answer::ok("bad-op");
    };
    let (t, peak) = measured(|| run_traverser::<F>(bs, start, d, exact));
    let ans = t.text.clone();
    match t.outcome {
        Outcome::Panic => return Answer::fail(ans, format!("panic-traverser:{}", fl), format!("{:?}", t.shape_problem)),
        Outcome::Runaway => return Answer::fail(ans, format!("traverser-runaway:{}", fl), "no End/DecodeError within 3*len+10 events"),
        _ => {}
    }
    if let Some(p) = &t.shape_problem {
        return Answer::fail(ans, format!("traverser-event-shape:{}", fl), p.clone());
    }
    // (the harness itself builds the event text: allow for it generously)
    if peak > alloc_bound::<F>(d, bs.len()) + 64 * ans.len() {
        return Answer::fail(ans, format!("alloc-unbounded-traverser:{}", fl), format!("peak {} bytes for {} input bytes", peak, bs.len()));
    }
    if mode == "p" && exact {
        let dec = match catch(|| F::decode(bs, d)) {
            Ok(x) => x,
            Err(m) => return Answer::fail(ans, format!("panic-decode:{}", fl), m),
        };
        let trav_ok = t.outcome == Outcome::End;
        if trav_ok != dec.is_ok() {
            if d == 0 && trav_ok && matches!(dec, Err(DecodeError::MaxDepthExceeded(0))) {
                return Answer::fail(
                    ans,
                    format!("depth0-traverser-accepts-childless-value:{}", fl),
                    "max_depth=0: VecDecoder rejects the payload (MaxDepthExceeded(0)) but VecTraverser reaches End",
                );
            }
            return Answer::fail(
                ans,
                format!("accept-disagree:{}:d={}", fl, d),
                format!("decoder {} but traverser {}", if dec.is_ok() { "accepts" } else { "rejects" }, if trav_ok { "reaches End" } else { "errors" }),
            );
        }
    }
    Answer::ok(ans)
}

fn op_size(n: usize) -> Answer {
    let mut buf = Vec::new();
    let r = catch(|| VecEncoder::<NoCustomValueKind>::new(&mut buf, 1).write_size(n));
    let r = match r {
        Ok(r) => r,
        Err(m) => return Answer::fail("panic", "panic-write-size", m),
    };
    match r {
        Ok(()) => {
            let ans = format!("ok {}", hex(&buf));
            let mut dec = VecDecoder::<NoCustomValueKind>::new(&buf, 1);
            match dec.read_size() {
                Ok(m) if m == n && dec.check_end().is_ok() => {}
                other => return Answer::fail(ans, "size-roundtrip", format!("read_size(write_size({})) = {:?}", n, other)),
            }
            if n > 0x0FFF_FFFF || buf.len() > 4 {
                return Answer::fail(ans, "size-cap", "size above 2^28-1 or longer than 4 bytes written");
            }
            Answer::ok(ans)
        }
        Err(e) => {
            let ans = format!("err {}", show_eerr(&e));
            if n <= 0x0FFF_FFFF {
                return Answer::fail(ans, "size-cap", "a size within the cap was rejected");
            }
            Answer::ok(ans)
        }
    }
}

fn op_rsize(bs: &[u8]) -> Answer {
    let r = catch(|| {
        let mut dec = VecDecoder::<NoCustomValueKind>::new(bs, 1);
        dec.read_size().map(|n| (n, bs.len() - dec.get_offset()))
    });
    let r = match r {
        Ok(r) => r,
        Err(m) => return Answer::fail("panic", "panic-read-size", m),
    };
    match r {
        Ok((n, rest)) => {
            let ans = format!("ok {} {}", n, rest);
            // unique encoding of sizes: what was consumed must be exactly write_size(n)
            let mut buf = Vec::new();
            let w = VecEncoder::<NoCustomValueKind>::new(&mut buf, 1).write_size(n);
            if w.is_err() || buf[..] != bs[..bs.len() - rest] {
                return Answer::fail(ans, "size-noncanonical", format!("accepted size bytes {} but write_size({}) = {}", hex(&bs[..bs.len() - rest]), n, hex(&buf)));
            }
            let mut p = 0;
            if wire_size(bs, &mut p) != Some(n) {
                return Answer::fail(ans, "size-wire-format", "read_size accepts what the reference LEB128 recogniser rejects");
            }
            Answer::ok(ans)
        }
        Err(e) => {
            let ans = format!("err {}", show_derr(&e));
            let mut p = 0;
            if wire_size(bs, &mut p).is_some() {
                return Answer::fail(ans, "size-wire-format", "read_size rejects a canonical LEB128 size");
            }
            Answer::ok(ans)
        }
    }
}

struct R {
    prop: Prop,
}

impl Runner for R {
    fn step(&mut self, line: &str) -> Answer {
        let v: Vec<&str> = line.split(' ').filter(|s| !s.is_empty()).collect();
        let mut t = Toks { v, i: 0 };
        let op = match t.next() {
            Some(o) => o,
            None => return Answer::ok("bad-op"),
        };
        match op {
            "enc" => {
                let (Some(fl), Some(d)) = (t.next(), t.next().and_then(parse_nat::<usize>)) else { return Answer::ok("bad-op") };
                match fl {
                    "b" => op_enc::<Basic>(self.prop, fl, d, &mut t),
                    "s" => op_enc::<Scrypto>(self.prop, fl, d, &mut t),
                    "m" => op_enc::<Manifest>(self.prop, fl, d, &mut t),
                    _ => Answer::ok("bad-op"),
                }
            }
            "dec" => {
                let (Some(fl), Some(d), Some(bs)) = (t.next(), t.next().and_then(parse_nat::<usize>), t.next().and_then(unhex)) else {
                    return Answer::ok("bad-op");
                };
                if !t.done() {
                    return Answer::ok("bad-op");
                }
                match fl {
                    "b" => op_dec::<Basic>(self.prop, fl, d, &bs),
                    "s" => op_dec::<Scrypto>(self.prop, fl, d, &bs),
                    "m" => op_dec::<Manifest>(self.prop, fl, d, &bs),
                    _ => Answer::ok("bad-op"),
                }
            }
            "trav" => {
                let (Some(fl), Some(d), Some(ex), Some(mode), Some(bs)) = (t.next(), t.next().and_then(parse_nat::<usize>), t.next(), t.next(), t.next().and_then(unhex)) else {
                    return Answer::ok("bad-op");
                };
                if !t.done() || (ex != "0" && ex != "1") {
                    return Answer::ok("bad-op");
                }
                match fl {
                    "b" => op_trav::<Basic>(fl, d, ex == "1", mode, &bs),
                    "s" => op_trav::<Scrypto>(fl, d, ex == "1", mode, &bs),
                    "m" => op_trav::<Manifest>(fl, d, ex == "1", mode, &bs),
                    _ => Answer::ok("bad-op"),
                }
            }
            "size" => match (t.next().and_then(parse_nat::<usize>), t.done()) {
                (Some(n), _) if t.done() => op_size(n),
                _ => Answer::ok("bad-op"),
            },
            "rsize" => match t.next().and_then(unhex) {
                Some(bs) if t.done() => op_rsize(&bs),
                _ => Answer::ok("bad-op"),
            },
            "utf8" => match t.next().and_then(unhex) {
                Some(bs) if t.done() => Answer::ok(std::str::from_utf8(&bs).is_ok().to_string()),
                _ => Answer::ok("bad-op"),
            },
            _ => Answer::ok("bad-op"),
        }
    }
}

// ---------------------------------------------------------------------------------------------
// generators
const BASE_KINDS: [&str; 16] = ["bool", "i8", "i16", "i32", "i64", "i128", "u8", "u16", "u32", "u64", "u128", "string", "enum", "array", "tuple", "map"];

struct G<'a> {
    rng: &'a mut Rng,
    customs: &'static [&'static str],
    fl: char,
    /// probability (1/n) of deliberately invalid pieces (wrong element kind, invalid manifest content)
    naughty: u64,
}

fn hexs(b: &[u8]) -> String {
    hex(b)
}

impl<'a> G<'a> {
    fn kind(&mut self, allow_container: bool) -> String {
        loop {
            let n = BASE_KINDS.len() + self.customs.len();
            let i = self.rng.below(n as u64) as usize;
            let k = if i < BASE_KINDS.len() { BASE_KINDS[i] } else { self.customs[i - BASE_KINDS.len()] };
            if !allow_container && matches!(k, "enum" | "array" | "tuple" | "map") {
                continue;
            }
            return k.to_string();
        }
    }

    fn int_val(&mut self, bits: u32) -> u128 {
        let max = if bits == 128 { u128::MAX } else { (1u128 << bits) - 1 };
        match self.rng.below(7) {
            0 => 0,
            1 => 1,
            2 => max,
            3 => max / 2,
            4 => max / 2 + 1,
            5 => self.rng.below(300) as u128 & max,
            _ => (((self.rng.next() as u128) << 64) | self.rng.next() as u128) & max,
        }
    }

    fn string(&mut self) -> Vec<u8> {
        let palette = ["", "a", "hello", "h\u{e9}llo", "\u{20ac}", "\u{1d11e}x", "\u{7ff}\u{800}\u{ffff}\u{10000}\u{10ffff}", "\u{d7ff}\u{e000}"];
        match self.rng.below(10) {
            0 => vec![b'a'; 127],
            1 => vec![b'b'; 128],
            2 => "\u{e9}".repeat(70).into_bytes(),
            _ => {
                let mut s = String::new();
                for _ in 0..self.rng.below(3) + 1 {
                    let piece: &str = *self.rng.pick(&palette[..]);
                    s.push_str(piece);
                }
                s.into_bytes()
            }
        }
    }

    fn nf(&mut self, validated: bool, out: &mut Vec<String>) {
        out.push("nf".into());
        let bad = !validated && self.rng.chance(1, self.naughty);
        match self.rng.below(4) {
            0 => {
                out.push("s".into());
                let charset = b"abcxyzABCXYZ0189_";
                let s: Vec<u8> = if bad {
                    match self.rng.below(3) {
                        0 => vec![],
                        1 => vec![b'a'; 65],
                        _ => b"a-b".to_vec(),
                    }
                } else {
                    let n = *self.rng.pick(&[1usize, 2, 5, 63, 64]);
                    (0..n).map(|_| *self.rng.pick(&charset[..])).collect()
                };
                out.push(hexs(&s));
            }
            1 => {
                out.push("i".into());
                out.push((self.int_val(64) as u64).to_string());
            }
            2 => {
                out.push("b".into());
                let n = if bad { *self.rng.pick(&[0usize, 65]) } else { *self.rng.pick(&[1usize, 2, 32, 63, 64]) };
                out.push(hexs(&self.rng.bytes(n)));
            }
            _ => {
                out.push("r".into());
                out.push(hexs(&self.rng.bytes(32)));
            }
        }
    }

    fn u32s(&mut self) -> String {
        (self.int_val(32) as u32).to_string()
    }

    fn of_kind(&mut self, kind: &str, levels: usize, budget: &mut i64, out: &mut Vec<String>) {
        *budget -= 1;
        match kind {
            "bool" => {
                out.push("bool".into());
                out.push(self.rng.below(2).to_string());
            }
            "i8" | "u8" | "i16" | "u16" | "i32" | "u32" | "i64" | "u64" | "i128" | "u128" => {
                let bits: u32 = kind[1..].parse().unwrap();
                out.push(kind.into());
                out.push(self.int_val(bits).to_string());
            }
            "string" => {
                out.push("str".into());
                out.push(hexs(&self.string()));
            }
            "enum" | "tuple" => {
                let n = if levels <= 1 || *budget <= 0 { 0 } else { self.rng.below(4) as usize };
                if kind == "enum" {
                    out.push("enum".into());
                    out.push(self.rng.below(256).to_string());
                } else {
                    out.push("tup".into());
                }
                out.push(n.to_string());
                for _ in 0..n {
                    let k = self.kind(levels > 2);
                    self.of_kind(&k, levels - 1, budget, out);
                }
            }
            "array" => {
                let ek = self.kind(levels > 2);
                let n = if levels <= 1 || *budget <= 0 {
                    0
                } else if ek == "u8" && self.rng.chance(1, 3) {
                    *self.rng.pick(&[1usize, 2, 127, 128, 130, 300])
                } else {
                    self.rng.below(4) as usize
                };
                out.push("arr".into());
                out.push(ek.clone());
                out.push(n.to_string());
                for _ in 0..n {
                    let k = if self.rng.chance(1, self.naughty * 4) { self.kind(levels > 2) } else { ek.clone() };
                    self.of_kind(&k, levels - 1, budget, out);
                }
            }
            "map" => {
                let kk = self.kind(levels > 2);
                let vk = self.kind(levels > 2);
                let n = if levels <= 1 || *budget <= 0 { 0 } else { self.rng.below(3) as usize };
                out.push("map".into());
                out.push(kk.clone());
                out.push(vk.clone());
                out.push(n.to_string());
                for _ in 0..n {
                    let k = if self.rng.chance(1, self.naughty * 4) { self.kind(levels > 2) } else { kk.clone() };
                    self.of_kind(&k, levels - 1, budget, out);
                    let k = if self.rng.chance(1, self.naughty * 4) { self.kind(levels > 2) } else { vk.clone() };
                    self.of_kind(&k, levels - 1, budget, out);
                }
            }
            // custom kinds
            "ref" | "own" => {
                out.push(kind.into());
                out.push(hexs(&self.rng.bytes(30)));
            }
            "dec" => {
                out.push("dec".into());
                out.push(hexs(&self.rng.bytes(24)));
            }
            "pdec" => {
                out.push("pdec".into());
                out.push(hexs(&self.rng.bytes(32)));
            }
            "nf" => {
                let validated = self.fl == 's';
                self.nf(validated, out)
            }
            "addr" => {
                out.push("addr".into());
                if self.rng.chance(1, 2) {
                    out.push("s".into());
                    let mut b = self.rng.bytes(30);
                    if !self.rng.chance(1, self.naughty) {
                        b[0] = *self.rng.pick(&[0x0du8, 0x86, 0x83, 0xc0, 0xc1, 0x5d, 0x9a, 0x58, 0xf8, 0xb0]);
                    }
                    out.push(hexs(&b));
                } else {
                    out.push("n".into());
                    out.push(self.u32s());
                }
            }
            "bucket" | "proof" | "resv" => {
                out.push(kind.into());
                out.push(self.u32s());
            }
            "expr" => {
                out.push("expr".into());
                out.push(self.rng.below(2).to_string());
            }
            "blob" => {
                out.push("blob".into());
                out.push(hexs(&self.rng.bytes(32)));
            }
            _ => unreachable!("kind {}", kind),
        }
    }

    /// a random tree of bounded size
    fn tree(&mut self) -> Vec<String> {
        let mut out = vec![];
        let mut budget = 3 + self.rng.below(40) as i64;
        let levels = 1 + self.rng.below(6) as usize;
        let k = if self.rng.chance(3, 4) { self.rng.pick(&["enum", "array", "tuple", "map", "tuple", "array"][..]).to_string() } else { self.kind(true) };
        self.of_kind(&k, levels, &mut budget, &mut out);
        out
    }

    /// a chain of `n` nested values (depth exactly `n`), innermost a terminal or an empty container
    fn chain(&mut self, n: usize) -> Vec<String> {
        let (mut toks, mut kind): (Vec<String>, String) = if self.rng.chance(1, 3) {
            match self.rng.below(4) {
                0 => (vec!["tup".into(), "0".into()], "tuple".into()),
                1 => (vec!["enum".into(), "3".into(), "0".into()], "enum".into()),
                2 => (vec!["arr".into(), "u8".into(), "0".into()], "array".into()),
                _ => (vec!["map".into(), "u8".into(), "string".into(), "0".into()], "map".into()),
            }
        } else {
            let k = self.kind(false);
            let mut out = vec![];
            let mut b = 10;
            self.of_kind(&k, 1, &mut b, &mut out);
            (out, k)
        };
        for _ in 1..n.max(1) {
            let (mut t2, k2): (Vec<String>, &str) = match self.rng.below(5) {
                0 => (vec!["tup".into(), "1".into()], "tuple"),
                1 => (vec!["enum".into(), self.rng.below(256).to_string(), "1".into()], "enum"),
                2 => (vec!["arr".into(), kind.clone(), "1".into()], "array"),
                3 => (vec!["map".into(), "u8".into(), kind.clone(), "1".into(), "u8".into(), "7".into()], "map"),
                _ => {
                    // the nested value is the *key*
                    let mut t = vec!["map".into(), kind.clone(), "bool".into(), "1".into()];
                    t.append(&mut toks);
                    t.push("bool".into());
                    t.push("1".into());
                    toks = vec![];
                    (t, "map")
                }
            };
            t2.append(&mut toks);
            toks = t2;
            kind = k2.to_string();
        }
        toks
    }
}

fn flav_customs(fl: char) -> &'static [&'static str] {
    match fl {
        'b' => Basic::kind_names(),
        's' => Scrypto::kind_names(),
        _ => Manifest::kind_names(),
    }
}

fn default_depth(fl: char) -> usize {
    match fl {
        'b' => Basic::DEFAULT_DEPTH,
        's' => Scrypto::DEFAULT_DEPTH,
        _ => Manifest::DEFAULT_DEPTH,
    }
}

fn encode_tokens(fl: char, toks: &[String]) -> Option<(Vec<u8>, usize)> {
    fn go<F: Flav>(toks: &[String]) -> Option<(Vec<u8>, usize)> {
        let mut t = Toks { v: toks.iter().map(|s| s.as_str()).collect(), i: 0 };
        let v = parse_value::<F>(&mut t)?;
        let bs = catch(|| F::encode(&v, 255)).ok()?.ok()?;
        Some((bs, depth_of::<F>(&v)))
    }
    match fl {
        'b' => go::<Basic>(toks),
        's' => go::<Scrypto>(toks),
        _ => go::<Manifest>(toks),
    }
}

fn tokens_depth(fl: char, toks: &[String]) -> Option<usize> {
    fn go<F: Flav>(toks: &[String]) -> Option<usize> {
        let mut t = Toks { v: toks.iter().map(|s| s.as_str()).collect(), i: 0 };
        Some(depth_of::<F>(&parse_value::<F>(&mut t)?))
    }
    match fl {
        'b' => go::<Basic>(toks),
        's' => go::<Scrypto>(toks),
        _ => go::<Manifest>(toks),
    }
}

fn pick_depth(rng: &mut Rng, dv: usize, fl: char) -> usize {
    match rng.below(48) {
        0 => 0, // the known-finding class (max_depth = 0): a small share
        1 | 2 => 1,
        3..=9 => dv.saturating_sub(1).max(1),
        10..=23 => dv.max(1),
        24..=29 => dv + 1,
        30..=39 => default_depth(fl),
        40..=43 => 255,
        _ => 1 + rng.below(66) as usize,
    }
}

fn mutate(rng: &mut Rng, bs: &mut Vec<u8>) {
    let kinds: [u8; 26] = [0x01, 0x02, 0x03, 0x04, 0x05, 0x06, 0x07, 0x08, 0x09, 0x0a, 0x0b, 0x0c, 0x20, 0x21, 0x22, 0x23, 0x80, 0x81, 0x83, 0x87, 0x88, 0x90, 0xa0, 0xb0, 0xc0, 0x0d];
    for _ in 0..1 + rng.below(2) {
        if bs.is_empty() {
            bs.push(rng.next() as u8);
            continue;
        }
        let i = rng.below(bs.len() as u64) as usize;
        match rng.below(9) {
            0 => bs[i] = rng.next() as u8,
            1 => bs[i] = *rng.pick(&kinds),
            2 => bs[i] = *rng.pick(&[0u8, 1, 2, 0x7f, 0x80, 0x81, 0xff]),
            3 => bs.truncate(i),
            4 => {
                let n_extra = 1 + rng.below(3) as usize;
                let extra = rng.bytes(n_extra);
                bs.extend(extra);
            }
            5 => {
                // non-canonical / over-long size: turn byte b into (b|0x80, 0x00) or add continuation
                let b = bs[i];
                if b < 0x80 {
                    bs[i] = b | 0x80;
                    bs.insert(i + 1, *rng.pick(&[0u8, 1, 0x80]));
                }
            }
            6 => {
                bs.remove(i);
            }
            7 => {
                let b = bs[i];
                bs.insert(i, b);
            }
            _ => bs[i] = bs[i].wrapping_add(1),
        }
    }
}

fn random_payload(rng: &mut Rng, fl: char) -> Vec<u8> {
    let prefix = match fl {
        'b' => Basic::PREFIX,
        's' => Scrypto::PREFIX,
        _ => Manifest::PREFIX,
    };
    let kinds: [u8; 20] = [0x01, 0x02, 0x07, 0x09, 0x0c, 0x20, 0x20, 0x21, 0x21, 0x22, 0x23, 0x23, 0x80, 0x81, 0x83, 0x87, 0x90, 0xa0, 0xc0, 0x00];
    let mut bs = vec![if rng.chance(9, 10) { prefix } else { rng.next() as u8 }];
    for _ in 0..rng.below(14) {
        match rng.below(4) {
            0 => bs.push(*rng.pick(&kinds)),
            1 => bs.push(rng.below(4) as u8),
            2 => bs.push(rng.next() as u8),
            _ => {
                // a huge declared size
                bs.extend([0xff, 0xff, 0xff, 0x7f]);
            }
        }
    }
    bs
}

fn gen_value_tokens(rng: &mut Rng, fl: char, naughty: u64) -> Vec<String> {
    let deep = rng.chance(1, 4);
    let n = if deep {
        let dd = default_depth(fl);
        let r66 = 1 + rng.below(66) as usize;
        *rng.pick(&[2usize, 3, dd - 1, dd, dd + 1, 66, r66])
    } else {
        0
    };
    let mut g = G { rng, customs: flav_customs(fl), fl, naughty };
    if deep {
        g.chain(n)
    } else {
        g.tree()
    }
}

fn gen_payload(rng: &mut Rng, fl: char) -> (Vec<u8>, usize) {
    if rng.chance(1, 8) {
        return (random_payload(rng, fl), 2);
    }
    let toks = gen_value_tokens(rng, fl, 1_000_000);
    match encode_tokens(fl, &toks) {
        Some((mut bs, dv)) => {
            if rng.chance(2, 5) {
                mutate(rng, &mut bs);
            }
            (bs, dv)
        }
        None => (random_payload(rng, fl), 2),
    }
}

fn pick_flavour(rng: &mut Rng) -> char {
    *rng.pick(&['b', 'b', 's', 's', 'm'])
}

fn gen_enc_line(rng: &mut Rng, out: &mut dyn Write) {
    let fl = pick_flavour(rng);
    let toks = gen_value_tokens(rng, fl, 8);
    let dv = tokens_depth(fl, &toks).unwrap_or(3);
    let d = pick_depth(rng, dv, fl);
    writeln!(out, "enc {} {} {}", fl, d, toks.join(" ")).unwrap();
}

fn gen_dec_line(rng: &mut Rng, out: &mut dyn Write) {
    let fl = pick_flavour(rng);
    let (bs, dv) = gen_payload(rng, fl);
    let d = pick_depth(rng, dv, fl);
    writeln!(out, "dec {} {} {}", fl, d, hex(&bs)).unwrap();
}

fn gen_trav_line(rng: &mut Rng, out: &mut dyn Write) {
    let fl = pick_flavour(rng);
    let (bs, dv) = gen_payload(rng, fl);
    let d = pick_depth(rng, dv, fl);
    match rng.below(10) {
        0 => writeln!(out, "trav {} {} 0 p {}", fl, d, hex(&bs)).unwrap(),
        1 => writeln!(out, "trav {} {} {} v {}", fl, d, rng.below(2), hex(&bs[bs.len().min(1)..])).unwrap(),
        2 => {
            // body only: strip prefix and kind byte, announce the kind
            let k = bs.get(1).copied().unwrap_or(0x21);
            let name = match k {
                0x01 => "bool",
                0x07 => "u8",
                0x0c => "string",
                0x20 => "array",
                0x22 => "enum",
                0x23 => "map",
                _ => "tuple",
            };
            writeln!(out, "trav {} {} {} b:{} {}", fl, d, rng.below(2), name, hex(&bs[bs.len().min(2)..])).unwrap()
        }
        _ => writeln!(out, "trav {} {} 1 p {}", fl, d, hex(&bs)).unwrap(),
    }
}

fn gen_malformed_line(rng: &mut Rng, out: &mut dyn Write) {
    let lines = [
        "enc b 64",
        "enc x 64 bool 1",
        "enc b 64 bool 2",
        "enc b 64 u8 256",
        "enc b 64 u8 -1",
        "enc b 64 tup 2 bool 1",
        "enc b 64 bool 1 bool 1",
        "enc b 64 str ff",
        "enc b 64 ref 00",
        "enc s 64 ref 0011",
        "enc s 64 nf s 2d",
        "enc s 64 nf b -",
        "enc m 24 nf s ff",
        "enc m 24 expr 2",
        "enc b sixty bool 1",
        "dec b 64 zz",
        "dec b 64",
        "dec q 64 5b2100",
        "trav b 64 2 p 5b2100",
        "trav b 64 1 q 5b2100",
        "trav b 64 1 b:nope 00",
        "size x",
        "size -1",
        "rsize 0g",
        "utf8",
        "frobnicate 1 2 3",
    ];
    writeln!(out, "{}", rng.pick(&lines)).unwrap();
}

struct A20;
struct A21;

impl Area for A20 {
    fn gen(&self, rng: &mut Rng, n: usize, out: &mut dyn Write) {
        for _ in 0..n {
            match rng.below(100) {
                0..=39 => gen_enc_line(rng, out),
                40..=81 => gen_dec_line(rng, out),
                82..=87 => {
                    let n = match rng.below(4) {
                        0 => *rng.pick(&[0usize, 1, 127, 128, 16383, 16384, 2097151, 2097152, 268435455, 268435456, 1 << 32, usize::MAX >> 1]),
                        1 => rng.below(1 << 29) as usize,
                        2 => rng.below(70000) as usize,
                        _ => (1usize << (rng.below(30) as usize)) - rng.below(2) as usize,
                    };
                    writeln!(out, "size {}", n).unwrap()
                }
                88..=93 => {
                    let len = rng.below(7) as usize;
                    let bs: Vec<u8> = (0..len)
                        .map(|_| match rng.below(5) {
                            0 => 0x80,
                            1 => 0x00,
                            2 => 0xff,
                            3 => rng.below(128) as u8,
                            _ => rng.next() as u8,
                        })
                        .collect();
                    writeln!(out, "rsize {}", hex(&bs)).unwrap()
                }
                94..=97 => {
                    let mut bs = {
                        let mut g = G { rng: &mut *rng, customs: &[], fl: 'b', naughty: 8 };
                        g.string()
                    };
                    bs.truncate(12);
                    if rng.chance(2, 3) {
                        mutate(rng, &mut bs);
                    }
                    let lead = [0xc0u8, 0xc1, 0xc2, 0xdf, 0xe0, 0xed, 0xef, 0xf0, 0xf4, 0xf5, 0xff, 0x80, 0xbf, 0x9f, 0xa0, 0x8f, 0x90];
                    if rng.chance(1, 2) {
                        let n = 1 + rng.below(4) as usize;
                        bs = (0..n).map(|_| *rng.pick(&lead)).collect();
                    }
                    writeln!(out, "utf8 {}", hex(&bs)).unwrap()
                }
                _ => gen_malformed_line(rng, out),
            }
        }
    }
    fn runner(&self) -> Box<dyn Runner> {
        Box::new(R { prop: Prop::C20 })
    }
    fn consts(&self) -> Vec<(String, String)> {
        let mut c: Vec<(String, String)> = vec![];
        let mut put = |k: &str, v: usize| c.push((k.to_string(), v.to_string()));
        put("VALUE_KIND_BOOL", VALUE_KIND_BOOL as usize);
        put("VALUE_KIND_I8", VALUE_KIND_I8 as usize);
        put("VALUE_KIND_I16", VALUE_KIND_I16 as usize);
        put("VALUE_KIND_I32", VALUE_KIND_I32 as usize);
        put("VALUE_KIND_I64", VALUE_KIND_I64 as usize);
        put("VALUE_KIND_I128", VALUE_KIND_I128 as usize);
        put("VALUE_KIND_U8", VALUE_KIND_U8 as usize);
        put("VALUE_KIND_U16", VALUE_KIND_U16 as usize);
        put("VALUE_KIND_U32", VALUE_KIND_U32 as usize);
        put("VALUE_KIND_U64", VALUE_KIND_U64 as usize);
        put("VALUE_KIND_U128", VALUE_KIND_U128 as usize);
        put("VALUE_KIND_STRING", VALUE_KIND_STRING as usize);
        put("VALUE_KIND_ARRAY", VALUE_KIND_ARRAY as usize);
        put("VALUE_KIND_TUPLE", VALUE_KIND_TUPLE as usize);
        put("VALUE_KIND_ENUM", VALUE_KIND_ENUM as usize);
        put("VALUE_KIND_MAP", VALUE_KIND_MAP as usize);
        put("CUSTOM_VALUE_KIND_START", CUSTOM_VALUE_KIND_START as usize);
        put("BASIC_PAYLOAD_PREFIX", BASIC_SBOR_V1_PAYLOAD_PREFIX as usize);
        put("SCRYPTO_PAYLOAD_PREFIX", SCRYPTO_SBOR_V1_PAYLOAD_PREFIX as usize);
        put("MANIFEST_PAYLOAD_PREFIX", MANIFEST_SBOR_V1_PAYLOAD_PREFIX as usize);
        // the size cap is a literal inside `write_size`: find it on the compiled code by bisection
        let accepts = |n: usize| {
            let mut buf = Vec::new();
            VecEncoder::<NoCustomValueKind>::new(&mut buf, 1).write_size(n).is_ok()
        };
        let (mut lo, mut hi) = (0usize, 1usize << 40);
        while lo + 1 < hi {
            let mid = (lo + hi) / 2;
            if accepts(mid) {
                lo = mid
            } else {
                hi = mid
            }
        }
        put("SBOR_MAX_SIZE", lo);
        put("SCRYPTO_KIND_REFERENCE", ScryptoCustomValueKind::Reference.as_u8() as usize);
        put("SCRYPTO_KIND_OWN", ScryptoCustomValueKind::Own.as_u8() as usize);
        put("SCRYPTO_KIND_DECIMAL", ScryptoCustomValueKind::Decimal.as_u8() as usize);
        put("SCRYPTO_KIND_PRECISE_DECIMAL", ScryptoCustomValueKind::PreciseDecimal.as_u8() as usize);
        put("SCRYPTO_KIND_NON_FUNGIBLE_LOCAL_ID", ScryptoCustomValueKind::NonFungibleLocalId.as_u8() as usize);
        put("MANIFEST_KIND_ADDRESS", ManifestCustomValueKind::Address.as_u8() as usize);
        put("MANIFEST_KIND_BUCKET", ManifestCustomValueKind::Bucket.as_u8() as usize);
        put("MANIFEST_KIND_PROOF", ManifestCustomValueKind::Proof.as_u8() as usize);
        put("MANIFEST_KIND_EXPRESSION", ManifestCustomValueKind::Expression.as_u8() as usize);
        put("MANIFEST_KIND_BLOB", ManifestCustomValueKind::Blob.as_u8() as usize);
        put("MANIFEST_KIND_DECIMAL", ManifestCustomValueKind::Decimal.as_u8() as usize);
        put("MANIFEST_KIND_PRECISE_DECIMAL", ManifestCustomValueKind::PreciseDecimal.as_u8() as usize);
        put("MANIFEST_KIND_NON_FUNGIBLE_LOCAL_ID", ManifestCustomValueKind::NonFungibleLocalId.as_u8() as usize);
        put("MANIFEST_KIND_ADDRESS_RESERVATION", ManifestCustomValueKind::AddressReservation.as_u8() as usize);
        put("NODE_ID_LENGTH", NodeId::LENGTH);
        put("DECIMAL_SIZE", radix_common::math::Decimal::BITS / 8);
        put("PRECISE_DECIMAL_SIZE", radix_common::math::PreciseDecimal::BITS / 8);
        put("NON_FUNGIBLE_LOCAL_ID_MAX_LENGTH", NON_FUNGIBLE_LOCAL_ID_MAX_LENGTH);
        put("MANIFEST_NON_FUNGIBLE_LOCAL_ID_MAX_LENGTH", MANIFEST_NON_FUNGIBLE_LOCAL_ID_MAX_LENGTH);
        let ets: Vec<String> = (0u16..256).filter(|b| EntityType::from_repr(*b as u8).is_some()).map(|b| b.to_string()).collect();
        c.push(("ENTITY_TYPES".to_string(), format!("[{}]\traw\tList Nat", ets.join(", "))));
        c
    }
}

impl Area for A21 {
    fn gen(&self, rng: &mut Rng, n: usize, out: &mut dyn Write) {
        for _ in 0..n {
            match rng.below(100) {
                0..=39 => gen_trav_line(rng, out),
                40..=69 => gen_dec_line(rng, out),
                70..=97 => {
                    // values whose custom content is valid: depth agreement is about nesting only
                    let fl = pick_flavour(rng);
                    let toks = gen_value_tokens(rng, fl, 1_000_000);
                    let dv = tokens_depth(fl, &toks).unwrap_or(3);
                    let d = pick_depth(rng, dv, fl);
                    writeln!(out, "enc {} {} {}", fl, d, toks.join(" ")).unwrap();
                }
                _ => gen_malformed_line(rng, out),
            }
        }
    }
    fn runner(&self) -> Box<dyn Runner> {
        Box::new(R { prop: Prop::C21 })
    }
    fn consts(&self) -> Vec<(String, String)> {
        vec![
            ("BASIC_SBOR_V1_MAX_DEPTH".to_string(), BASIC_SBOR_V1_MAX_DEPTH.to_string()),
            ("SCRYPTO_SBOR_V1_MAX_DEPTH".to_string(), SCRYPTO_SBOR_V1_MAX_DEPTH.to_string()),
            ("MANIFEST_SBOR_V1_MAX_DEPTH".to_string(), MANIFEST_SBOR_V1_MAX_DEPTH.to_string()),
        ]
    }
}

fn main() {
    main_with(&[("c20", &A20), ("c21", &A21)]);
}
