//! C49 — transaction limits: op streams on the real `LimitsModule` (process_substate_key /
//! process_substate_value / process_io_access / from_params) and on the real
//! `SystemModuleMixer` (add_log / checked_add_event / set_panic_message).
use harness::util::*;
use radix_common::prelude::*;
use radix_engine::errors::{RuntimeError, SystemModuleError};
use radix_engine::system::system_modules::auth::AuthModule;
use radix_engine::system::system_modules::costing::*;
use radix_engine::system::system_modules::execution_trace::ExecutionTraceModule;
use radix_engine::system::system_modules::kernel_trace::KernelTraceModule;
use radix_engine::system::system_modules::limits::*;
use radix_engine::system::system_modules::transaction_runtime::{Event, TransactionRuntimeModule};
use radix_engine::system::system_modules::{EnabledModules, SystemModuleMixer};
use radix_engine::track::interface::{CanonicalSubstateKey, IOAccess};
use radix_engine::transaction::LimitParameters;
use radix_engine_interface::prelude::*;
use radix_engine_interface::types::IndexedScryptoValue;
use std::collections::HashMap;
use std::io::Write;

pub struct A;

const USIZE_MAX: u128 = u64::MAX as u128;

fn small_or(rng: &mut Rng, big: u64) -> u64 {
    match rng.below(10) {
        0 => 0,
        1 => 1,
        2..=6 => 30 + rng.below(400),
        7 => rng.below(40),
        _ => big,
    }
}

#[derive(Clone)]
struct GKey {
    id: u64,
    kind: char,
    len: u64,
    size: Option<u64>,
}

fn canon_len(kind: char, len: u64) -> u64 {
    31 + match kind {
        'f' => 1,
        'm' => len,
        _ => 2 + len,
    }
}

impl Area for A {
    fn gen(&self, rng: &mut Rng, n: usize, out: &mut dyn Write) {
        // from_params mapping on distinct values (stateless lines inside a case of their own)
        writeln!(out, "reset 8 100 100 10 10 10 10 10 10 2 2 1 1").unwrap();
        for _ in 0..(3 + n / 200) {
            let v: Vec<String> = (0..11).map(|_| if rng.chance(1, 6) { (u64::MAX - rng.below(3)).to_string() } else { rng.below(1 << 30).to_string() }).collect();
            writeln!(out, "fromparams {}", v.join(" ")).unwrap();
        }
        for case in 0..n {
            let max_heap = small_or(rng, 64 * 1024 * 1024);
            let max_track = small_or(rng, 64 * 1024 * 1024);
            let max_key = *rng.pick(&[0u64, 1, 2, 3, 4, 10, 33, 1024]);
            let max_value = *rng.pick(&[0u64, 3, 4, 5, 20, 130, 131, 132, 300, 2 * 1024 * 1024]);
            let max_invoke = rng.below(2000);
            let max_event = *rng.pick(&[0u64, 1, 7, 50, 32 * 1024]);
            let max_log = *rng.pick(&[0u64, 1, 7, 50, 32 * 1024]);
            let max_panic = *rng.pick(&[0u64, 1, 7, 50, 32 * 1024]);
            let max_logs = *rng.pick(&[0u64, 1, 2, 3, 5, 256]);
            let max_events = *rng.pick(&[0u64, 1, 2, 3, 5, 256]);
            let lim_on = if rng.chance(9, 10) { 1 } else { 0 };
            let rt_on = if rng.chance(9, 10) { 1 } else { 0 };
            writeln!(
                out,
                "reset {} {} {} {} {} {} {} {} {} {} {} {} {}",
                rng.below(10), max_heap, max_track, max_key, max_value, max_invoke, max_event, max_log, max_panic, max_logs, max_events, lim_on, rt_on
            )
            .unwrap();
            let wellformed = rng.chance(4, 5);
            let malformed_text = case % 97 == 96;
            let len = 1 + rng.below(50);
            let mut keys: [Vec<GKey>; 2] = [vec![], vec![]];
            let mut totals = [0u64, 0u64];
            let mut next_id = 0u64;
            for _ in 0..len {
                if malformed_text && rng.chance(1, 3) {
                    let junk = ["io h 1 m x - 3", "key q 3", "val", "io t 1 f 1 - 3", "log -1", "event 18446744073709551616", "io h 1 m 3 - 18446744073709551616", "frob 1 2", "reset 1 2 3", "key f 2", "val 2"];
                    writeln!(out, "{}", rng.pick(&junk)).unwrap();
                    continue;
                }
                match rng.below(20) {
                    0..=1 => {
                        let kind = *rng.pick(&['m', 's', 'f']);
                        let l = if kind == 'f' { 0 } else if rng.chance(1, 2) { (max_key + 2).saturating_sub(rng.below(5)) } else { rng.below(1100) };
                        writeln!(out, "key {} {}", kind, l).unwrap();
                    }
                    2..=3 => {
                        let l = if rng.chance(2, 3) { (max_value + 2).saturating_sub(rng.below(4)).max(3) } else { 3 + rng.below(400) };
                        let l = if l > 3_000_000 { 3 + rng.below(400) } else { l };
                        writeln!(out, "val {}", l).unwrap();
                    }
                    4 => writeln!(out, "io {}", if rng.chance(1, 2) { "rd" } else { "nf" }).unwrap(),
                    5..=6 => {
                        let l = if rng.chance(2, 3) { (max_log + 1).saturating_sub(rng.below(3)) } else { rng.below(100) };
                        writeln!(out, "log {}", l.min(40000)).unwrap();
                    }
                    7..=8 => {
                        let l = if rng.chance(2, 3) { (max_event + 1).saturating_sub(rng.below(3)) } else { rng.below(100) };
                        writeln!(out, "event {}", l.min(40000)).unwrap();
                    }
                    9 => {
                        let l = if rng.chance(2, 3) { (max_panic + 1).saturating_sub(rng.below(3)) } else { rng.below(100) };
                        writeln!(out, "panicmsg {}", l.min(40000)).unwrap();
                    }
                    _ => {
                        let w = rng.below(2) as usize;
                        let wc = if w == 0 { 'h' } else { 't' };
                        let max = if w == 0 { max_heap } else { max_track };
                        if !wellformed && rng.chance(1, 3) {
                            // arbitrary (possibly inconsistent / overflowing) sizes
                            let kind = *rng.pick(&['m', 's', 'f']);
                            let l = if kind == 'f' { 0 } else { rng.below(40) };
                            let mut sz = |rng: &mut Rng| -> String {
                                match rng.below(6) {
                                    0 => "-".to_string(),
                                    1 => (u64::MAX - rng.below(100)).to_string(),
                                    2 => rng.below(1 << 62).to_string(),
                                    _ => rng.below(300).to_string(),
                                }
                            };
                            let o = sz(rng);
                            let nn = sz(rng);
                            writeln!(out, "io {} {} {} {} {} {}", wc, 900 + rng.below(5), kind, l, o, nn).unwrap();
                            continue;
                        }
                        // well-formed op on the ghost table: create / update / remove
                        let ks = &mut keys[w];
                        let live: Vec<usize> = (0..ks.len()).filter(|i| ks[*i].size.is_some()).collect();
                        let choice = rng.below(10);
                        if live.is_empty() || choice < 5 {
                            // insert (new key, or a previously removed key again)
                            let dead: Vec<usize> = (0..ks.len()).filter(|i| ks[*i].size.is_none()).collect();
                            let idx = if !dead.is_empty() && rng.chance(1, 4) {
                                *rng.pick(&dead)
                            } else {
                                let kind = *rng.pick(&['m', 's', 'f']);
                                let l = if kind == 'f' { 0 } else { rng.below(40) };
                                ks.push(GKey { id: next_id, kind, len: l, size: None });
                                next_id += 1;
                                ks.len() - 1
                            };
                            let cl = canon_len(ks[idx].kind, ks[idx].len);
                            // aim at the limit: total + cl + new in {max-1, max, max+1}
                            let new = if rng.chance(1, 2) && max < (1 << 40) && max + 1 >= totals[w] + cl {
                                (max + 1 - totals[w] - cl).saturating_sub(rng.below(3))
                            } else {
                                rng.below(200)
                            };
                            let k = &mut ks[idx];
                            k.size = Some(new);
                            totals[w] += cl + new;
                            writeln!(out, "io {} {} {} {} - {}", wc, k.id, k.kind, k.len, new).unwrap();
                        } else if choice < 8 {
                            let idx = *rng.pick(&live);
                            let cl = canon_len(ks[idx].kind, ks[idx].len);
                            let old = ks[idx].size.unwrap();
                            let base = totals[w] - old;
                            let new = if rng.chance(1, 2) && max < (1 << 40) && max + 1 >= base {
                                (max + 1 - base).saturating_sub(rng.below(3))
                            } else {
                                rng.below(200)
                            };
                            let _ = cl;
                            let k = &mut ks[idx];
                            k.size = Some(new);
                            totals[w] = base + new;
                            writeln!(out, "io {} {} {} {} {} {}", wc, k.id, k.kind, k.len, old, new).unwrap();
                        } else {
                            let idx = *rng.pick(&live);
                            let cl = canon_len(ks[idx].kind, ks[idx].len);
                            let k = &mut ks[idx];
                            let old = k.size.unwrap();
                            k.size = None;
                            totals[w] -= cl + old;
                            writeln!(out, "io {} {} {} {} {} -", wc, k.id, k.kind, k.len, old).unwrap();
                        }
                    }
                }
            }
        }
    }

    fn runner(&self) -> Box<dyn Runner> {
        Box::new(R::new(cfg_of(&[0; 11]), true, true))
    }

    fn consts(&self) -> Vec<(String, String)> {
        let p = LimitParameters::babylon_genesis();
        let m = LimitsModule::babylon_genesis();
        let c = m.config();
        let mut v = vec![];
        let mut add = |k: &str, x: usize| v.push((k.to_string(), x.to_string()));
        add("P_MAX_CALL_DEPTH", p.max_call_depth);
        add("P_MAX_HEAP_SUBSTATE_TOTAL_BYTES", p.max_heap_substate_total_bytes);
        add("P_MAX_TRACK_SUBSTATE_TOTAL_BYTES", p.max_track_substate_total_bytes);
        add("P_MAX_SUBSTATE_KEY_SIZE", p.max_substate_key_size);
        add("P_MAX_SUBSTATE_VALUE_SIZE", p.max_substate_value_size);
        add("P_MAX_INVOKE_INPUT_SIZE", p.max_invoke_input_size);
        add("P_MAX_EVENT_SIZE", p.max_event_size);
        add("P_MAX_LOG_SIZE", p.max_log_size);
        add("P_MAX_PANIC_MESSAGE_SIZE", p.max_panic_message_size);
        add("P_MAX_NUMBER_OF_LOGS", p.max_number_of_logs);
        add("P_MAX_NUMBER_OF_EVENTS", p.max_number_of_events);
        add("C_MAX_CALL_DEPTH", c.max_call_depth);
        add("C_MAX_HEAP", c.max_heap_substate_total_bytes);
        add("C_MAX_TRACK", c.max_track_substate_total_bytes);
        add("C_MAX_KEY", c.max_substate_key_size);
        add("C_MAX_VALUE", c.max_substate_value_size);
        add("C_MAX_INVOKE", c.max_invoke_payload_size);
        add("C_MAX_EVENT", c.max_event_size);
        add("C_MAX_LOG", c.max_log_size);
        add("C_MAX_PANIC", c.max_panic_message_size);
        add("C_MAX_LOGS", c.max_number_of_logs);
        add("C_MAX_EVENTS", c.max_number_of_events);
        add("NODE_ID_LENGTH", NodeId::LENGTH);
        // CanonicalSubstateKey::len of a Field key, as the compiled tree computes it
        add(
            "CANON_FIELD_KEY_LEN",
            CanonicalSubstateKey { node_id: NodeId([0u8; NodeId::LENGTH]), partition_number: PartitionNumber(0), substate_key: SubstateKey::Field(0) }.len(),
        );
        v
    }
}

fn cfg_of(v: &[usize]) -> TransactionLimitsConfig {
    TransactionLimitsConfig {
        max_call_depth: v[0],
        max_heap_substate_total_bytes: v[1],
        max_track_substate_total_bytes: v[2],
        max_substate_key_size: v[3],
        max_substate_value_size: v[4],
        max_invoke_payload_size: v[5],
        max_event_size: v[6],
        max_log_size: v[7],
        max_panic_message_size: v[8],
        max_number_of_logs: v[9],
        max_number_of_events: v[10],
    }
}

fn mixer(cfg: TransactionLimitsConfig, lim_on: bool, rt_on: bool) -> SystemModuleMixer {
    let mut en = EnabledModules::empty();
    if lim_on {
        en |= EnabledModules::LIMITS;
    }
    if rt_on {
        en |= EnabledModules::TRANSACTION_RUNTIME;
    }
    let costing = CostingModule {
        config: CostingModuleConfig::babylon_genesis(),
        fee_reserve: SystemLoanFeeReserve::default(),
        fee_table: FeeTable::latest(),
        on_apply_cost: Default::default(),
        tx_payload_len: 0,
        tx_num_of_signature_validations: 0,
        cost_breakdown: None,
        detailed_cost_breakdown: None,
        current_depth: 0,
    };
    SystemModuleMixer::new(
        en,
        KernelTraceModule,
        TransactionRuntimeModule::new(NetworkDefinition::simulator(), Hash([0u8; 32])),
        AuthModule::new(),
        LimitsModule::new(cfg),
        costing,
        ExecutionTraceModule::new(1),
    )
}

struct R {
    v: Vec<usize>,
    lim_on: bool,
    rt_on: bool,
    limits: LimitsModule,
    mixer: SystemModuleMixer,
    // oracle ghost state (independent of the Lean model)
    ghost: [HashMap<u64, (usize, usize)>; 2], // id -> (canonical key len, size)
    ghost_valid: [bool; 2],
    n_logs: usize,
    n_events: usize,
}

impl R {
    fn new(_c: TransactionLimitsConfig, lim_on: bool, rt_on: bool) -> R {
        let v = vec![0usize; 11];
        R {
            limits: LimitsModule::new(cfg_of(&v)),
            mixer: mixer(cfg_of(&v), lim_on, rt_on),
            v,
            lim_on,
            rt_on,
            ghost: [HashMap::new(), HashMap::new()],
            ghost_valid: [true, true],
            n_logs: 0,
            n_events: 0,
        }
    }
}

fn leb_len(mut n: usize) -> usize {
    let mut l = 1;
    while n >= 128 {
        n >>= 7;
        l += 1;
    }
    l
}
fn leb(mut n: usize, out: &mut Vec<u8>) {
    loop {
        let b = (n & 0x7f) as u8;
        n >>= 7;
        if n == 0 {
            out.push(b);
            break;
        } else {
            out.push(b | 0x80);
        }
    }
}

/// a valid Scrypto SBOR value whose encoding is exactly `t` bytes long (t >= 3)
fn value_of_len(t: usize) -> Option<IndexedScryptoValue> {
    for (hdr, is_bytes) in [(2usize, false), (3usize, true)] {
        for l in 1..=5usize {
            if t < hdr + l {
                continue;
            }
            let n = t - hdr - l;
            if leb_len(n) != l {
                continue;
            }
            let mut b = Vec::with_capacity(t);
            b.push(0x5c);
            if is_bytes {
                b.push(0x20);
                b.push(0x07);
            } else {
                b.push(0x0c);
            }
            leb(n, &mut b);
            b.extend(std::iter::repeat(b'a').take(n));
            if let Ok(v) = IndexedScryptoValue::from_vec(b) {
                if v.len() == t {
                    return Some(v);
                }
            }
        }
    }
    None
}

fn show(e: &RuntimeError) -> String {
    match e {
        RuntimeError::SystemModuleError(SystemModuleError::TransactionLimitsError(e)) => match e {
            TransactionLimitsError::MaxSubstateKeySizeExceeded(n) => format!("err keysize {}", n),
            TransactionLimitsError::MaxSubstateSizeExceeded(n) => format!("err valuesize {}", n),
            TransactionLimitsError::MaxInvokePayloadSizeExceeded(n) => format!("err invokesize {}", n),
            TransactionLimitsError::MaxCallDepthLimitReached => "err calldepth".to_string(),
            TransactionLimitsError::TrackSubstateSizeExceeded { actual, max } => format!("err track {} {}", actual, max),
            TransactionLimitsError::HeapSubstateSizeExceeded { actual, max } => format!("err heap {} {}", actual, max),
            TransactionLimitsError::LogSizeTooLarge { actual, max } => format!("err logsize {} {}", actual, max),
            TransactionLimitsError::EventSizeTooLarge { actual, max } => format!("err eventsize {} {}", actual, max),
            TransactionLimitsError::PanicMessageSizeTooLarge { actual, max } => format!("err panicsize {} {}", actual, max),
            TransactionLimitsError::TooManyLogs => "err toomanylogs".to_string(),
            TransactionLimitsError::TooManyEvents => "err toomanyevents".to_string(),
        },
        _ => "err other".to_string(),
    }
}
fn show_r(r: &Result<(), RuntimeError>) -> String {
    match r {
        Ok(()) => "ok".to_string(),
        Err(e) => show(e),
    }
}

fn pusize(s: &str) -> Option<usize> {
    if s.is_empty() || !s.bytes().all(|b| b.is_ascii_digit()) {
        return None;
    }
    let v: u128 = s.parse().ok()?;
    if v > USIZE_MAX {
        None
    } else {
        Some(v as usize)
    }
}
fn popt(s: &str) -> Option<Option<usize>> {
    if s == "-" {
        Some(None)
    } else {
        pusize(s).map(Some)
    }
}

fn substate_key(kind: &str, len: usize) -> Option<SubstateKey> {
    match kind {
        "m" => Some(SubstateKey::Map(vec![7u8; len])),
        "s" => Some(SubstateKey::Sorted(([1, 2], vec![7u8; len]))),
        "f" if len == 0 => Some(SubstateKey::Field(3)),
        _ => None,
    }
}

impl R {
    fn expected_totals_answer(&self) -> Option<String> {
        if !(self.ghost_valid[0] && self.ghost_valid[1]) {
            return None;
        }
        let h: u128 = self.ghost[0].values().map(|(k, s)| (*k as u128 + *s as u128)).sum();
        let t: u128 = self.ghost[1].values().map(|(k, s)| (*k as u128 + *s as u128)).sum();
        Some(if h > self.v[1] as u128 {
            format!("err heap {} {}", h, self.v[1])
        } else if t > self.v[2] as u128 {
            format!("err track {} {}", t, self.v[2])
        } else {
            "ok".to_string()
        })
    }
}

impl Runner for R {
    fn step(&mut self, line: &str) -> Answer {
        let t: Vec<&str> = line.split(' ').filter(|s| !s.is_empty()).collect();
        if t.is_empty() {
            return Answer::ok("bad-op");
        }
        match t[0] {
            "reset" => {
                if t.len() != 14 {
                    return Answer::ok("bad-op");
                }
                let v: Option<Vec<usize>> = t[1..12].iter().map(|s| pusize(s)).collect();
                let (Some(v), Some(lo), Some(ro)) = (v, pb(t[12]), pb(t[13])) else { return Answer::ok("bad-op") };
                self.limits = LimitsModule::new(cfg_of(&v));
                self.mixer = mixer(cfg_of(&v), lo, ro);
                self.v = v;
                self.lim_on = lo;
                self.rt_on = ro;
                self.ghost = [HashMap::new(), HashMap::new()];
                self.ghost_valid = [true, true];
                self.n_logs = 0;
                self.n_events = 0;
                Answer::ok("ok")
            }
            "fromparams" => {
                if t.len() != 12 {
                    return Answer::ok("bad-op");
                }
                let v: Option<Vec<usize>> = t[1..12].iter().map(|s| pusize(s)).collect();
                let Some(v) = v else { return Answer::ok("bad-op") };
                let m = LimitsModule::from_params(LimitParameters {
                    max_call_depth: v[0],
                    max_heap_substate_total_bytes: v[1],
                    max_track_substate_total_bytes: v[2],
                    max_substate_key_size: v[3],
                    max_substate_value_size: v[4],
                    max_invoke_input_size: v[5],
                    max_event_size: v[6],
                    max_log_size: v[7],
                    max_panic_message_size: v[8],
                    max_number_of_logs: v[9],
                    max_number_of_events: v[10],
                });
                let c = m.config();
                let got = [
                    c.max_call_depth,
                    c.max_heap_substate_total_bytes,
                    c.max_track_substate_total_bytes,
                    c.max_substate_key_size,
                    c.max_substate_value_size,
                    c.max_invoke_payload_size,
                    c.max_event_size,
                    c.max_log_size,
                    c.max_panic_message_size,
                    c.max_number_of_logs,
                    c.max_number_of_events,
                ];
                let ans = format!("cfg {}", got.iter().map(|x| x.to_string()).collect::<Vec<_>>().join(" "));
                // oracle: each limit of the parameters must govern the homonymous check
                if got.to_vec() != v {
                    return Answer::fail(ans, "c49-fromparams-mapping", format!("from_params maps {:?} to {:?}", v, got));
                }
                Answer::ok(ans)
            }
            "key" => {
                if t.len() != 3 {
                    return Answer::ok("bad-op");
                }
                let Some(len) = pusize(t[2]) else { return Answer::ok("bad-op") };
                if len > 1 << 24 {
                    return Answer::ok("bad-op");
                }
                let Some(k) = substate_key(t[1], len) else { return Answer::ok("bad-op") };
                let r = self.limits.process_substate_key(&k);
                let ans = show_r(&r);
                // oracle: fails iff the key's byte size exceeds the limit
                let size = match t[1] {
                    "m" => len,
                    "s" => len + 2,
                    _ => 1,
                };
                if r.is_ok() != (size <= self.v[3]) {
                    return Answer::fail(ans, "c49-key-size-enforcement", format!("key size {} limit {} result ok={}", size, self.v[3], r.is_ok()));
                }
                Answer::ok(ans)
            }
            "val" => {
                if t.len() != 2 {
                    return Answer::ok("bad-op");
                }
                let Some(len) = pusize(t[1]) else { return Answer::ok("bad-op") };
                if !(3..=(1 << 25)).contains(&len) {
                    return Answer::ok("bad-op");
                }
                let Some(v) = value_of_len(len) else { return Answer::ok("bad-op") };
                let r = self.limits.process_substate_value(&v);
                let ans = show_r(&r);
                if r.is_ok() != (len <= self.v[4]) {
                    return Answer::fail(ans, "c49-value-size-enforcement", format!("value size {} limit {} result ok={}", len, self.v[4], r.is_ok()));
                }
                Answer::ok(ans)
            }
            "io" => {
                let io = if t.len() == 2 && t[1] == "rd" {
                    IOAccess::ReadFromDb(
                        CanonicalSubstateKey { node_id: NodeId([1u8; NodeId::LENGTH]), partition_number: PartitionNumber(0), substate_key: SubstateKey::Field(0) },
                        17,
                    )
                } else if t.len() == 2 && t[1] == "nf" {
                    IOAccess::ReadFromDbNotFound(CanonicalSubstateKey {
                        node_id: NodeId([1u8; NodeId::LENGTH]),
                        partition_number: PartitionNumber(0),
                        substate_key: SubstateKey::Field(0),
                    })
                } else if t.len() == 7 && (t[1] == "h" || t[1] == "t") {
                    let (Some(id), Some(len), Some(old), Some(new)) = (pusize(t[2]), pusize(t[4]), popt(t[5]), popt(t[6])) else { return Answer::ok("bad-op") };
                    if len > 1 << 24 {
                        return Answer::ok("bad-op");
                    }
                    let Some(sk) = substate_key(t[3], len) else { return Answer::ok("bad-op") };
                    let mut nid = [0u8; NodeId::LENGTH];
                    nid[..8].copy_from_slice(&(id as u64).to_le_bytes());
                    let ck = CanonicalSubstateKey { node_id: NodeId(nid), partition_number: PartitionNumber(0), substate_key: sk };
                    // oracle ghost update
                    let w = if t[1] == "h" { 0 } else { 1 };
                    let cl = ck.len();
                    let cur = self.ghost[w].get(&(id as u64)).cloned();
                    let consistent = match (cur, old) {
                        (None, None) => true,
                        (Some((kl, s)), Some(o)) => kl == cl && s == o,
                        _ => false,
                    };
                    if !consistent {
                        self.ghost_valid[w] = false;
                    } else {
                        match new {
                            Some(nw) => {
                                self.ghost[w].insert(id as u64, (cl, nw));
                            }
                            None => {
                                self.ghost[w].remove(&(id as u64));
                            }
                        }
                    }
                    if w == 0 {
                        IOAccess::HeapSubstateUpdated { canonical_substate_key: ck, old_size: old, new_size: new }
                    } else {
                        IOAccess::TrackSubstateUpdated { canonical_substate_key: ck, old_size: old, new_size: new }
                    }
                } else {
                    return Answer::ok("bad-op");
                };
                let limits = &mut self.limits;
                let r = catch(|| limits.process_io_access(&io));
                let ans = match &r {
                    Ok(r) => show_r(r),
                    Err(_) => "panic".to_string(),
                };
                if r.is_err() {
                    // after a panic the counters are in a partially-updated state
                    if self.ghost_valid[0] && self.ghost_valid[1] {
                        // well-formed stream so far: sums are < 2^64 here only if sizes were huge
                        let tot: u128 = self.ghost.iter().flat_map(|g| g.values()).map(|(k, s)| (*k as u128 + *s as u128)).sum();
                        self.ghost_valid = [false, false];
                        if tot < (1u128 << 63) {
                            return Answer::fail(ans, "c49-io-counter-panic-on-wellformed-stream", format!("counter arithmetic panicked on a well-formed IOAccess stream (live total {})", tot));
                        }
                    }
                    self.ghost_valid = [false, false];
                    return Answer::ok(ans);
                }
                if let Some(exp) = self.expected_totals_answer() {
                    if exp != ans {
                        return Answer::fail(ans.clone(), "c49-io-total-enforcement", format!("live substate totals imply `{}` but the module answered `{}`", exp, ans));
                    }
                }
                Answer::ok(ans)
            }
            "log" | "event" | "panicmsg" => {
                if t.len() != 2 {
                    return Answer::ok("bad-op");
                }
                let Some(len) = pusize(t[1]) else { return Answer::ok("bad-op") };
                if len > 1 << 22 {
                    return Answer::ok("bad-op");
                }
                match t[0] {
                    "log" => {
                        let r = self.mixer.add_log(Level::Info, "x".repeat(len));
                        let ans = show_r(&r);
                        let expect_ok = !self.lim_on || (self.n_logs < self.v[9] && len <= self.v[7]);
                        if r.is_ok() && self.rt_on {
                            self.n_logs += 1;
                        }
                        if r.is_ok() != expect_ok {
                            return Answer::fail(ans, "c49-log-enforcement", format!("log #{} of {} bytes, limits {} logs / {} bytes, ok={}", self.n_logs, len, self.v[9], self.v[7], r.is_ok()));
                        }
                        Answer::ok(ans)
                    }
                    "event" => {
                        let ev = Event {
                            type_identifier: EventTypeIdentifier(Emitter::Method(NodeId([2u8; NodeId::LENGTH]), ModuleId::Main), "E".to_string()),
                            payload: vec![0u8; len],
                            flags: EventFlags::empty(),
                        };
                        let r = self.mixer.checked_add_event(ev);
                        let ans = show_r(&r);
                        let expect_ok = !self.lim_on || (self.n_events < self.v[10] && len <= self.v[6]);
                        if r.is_ok() && self.rt_on {
                            self.n_events += 1;
                        }
                        if r.is_ok() != expect_ok {
                            return Answer::fail(ans, "c49-event-enforcement", format!("event #{} of {} bytes, limits {} events / {} bytes, ok={}", self.n_events, len, self.v[10], self.v[6], r.is_ok()));
                        }
                        Answer::ok(ans)
                    }
                    _ => {
                        let r = self.mixer.set_panic_message("p".repeat(len));
                        let ans = show_r(&r);
                        let expect_ok = !self.lim_on || len <= self.v[8];
                        if r.is_ok() != expect_ok {
                            return Answer::fail(ans, "c49-panic-message-enforcement", format!("panic message of {} bytes, limit {}, ok={}", len, self.v[8], r.is_ok()));
                        }
                        Answer::ok(ans)
                    }
                }
            }
            _ => Answer::ok("bad-op"),
        }
    }
}

fn pb(s: &str) -> Option<bool> {
    match s {
        "1" => Some(true),
        "0" => Some(false),
        _ => None,
    }
}

fn main() {
    main_with(&[("c49", &A)]);
}
