//! C30 — decompiled manifests compile back to the same manifest.
//!
//! Area `c30` (value sub-language, with Lean driver; stateless):
//!   val <hex manifest-SBOR of a ManifestValue> <model form of the same value>
//!        -> <hex of the text the real decompiler prints> rt=<ok|lex|parse|gen|neq>
//!      The real side: `format_manifest_value` in the decompiler's display context (multi-line 4/4,
//!      bech32 simulator encoder, default object names), then `tokenize` → `Parser::parse_value` →
//!      `generator::generate_value` with a name resolver holding the default names; `rt=ok` iff the
//!      generated value equals the original.  The model form spells the same value for the Lean
//!      side (custom leaves carry the text the real formatter prints for them).
//! Area `c30m` (whole manifests of all four kinds, oracle only; stateless):
//!   man <v1|sys|v2|sub> <hex manifest-SBOR of the manifest>
//!        -> ok n=<instructions> | decompile-err | undecodable
//!      oracle: compile(decompile(m)) succeeds and equals m in instructions, blobs, preallocated
//!      addresses, children and the names of all named objects.
use harness::util::*;
use radix_common::prelude::*;
use radix_engine_interface::prelude::*;
use radix_transactions::data::*;
use radix_transactions::manifest::generator::{generate_value, NameResolver};
use radix_transactions::manifest::lexer::tokenize;
use radix_transactions::manifest::parser::{Parser, PARSER_MAX_DEPTH};
use radix_transactions::manifest::*;
use radix_transactions::prelude::*;
use std::io::Write;

pub struct AV;
pub struct AM;

const N_IDS: u32 = 4;

// ---------------------------------------------------------------- value generator
fn entity_bytes() -> Vec<u8> {
    // first bytes of real well-known addresses give valid entity types
    vec![
        XRD.as_node_id().0[0],
        PACKAGE_PACKAGE.as_node_id().0[0],
        FAUCET.as_node_id().0[0],
        CONSENSUS_MANAGER.as_node_id().0[0],
        ACCOUNT_OWNER_BADGE.as_node_id().0[0],
        GENESIS_HELPER.as_node_id().0[0],
    ]
}

fn gen_node_id(rng: &mut Rng) -> NodeId {
    match rng.below(8) {
        0 => *XRD.as_node_id(),
        1 => *FAUCET.as_node_id(),
        2 => *PACKAGE_PACKAGE.as_node_id(),
        3 => *CONSENSUS_MANAGER.as_node_id(),
        4 => *ACCOUNT_OWNER_BADGE.as_node_id(),
        _ => {
            let mut b = [0u8; 30];
            let r = rng.bytes(30);
            b.copy_from_slice(&r);
            b[0] = *rng.pick(&entity_bytes());
            NodeId(b)
        }
    }
}

fn gen_string(rng: &mut Rng) -> String {
    let mut s = String::new();
    let n = match rng.below(5) {
        0 => 0,
        1 => 1,
        _ => rng.below(12),
    };
    for _ in 0..n {
        let c = match rng.below(12) {
            0 => *rng.pick(&['"', '\\', '/', '\n', '\r', '\t', '\u{8}', '\u{c}']),
            1 => char::from_u32(rng.below(0x20) as u32).unwrap(),
            2 => *rng.pick(&['\u{7f}', '\u{80}', '\u{9f}', '\u{a0}', '\u{ad}', '\u{300}', '\u{202e}', '\u{2028}', '\u{feff}', '\u{fffd}', '\u{ffff}', '\u{d7ff}', '\u{e000}']),
            3 => *rng.pick(&['\u{10000}', '\u{1f600}', '\u{e0001}', '\u{10ffff}', '\u{1d173}', '\u{f0000}']),
            4 => char::from_u32(rng.below(0x110000) as u32).unwrap_or('x'),
            5 => *rng.pick(&['é', 'ß', '中', '€', '\'', '#', ';', '(', ')', '<', '>', ',', '=']),
            _ => (0x20u8 + rng.below(0x5f) as u8) as char,
        };
        s.push(c);
    }
    s
}

fn gen_local_id(rng: &mut Rng) -> ManifestNonFungibleLocalId {
    match rng.below(4) {
        0 => ManifestNonFungibleLocalId::Integer(match rng.below(3) {
            0 => 0,
            1 => u64::MAX,
            _ => rng.next(),
        }),
        1 => {
            let big = rng.chance(1, 5);
            let n = 1 + rng.below(if big { 64 } else { 8 }) as usize;
            let s: String = (0..n).map(|_| *rng.pick(&['a', 'Z', '0', '9', '_', 'q'])).collect();
            ManifestNonFungibleLocalId::String(s)
        }
        2 => {
            let big = rng.chance(1, 5);
            let n = 1 + rng.below(if big { 64 } else { 6 }) as usize;
            ManifestNonFungibleLocalId::Bytes(rng.bytes(n))
        }
        _ => {
            let mut b = [0u8; 32];
            b.copy_from_slice(&rng.bytes(32));
            ManifestNonFungibleLocalId::RUID(b)
        }
    }
}

fn gen_decimal_bytes(rng: &mut Rng, n: usize) -> Vec<u8> {
    match rng.below(6) {
        0 => vec![0u8; n],
        1 => {
            let mut v = vec![0xffu8; n];
            v[n - 1] = 0x7f;
            v
        }
        2 => {
            let mut v = vec![0u8; n];
            v[n - 1] = 0x80;
            v
        }
        3 => {
            let mut v = vec![0u8; n];
            v[0] = rng.next() as u8;
            v[1] = rng.next() as u8;
            v
        }
        4 => vec![0xffu8; n],
        _ => rng.bytes(n),
    }
}

fn gen_custom(rng: &mut Rng, kind: ManifestCustomValueKind) -> ManifestCustomValue {
    match kind {
        ManifestCustomValueKind::Address => {
            if rng.chance(1, 5) {
                ManifestCustomValue::Address(ManifestAddress::Named(ManifestNamedAddress(rng.below(N_IDS as u64) as u32)))
            } else {
                ManifestCustomValue::Address(ManifestAddress::Static(gen_node_id(rng)))
            }
        }
        ManifestCustomValueKind::Bucket => ManifestCustomValue::Bucket(ManifestBucket(rng.below(N_IDS as u64) as u32)),
        ManifestCustomValueKind::Proof => ManifestCustomValue::Proof(ManifestProof(rng.below(N_IDS as u64) as u32)),
        ManifestCustomValueKind::AddressReservation => ManifestCustomValue::AddressReservation(ManifestAddressReservation(rng.below(N_IDS as u64) as u32)),
        ManifestCustomValueKind::Expression => ManifestCustomValue::Expression(if rng.chance(1, 2) { ManifestExpression::EntireWorktop } else { ManifestExpression::EntireAuthZone }),
        ManifestCustomValueKind::Blob => {
            let mut b = [0u8; 32];
            b.copy_from_slice(&rng.bytes(32));
            ManifestCustomValue::Blob(ManifestBlobRef(b))
        }
        ManifestCustomValueKind::Decimal => {
            let mut b = [0u8; 24];
            b.copy_from_slice(&gen_decimal_bytes(rng, 24));
            ManifestCustomValue::Decimal(ManifestDecimal(b))
        }
        ManifestCustomValueKind::PreciseDecimal => {
            let mut b = [0u8; 32];
            b.copy_from_slice(&gen_decimal_bytes(rng, 32));
            ManifestCustomValue::PreciseDecimal(ManifestPreciseDecimal(b))
        }
        ManifestCustomValueKind::NonFungibleLocalId => ManifestCustomValue::NonFungibleLocalId(gen_local_id(rng)),
    }
}

const CUSTOM_KINDS: &[ManifestCustomValueKind] = &[
    ManifestCustomValueKind::Address,
    ManifestCustomValueKind::Bucket,
    ManifestCustomValueKind::Proof,
    ManifestCustomValueKind::Expression,
    ManifestCustomValueKind::Blob,
    ManifestCustomValueKind::Decimal,
    ManifestCustomValueKind::PreciseDecimal,
    ManifestCustomValueKind::NonFungibleLocalId,
    ManifestCustomValueKind::AddressReservation,
];

fn all_kinds() -> Vec<ManifestValueKind> {
    let mut v = vec![
        ValueKind::Bool, ValueKind::I8, ValueKind::I16, ValueKind::I32, ValueKind::I64, ValueKind::I128, ValueKind::U8, ValueKind::U16, ValueKind::U32, ValueKind::U64, ValueKind::U128,
        ValueKind::String, ValueKind::Enum, ValueKind::Array, ValueKind::Tuple, ValueKind::Map,
    ];
    for k in CUSTOM_KINDS {
        v.push(ValueKind::Custom(*k));
    }
    v
}

fn gen_kind(rng: &mut Rng, depth: usize) -> ManifestValueKind {
    let ks = all_kinds();
    loop {
        let k = *rng.pick(&ks);
        let composite = matches!(k, ValueKind::Enum | ValueKind::Array | ValueKind::Tuple | ValueKind::Map);
        if depth == 0 && composite {
            continue;
        }
        return k;
    }
}

fn gen_of_kind(rng: &mut Rng, kind: ManifestValueKind, depth: usize) -> ManifestValue {
    let r0 = rng.next();
    let small = |rng: &mut Rng| -> usize { [0usize, 1, 1, 2, 2, 3][rng.below(6) as usize] };
    match kind {
        ValueKind::Bool => Value::Bool { value: rng.chance(1, 2) },
        ValueKind::I8 => Value::I8 { value: *rng.pick(&[0i8, -1, 1, i8::MIN, i8::MAX, 42]) },
        ValueKind::I16 => Value::I16 { value: *rng.pick(&[0i16, -1, i16::MIN, i16::MAX, 300]) },
        ValueKind::I32 => Value::I32 { value: *rng.pick(&[0i32, -1, i32::MIN, i32::MAX, 70000]) },
        ValueKind::I64 => Value::I64 { value: *rng.pick(&[0i64, -1, i64::MIN, i64::MAX, r0 as i64]) },
        ValueKind::I128 => Value::I128 { value: *rng.pick(&[0i128, -1, i128::MIN, i128::MAX, (r0 as i128) << 40]) },
        ValueKind::U8 => Value::U8 { value: *rng.pick(&[0u8, 1, 255, 128, r0 as u8]) },
        ValueKind::U16 => Value::U16 { value: *rng.pick(&[0u16, u16::MAX, 256]) },
        ValueKind::U32 => Value::U32 { value: *rng.pick(&[0u32, u32::MAX, 65536]) },
        ValueKind::U64 => Value::U64 { value: *rng.pick(&[0u64, u64::MAX, r0]) },
        ValueKind::U128 => Value::U128 { value: *rng.pick(&[0u128, u128::MAX, (r0 as u128) << 50]) },
        ValueKind::String => Value::String { value: gen_string(rng) },
        ValueKind::Enum => {
            let n = small(rng);
            Value::Enum { discriminator: *rng.pick(&[0u8, 1, 2, 255, r0 as u8]), fields: (0..n).map(|_| gen_value(rng, depth.saturating_sub(1))).collect() }
        }
        ValueKind::Tuple => {
            if rng.chance(1, 6) {
                // the NonFungibleGlobalId shape
                let addr = if rng.chance(3, 4) { *XRD.as_node_id() } else { gen_node_id(rng) };
                return Value::Tuple {
                    fields: vec![
                        Value::Custom { value: ManifestCustomValue::Address(ManifestAddress::Static(addr)) },
                        Value::Custom { value: ManifestCustomValue::NonFungibleLocalId(gen_local_id(rng)) },
                    ],
                };
            }
            let n = small(rng);
            Value::Tuple { fields: (0..n).map(|_| gen_value(rng, depth.saturating_sub(1))).collect() }
        }
        ValueKind::Array => {
            let ek = gen_kind(rng, depth.saturating_sub(1));
            let n = small(rng);
            Value::Array { element_value_kind: ek, elements: (0..n).map(|_| gen_of_kind(rng, ek, depth.saturating_sub(1))).collect() }
        }
        ValueKind::Map => {
            let kk = gen_kind(rng, depth.saturating_sub(1));
            let vk = gen_kind(rng, depth.saturating_sub(1));
            let n = small(rng);
            Value::Map {
                key_value_kind: kk,
                value_value_kind: vk,
                entries: (0..n).map(|_| (gen_of_kind(rng, kk, depth.saturating_sub(1)), gen_of_kind(rng, vk, depth.saturating_sub(1)))).collect(),
            }
        }
        ValueKind::Custom(k) => Value::Custom { value: gen_custom(rng, k) },
    }
}

fn gen_value(rng: &mut Rng, depth: usize) -> ManifestValue {
    let k = gen_kind(rng, depth);
    gen_of_kind(rng, k, depth)
}

/// nest `v` under `d` single-child containers
fn nest(rng: &mut Rng, mut v: ManifestValue, d: usize) -> ManifestValue {
    for _ in 0..d {
        v = match rng.below(3) {
            0 => Value::Tuple { fields: vec![v] },
            1 => Value::Enum { discriminator: 1, fields: vec![v] },
            _ => Value::Tuple { fields: vec![Value::U8 { value: 1 }, v] },
        };
    }
    v
}

// ---------------------------------------------------------------- model form of a value
fn kind_code(k: &ManifestValueKind) -> usize {
    all_kinds().iter().position(|x| x == k).unwrap()
}

fn leaf_text(v: &ManifestCustomValue, enc: &AddressBech32Encoder) -> String {
    let ctx = ManifestDecompilationDisplayContext::with_optional_bech32(Some(enc));
    let mut s = String::new();
    format_custom_value(&mut s, v, &ctx, false, 0).unwrap();
    // Name("content")
    let a = s.find("(\"").unwrap() + 2;
    let b = s.rfind("\")").unwrap();
    s[a..b].to_string()
}

fn wrap_name(v: &ManifestCustomValue) -> &'static str {
    match v {
        ManifestCustomValue::Address(ManifestAddress::Static(_)) => "Address",
        ManifestCustomValue::Address(ManifestAddress::Named(_)) => "NamedAddress",
        ManifestCustomValue::Bucket(_) => "Bucket",
        ManifestCustomValue::Proof(_) => "Proof",
        ManifestCustomValue::AddressReservation(_) => "AddressReservation",
        ManifestCustomValue::Expression(_) => "Expression",
        ManifestCustomValue::Blob(_) => "Blob",
        ManifestCustomValue::Decimal(_) => "Decimal",
        ManifestCustomValue::PreciseDecimal(_) => "PreciseDecimal",
        ManifestCustomValue::NonFungibleLocalId(_) => "NonFungibleLocalId",
    }
}

fn model_form(v: &ManifestValue, enc: &AddressBech32Encoder, out: &mut String) {
    match v {
        Value::Bool { value } => out.push_str(if *value { "b1" } else { "b0" }),
        Value::I8 { value } => out.push_str(&format!("ni8:{};", value)),
        Value::I16 { value } => out.push_str(&format!("ni16:{};", value)),
        Value::I32 { value } => out.push_str(&format!("ni32:{};", value)),
        Value::I64 { value } => out.push_str(&format!("ni64:{};", value)),
        Value::I128 { value } => out.push_str(&format!("ni128:{};", value)),
        Value::U8 { value } => out.push_str(&format!("nu8:{};", value)),
        Value::U16 { value } => out.push_str(&format!("nu16:{};", value)),
        Value::U32 { value } => out.push_str(&format!("nu32:{};", value)),
        Value::U64 { value } => out.push_str(&format!("nu64:{};", value)),
        Value::U128 { value } => out.push_str(&format!("nu128:{};", value)),
        Value::String { value } => out.push_str(&format!("s{};", hex(value.as_bytes()))),
        Value::Enum { discriminator, fields } => {
            out.push_str(&format!("e{}:{}:", discriminator, fields.len()));
            for f in fields {
                model_form(f, enc, out);
            }
        }
        Value::Array { element_value_kind, elements } => {
            out.push_str(&format!("a{}:{}:", kind_code(element_value_kind), elements.len()));
            for f in elements {
                model_form(f, enc, out);
            }
        }
        Value::Tuple { fields } => {
            out.push_str(&format!("t{}:", fields.len()));
            for f in fields {
                model_form(f, enc, out);
            }
        }
        Value::Map { key_value_kind, value_value_kind, entries } => {
            out.push_str(&format!("m{}:{}:{}:", kind_code(key_value_kind), kind_code(value_value_kind), entries.len()));
            for (k, v) in entries {
                model_form(k, enc, out);
                model_form(v, enc, out);
            }
        }
        Value::Custom { value } => {
            let is_res = match value {
                ManifestCustomValue::Address(ManifestAddress::Static(n)) => ResourceAddress::try_from(n.0.as_ref()).is_ok(),
                _ => false,
            };
            out.push_str(&format!("c{}:{}:{};", wrap_name(value), if is_res { 1 } else { 0 }, hex(leaf_text(value, enc).as_bytes())));
        }
    }
}

// ---------------------------------------------------------------- value runner
pub struct RV {
    network: NetworkDefinition,
}

fn default_resolver() -> NameResolver {
    let mut r = NameResolver::new();
    for i in 0..N_IDS {
        r.insert_bucket(format!("bucket{}", i + 1), ManifestBucket(i)).unwrap();
        r.insert_proof(format!("proof{}", i + 1), ManifestProof(i)).unwrap();
        r.insert_address_reservation(format!("reservation{}", i + 1), ManifestAddressReservation(i)).unwrap();
        r.insert_named_address(format!("address{}", i + 1), ManifestNamedAddress(i)).unwrap();
    }
    r
}

impl Runner for RV {
    fn step(&mut self, line: &str) -> Answer {
        let w: Vec<&str> = line.split(' ').filter(|x| !x.is_empty()).collect();
        let (h, form) = match w.as_slice() {
            ["val", h, form] => (*h, *form),
            _ => return Answer::ok("bad-op"),
        };
        let value: ManifestValue = match unhex(h).and_then(|b| manifest_decode::<ManifestValue>(&b).ok()) {
            Some(v) => v,
            None => return Answer::ok("bad-op"),
        };
        let enc = AddressBech32Encoder::new(&self.network);
        let dec = AddressBech32Decoder::new(&self.network);
        // the model form must describe this value (guards against a stale/hand-edited line)
        let mut f2 = String::new();
        model_form(&value, &enc, &mut f2);
        if f2 != form {
            return Answer::ok("bad-op");
        }
        let ctx = ManifestDecompilationDisplayContext::with_optional_bech32(Some(&enc)).with_multi_line(4, 4);
        let printed = catch(|| {
            let mut s = String::new();
            format_manifest_value(&mut s, &value, &ctx, true, 0).map(|_| s)
        });
        let text = match printed {
            Err(m) => return Answer::fail("panic", "print-panic", format!("format_manifest_value panicked: {}", m)),
            Ok(Err(_)) => return Answer::ok("print-err"),
            Ok(Ok(s)) => s,
        };
        let rt = catch(|| -> &'static str {
            let toks = match tokenize(&text) {
                Ok(t) => t,
                Err(_) => return "lex",
            };
            let mut p = match Parser::new(toks, PARSER_MAX_DEPTH) {
                Ok(p) => p,
                Err(_) => return "parse",
            };
            let ast = match p.parse_value() {
                Ok(a) => a,
                Err(_) => return "parse",
            };
            if !p.is_eof() {
                return "parse";
            }
            let mut resolver = default_resolver();
            match generate_value(&ast, None, &mut resolver, &dec, &MockBlobProvider::new()) {
                Ok(v2) => {
                    if v2 == value {
                        "ok"
                    } else {
                        "neq"
                    }
                }
                Err(_) => "gen",
            }
        });
        let ans_rt = match &rt {
            Ok(s) => s.to_string(),
            Err(_) => "panic".to_string(),
        };
        let ans = format!("{} rt={}", hex(text.as_bytes()), ans_rt);
        match rt {
            Err(m) => Answer::fail(ans, "value-compile-panic", format!("compiling the printed value panicked: {}", m)),
            Ok("ok") => Answer::ok(ans),
            Ok(stage) => {
                let (sd, td) = depths(&value);
                let key = if stage == "parse" && sd <= PARSER_MAX_DEPTH && td == PARSER_MAX_DEPTH + 1 { "value-roundtrip:depth:string-wrapped-leaf-at-max-depth".to_string() } else { format!("value-roundtrip:{}", stage) };
                Answer::fail(ans, key, format!("printed value does not compile back to the same value (stage {}, SBOR depth {}, text depth {}): {}", stage, sd, td, text.replace('\n', " ")))
            }
        }
    }
}

impl Area for AV {
    fn gen(&self, rng: &mut Rng, n: usize, out: &mut dyn Write) {
        let network = NetworkDefinition::simulator();
        let enc = AddressBech32Encoder::new(&network);
        let mut i = 0;
        while i < n {
            let v = match rng.below(12) {
                0 => gen_value(rng, 0),
                1 => Value::String { value: gen_string(rng) },
                2 => {
                    let d = [15usize, 17, 18, 19][rng.below(4) as usize];
                    let leaf = gen_value(rng, 0);
                    nest(rng, leaf, d)
                }
                3 => gen_value(rng, 5),
                _ => gen_value(rng, 3),
            };
            let enc_bytes = match manifest_encode(&v) {
                Ok(b) => b,
                Err(_) => continue,
            };
            // only values the manifest codec itself accepts (well-formed custom content)
            if manifest_decode::<ManifestValue>(&enc_bytes).is_err() {
                continue;
            }
            let mut form = String::new();
            model_form(&v, &enc, &mut form);
            writeln!(out, "val {} {}", hex(&enc_bytes), form).unwrap();
            i += 1;
        }
    }
    fn runner(&self) -> Box<dyn Runner> {
        Box::new(RV { network: NetworkDefinition::simulator() })
    }
    fn consts(&self) -> Vec<(String, String)> {
        let ks: Vec<String> = all_kinds().iter().map(|k| format!("\"{}\"", format_value_kind(k))).collect();
        // the Unicode table behind ManifestCustomCharEscaper, as maximal ranges of code points
        let mut ranges: Vec<(u32, u32)> = vec![];
        let mut cur: Option<(u32, u32)> = None;
        for cp in 0u32..=0x10FFFF {
            let esc = match char::from_u32(cp) {
                Some(c) => radix_rust::unicode::rust_1_81_should_unicode_escape_in_debug_str(c),
                None => false,
            };
            match (esc, cur) {
                (true, None) => cur = Some((cp, cp)),
                (true, Some((a, _))) => cur = Some((a, cp)),
                (false, Some(r)) => {
                    ranges.push(r);
                    cur = None;
                }
                (false, None) => {}
            }
        }
        if let Some(r) = cur {
            ranges.push(r);
        }
        let rs: Vec<String> = ranges.iter().map(|(a, b)| format!("({}, {})", a, b)).collect();
        vec![
            ("escapeRanges".to_string(), format!("[{}]\traw\tList (Nat × Nat)", rs.join(", "))),
            ("kindNames".to_string(), format!("[{}]\traw\tList String", ks.join(", "))),
            ("OPTION_VARIANT_NONE".to_string(), OPTION_VARIANT_NONE.to_string()),
            ("OPTION_VARIANT_SOME".to_string(), OPTION_VARIANT_SOME.to_string()),
            ("RESULT_VARIANT_OK".to_string(), RESULT_VARIANT_OK.to_string()),
            ("RESULT_VARIANT_ERR".to_string(), RESULT_VARIANT_ERR.to_string()),
        ]
    }
}

// ---------------------------------------------------------------- manifest level
fn odd_name(rng: &mut Rng, base: &str, i: usize) -> String {
    match rng.below(10) {
        0 => format!("{}{} é", base, i),
        1 => format!("{}-{}", base, i),
        2 => format!("{} {}", base, i),
        3 => format!("{}\"{}", base, i),
        4 => format!("{}\\{}", base, i),
        _ => format!("{}{}", base, i + 1),
    }
}

struct Ids {
    buckets: u32,
    proofs: u32,
    reservations: u32,
    addresses: u32,
    live_buckets: Vec<u32>,
    /// (proof id, bucket it locks)
    live_proofs: Vec<(u32, Option<u32>)>,
}

fn args_tuple(rng: &mut Rng) -> ManifestValue {
    let n = rng.below(4) as usize;
    let deep = rng.chance(1, 40);
    Value::Tuple {
        fields: (0..n)
            .map(|_| {
                if deep {
                    let d = [17usize, 18, 19][rng.below(3) as usize];
                    let leaf = gen_plain_value(rng, 0);
                    nest(rng, leaf, d)
                } else {
                    gen_plain_value(rng, 3)
                }
            })
            .collect(),
    }
}

/// values without buckets/proofs/reservations/named addresses (their ids are tracked by the
/// manifest validator; arbitrary ones would make the manifest itself invalid)
fn gen_plain_value(rng: &mut Rng, depth: usize) -> ManifestValue {
    fn scrub(v: ManifestValue) -> ManifestValue {
        match v {
            Value::Custom { value: ManifestCustomValue::Bucket(_) } | Value::Custom { value: ManifestCustomValue::Proof(_) } | Value::Custom { value: ManifestCustomValue::AddressReservation(_) } | Value::Custom { value: ManifestCustomValue::Blob(_) } => Value::Custom { value: ManifestCustomValue::Expression(ManifestExpression::EntireWorktop) },
            Value::Custom { value: ManifestCustomValue::Address(ManifestAddress::Named(_)) } => Value::Custom { value: ManifestCustomValue::Address(ManifestAddress::Static(*XRD.as_node_id())) },
            Value::Enum { discriminator, fields } => Value::Enum { discriminator, fields: fields.into_iter().map(scrub).collect() },
            Value::Tuple { fields } => Value::Tuple { fields: fields.into_iter().map(scrub).collect() },
            Value::Array { element_value_kind, elements } => {
                let ek = match element_value_kind {
                    ValueKind::Custom(ManifestCustomValueKind::Bucket) | ValueKind::Custom(ManifestCustomValueKind::Proof) | ValueKind::Custom(ManifestCustomValueKind::AddressReservation) | ValueKind::Custom(ManifestCustomValueKind::Blob) => ValueKind::Custom(ManifestCustomValueKind::Expression),
                    k => k,
                };
                Value::Array { element_value_kind: ek, elements: elements.into_iter().map(scrub).collect() }
            }
            Value::Map { key_value_kind, value_value_kind, entries } => {
                let fix = |k: ManifestValueKind| match k {
                    ValueKind::Custom(ManifestCustomValueKind::Bucket) | ValueKind::Custom(ManifestCustomValueKind::Proof) | ValueKind::Custom(ManifestCustomValueKind::AddressReservation) | ValueKind::Custom(ManifestCustomValueKind::Blob) => ValueKind::Custom(ManifestCustomValueKind::Expression),
                    k => k,
                };
                Value::Map { key_value_kind: fix(key_value_kind), value_value_kind: fix(value_value_kind), entries: entries.into_iter().map(|(k, v)| (scrub(k), scrub(v))).collect() }
            }
            v => v,
        }
    }
    scrub(gen_value(rng, depth))
}

fn global_address(rng: &mut Rng) -> GlobalAddress {
    loop {
        if let Ok(a) = GlobalAddress::try_from(gen_node_id(rng).0.as_ref()) {
            return a;
        }
    }
}

fn method_name(rng: &mut Rng) -> String {
    match rng.below(3) {
        0 => rng.pick(&["claim_royalties", "mint", "mint_ruid", "create_validator", "set", "remove", "lock", "set_royalty", "lock_royalty", "set_owner_role", "lock_owner_role", "set_role", "get", "recall", "freeze", "unfreeze", "recall_non_fungibles", "publish_wasm", "publish_wasm_advanced", "create", "create_advanced", "create_with_initial_supply"]).to_string(),
        1 => gen_string(rng),
        _ => format!("m{}", rng.below(5)),
    }
}

fn gen_common_v1(rng: &mut Rng, ids: &mut Ids) -> InstructionV1 {
    loop {
        match rng.below(16) {
            0 => {
                ids.live_buckets.push(ids.buckets);
                ids.buckets += 1;
                return InstructionV1::TakeAllFromWorktop(TakeAllFromWorktop { resource_address: XRD });
            }
            1 => {
                ids.live_buckets.push(ids.buckets);
                ids.buckets += 1;
                let mut b = [0u8; 24];
                b.copy_from_slice(&gen_decimal_bytes(rng, 24));
                return InstructionV1::TakeFromWorktop(TakeFromWorktop { resource_address: XRD, amount: radix_transactions::data::to_decimal(ManifestDecimal(b)) });
            }
            2 => {
                let free: Vec<u32> = ids.live_buckets.iter().copied().filter(|b| !ids.live_proofs.iter().any(|(_, l)| *l == Some(*b))).collect();
                if let Some(b) = free.last().copied() {
                    ids.live_buckets.retain(|x| *x != b);
                    return InstructionV1::ReturnToWorktop(ReturnToWorktop { bucket_id: ManifestBucket(b) });
                }
            }
            3 => {
                if let Some(b) = ids.live_buckets.last().copied() {
                    ids.live_proofs.push((ids.proofs, Some(b)));
                    ids.proofs += 1;
                    return InstructionV1::CreateProofFromBucketOfAll(CreateProofFromBucketOfAll { bucket_id: ManifestBucket(b) });
                }
            }
            4 => {
                ids.live_proofs.push((ids.proofs, None));
                ids.proofs += 1;
                return InstructionV1::PopFromAuthZone(PopFromAuthZone);
            }
            5 => {
                if let Some((p, _)) = ids.live_proofs.pop() {
                    return InstructionV1::DropProof(DropProof { proof_id: ManifestProof(p) });
                }
            }
            6 => {
                ids.reservations += 1;
                ids.addresses += 1;
                return InstructionV1::AllocateGlobalAddress(AllocateGlobalAddress { package_address: PACKAGE_PACKAGE, blueprint_name: gen_string(rng) });
            }
            7 | 8 | 9 => {
                let address = if ids.addresses > 0 && rng.chance(1, 5) { ManifestGlobalAddress::Named(ManifestNamedAddress(rng.below(ids.addresses as u64) as u32)) } else { ManifestGlobalAddress::Static(global_address(rng)) };
                return InstructionV1::CallMethod(CallMethod { address, method_name: method_name(rng), args: args_tuple(rng) });
            }
            10 => {
                let pkg = *rng.pick(&[PACKAGE_PACKAGE, ACCOUNT_PACKAGE, IDENTITY_PACKAGE, RESOURCE_PACKAGE, ACCESS_CONTROLLER_PACKAGE, FAUCET_PACKAGE]);
                let bp = rng.pick(&["Package", "Account", "Identity", "FungibleResourceManager", "NonFungibleResourceManager", "AccessController", "Faucet"]).to_string();
                return InstructionV1::CallFunction(CallFunction { package_address: ManifestPackageAddress::Static(pkg), blueprint_name: bp, function_name: method_name(rng), args: args_tuple(rng) });
            }
            11 => return InstructionV1::CallRoyaltyMethod(CallRoyaltyMethod { address: ManifestGlobalAddress::Static(global_address(rng)), method_name: method_name(rng), args: args_tuple(rng) }),
            12 => return InstructionV1::CallMetadataMethod(CallMetadataMethod { address: ManifestGlobalAddress::Static(global_address(rng)), method_name: method_name(rng), args: args_tuple(rng) }),
            13 => return InstructionV1::CallRoleAssignmentMethod(CallRoleAssignmentMethod { address: ManifestGlobalAddress::Static(global_address(rng)), method_name: method_name(rng), args: args_tuple(rng) }),
            14 => {
                ids.live_proofs.clear();
                return InstructionV1::DropAllProofs(DropAllProofs);
            }
            _ => return InstructionV1::AssertWorktopContainsAny(AssertWorktopContainsAny { resource_address: XRD }),
        }
    }
}

fn names_for(rng: &mut Rng, ids: &Ids, n_intents: usize) -> ManifestObjectNames {
    if rng.chance(1, 2) {
        return ManifestObjectNames::Unknown;
    }
    let mut k = KnownManifestObjectNames::default();
    for i in 0..ids.buckets {
        if rng.chance(3, 4) {
            k.bucket_names.insert(ManifestBucket(i), odd_name(rng, "b", i as usize));
        }
    }
    for i in 0..ids.proofs {
        if rng.chance(3, 4) {
            k.proof_names.insert(ManifestProof(i), odd_name(rng, "p", i as usize));
        }
    }
    for i in 0..ids.reservations {
        if rng.chance(3, 4) {
            k.address_reservation_names.insert(ManifestAddressReservation(i), odd_name(rng, "r", i as usize));
        }
    }
    for i in 0..ids.addresses {
        if rng.chance(3, 4) {
            k.address_names.insert(ManifestNamedAddress(i), odd_name(rng, "a", i as usize));
        }
    }
    for i in 0..n_intents {
        if rng.chance(3, 4) {
            k.intent_names.insert(ManifestNamedIntent(i as u32), odd_name(rng, "c", i));
        }
    }
    ManifestObjectNames::Known(k)
}

fn gen_blobs(rng: &mut Rng) -> IndexMap<Hash, Vec<u8>> {
    let mut m = IndexMap::default();
    for _ in 0..rng.below(3) {
        let nb = rng.below(6) as usize;
        let b = rng.bytes(nb);
        m.insert(hash(&b), b);
    }
    m
}

fn gen_manifest(rng: &mut Rng, kind: &str) -> Vec<u8> {
    let mut ids = Ids { buckets: 0, proofs: 0, reservations: 0, addresses: 0, live_buckets: vec![], live_proofs: vec![] };
    let n = rng.below(9) as usize;
    match kind {
        "v1" => {
            let instructions: Vec<InstructionV1> = (0..n).map(|_| gen_common_v1(rng, &mut ids)).collect();
            let m = TransactionManifestV1 { instructions, blobs: gen_blobs(rng), object_names: names_for(rng, &ids, 0) };
            manifest_encode(&m).unwrap()
        }
        "sys" => {
            let mut pre = vec![];
            for _ in 0..rng.below(3) {
                pre.push(PreAllocatedAddress { blueprint_id: BlueprintId { package_address: PACKAGE_PACKAGE, blueprint_name: gen_string(rng) }, address: global_address(rng) });
                ids.reservations += 1;
            }
            let instructions: Vec<InstructionV1> = (0..n).map(|_| gen_common_v1(rng, &mut ids)).collect();
            let m = SystemTransactionManifestV1 { instructions, blobs: gen_blobs(rng), preallocated_addresses: pre, object_names: names_for(rng, &ids, 0) };
            manifest_encode(&m).unwrap()
        }
        _ => {
            let mut children: IndexSet<ChildSubintentSpecifier> = IndexSet::default();
            for _ in 0..rng.below(3) {
                let mut b = [0u8; 32];
                b.copy_from_slice(&rng.bytes(32));
                children.insert(ChildSubintentSpecifier { hash: SubintentHash(Hash(b)) });
            }
            let nch = children.len();
            let mut instructions: Vec<InstructionV2> = vec![];
            for _ in 0..n {
                let i = match rng.below(8) {
                    0 if nch > 0 => InstructionV2::YieldToChild(YieldToChild { child_index: ManifestNamedIntentIndex(rng.below(nch as u64) as u32), args: args_tuple(rng) }),
                    1 if kind == "sub" => InstructionV2::YieldToParent(YieldToParent { args: args_tuple(rng) }),
                    2 if kind == "sub" => InstructionV2::VerifyParent(VerifyParent { access_rule: AccessRule::AllowAll }),
                    3 => InstructionV2::AssertWorktopResourcesOnly(AssertWorktopResourcesOnly { constraints: ManifestResourceConstraints::new() }),
                    _ => InstructionV2::from(gen_common_v1(rng, &mut ids)),
                };
                instructions.push(i);
            }
            if kind == "sub" {
                instructions.push(InstructionV2::YieldToParent(YieldToParent { args: args_tuple(rng) }));
                let m = SubintentManifestV2 { instructions, blobs: gen_blobs(rng), children, object_names: names_for(rng, &ids, nch) };
                manifest_encode(&m).unwrap()
            } else {
                let m = TransactionManifestV2 { instructions, blobs: gen_blobs(rng), children, object_names: names_for(rng, &ids, nch) };
                manifest_encode(&m).unwrap()
            }
        }
    }
}

pub struct RM {
    network: NetworkDefinition,
}

fn names_equal(a: ManifestObjectNamesRef, b: ManifestObjectNamesRef, n: u32) -> Option<String> {
    for i in 0..n {
        if a.bucket_name(ManifestBucket(i)) != b.bucket_name(ManifestBucket(i)) {
            return Some(format!("bucket {}: {:?} vs {:?}", i, a.bucket_name(ManifestBucket(i)), b.bucket_name(ManifestBucket(i))));
        }
        if a.proof_name(ManifestProof(i)) != b.proof_name(ManifestProof(i)) {
            return Some(format!("proof {}", i));
        }
        if a.address_reservation_name(ManifestAddressReservation(i)) != b.address_reservation_name(ManifestAddressReservation(i)) {
            return Some(format!("reservation {}", i));
        }
        if a.address_name(ManifestNamedAddress(i)) != b.address_name(ManifestNamedAddress(i)) {
            return Some(format!("address {}", i));
        }
        if a.intent_name(ManifestNamedIntent(i)) != b.intent_name(ManifestNamedIntent(i)) {
            return Some(format!("intent {}", i));
        }
    }
    None
}

macro_rules! roundtrip {
    ($self:expr, $ty:ty, $m:expr, $extra:expr) => {{
        let m: $ty = $m;
        let text = match catch(|| decompile(&m, &$self.network)) {
            Err(p) => return Answer::fail("panic", "decompile-panic", format!("decompile panicked: {}", p)),
            Ok(Err(_)) => return Answer::ok("decompile-err"),
            Ok(Ok(t)) => t,
        };
        let ans = format!("ok n={}", m.instructions.len());
        let blobs = BlobProvider::new_with_prehashed_blobs(m.blobs.clone());
        let back = catch(|| compile_manifest::<$ty>(&text, &$self.network, blobs));
        let shown = text.replace('\n', " ");
        match back {
            Err(p) => Answer::fail(ans, "recompile-panic", format!("compile of decompiled text panicked: {} :: {}", p, shown)),
            Ok(Err(e)) => {
                let mut key = classify_compile_error(&m.object_names, &format!("{:?}", e));
                let (sd, td) = arg_depths(&m.instructions);
                if key == "recompile-error:depth" {
                    key = if sd <= PARSER_MAX_DEPTH { "recompile-error:depth:string-wrapped-leaf-at-max-depth".to_string() } else { "recompile-error:depth:beyond-sbor-limit".to_string() };
                }
                Answer::fail(ans, key, format!("decompiled text does not compile (deepest argument: SBOR depth {}, text depth {}): {:?} :: {}", sd, td, e, shown))
            }
            Ok(Ok(m2)) => {
                if m2.instructions != m.instructions {
                    let key = classify_instruction_diff(&format!("{:?}", m.instructions), &format!("{:?}", m2.instructions));
                    return Answer::fail(ans, key, format!("instructions differ after round trip :: {}", shown));
                }
                if m2.blobs != m.blobs {
                    return Answer::fail(ans, "roundtrip:blobs-differ", format!("blobs differ :: {}", shown));
                }
                let extra: fn(&$ty, &$ty) -> Option<&'static str> = $extra;
                if let Some(k) = extra(&m, &m2) {
                    return Answer::fail(ans, k, format!("{} :: {}", k, shown));
                }
                if let Some(d) = names_equal(m.object_names.as_ref(), m2.object_names.as_ref(), 12) {
                    let key = if names_have_special(&m.object_names) { "roundtrip:names-differ:special-chars" } else { "roundtrip:names-differ" };
                    return Answer::fail(ans, key, format!("object names differ ({}) :: {}", d, shown));
                }
                Answer::ok(ans)
            }
        }
    }};
}

/// (SBOR depth, textual nesting depth the parser sees) of a value: custom values, `Bytes` and the
/// `NonFungibleGlobalId` shape are written as `Name("…")`, i.e. two parser levels.
fn depths(v: &ManifestValue) -> (usize, usize) {
    let kids = |vs: Vec<&ManifestValue>| -> (usize, usize) {
        let mut a = 0;
        let mut b = 0;
        for x in vs {
            let (p, q) = depths(x);
            a = a.max(p);
            b = b.max(q);
        }
        (1 + a, 1 + b)
    };
    match v {
        Value::Custom { .. } => (1, 2),
        Value::Array { element_value_kind: ValueKind::U8, elements } => (if elements.is_empty() { 1 } else { 2 }, 2),
        Value::Tuple { fields } if fields.len() == 2 && matches!((&fields[0], &fields[1]), (Value::Custom { value: ManifestCustomValue::Address(ManifestAddress::Static(_)) }, Value::Custom { value: ManifestCustomValue::NonFungibleLocalId(_) })) => (2, 2),
        Value::Enum { fields, .. } | Value::Tuple { fields } => kids(fields.iter().collect()),
        Value::Array { elements, .. } => kids(elements.iter().collect()),
        Value::Map { entries, .. } => kids(entries.iter().flat_map(|(k, v)| [k, v]).collect()),
        _ => (1, 1),
    }
}

/// depths of the deepest instruction argument, relative to the argument itself
fn arg_depths<T: ManifestEncode>(instructions: &T) -> (usize, usize) {
    match manifest_encode(instructions).ok().and_then(|b| manifest_decode::<ManifestValue>(&b).ok()) {
        Some(v) => {
            let (a, b) = depths(&v);
            (a.saturating_sub(3), b.saturating_sub(3))
        }
        None => (usize::MAX, usize::MAX),
    }
}

fn names_have_special(n: &ManifestObjectNames) -> bool {
    format!("{:?}", n).contains("\\\\") || format!("{:?}", n).contains("\\\"")
}

fn classify_compile_error(names: &ManifestObjectNames, e: &str) -> String {
    if e.contains("UnexpectedEof") && e.contains("full_index: 0, line_idx: 0, line_char_index: 0 }, end: Position { full_index: 0,") {
        "recompile-error:empty-manifest".to_string()
    } else if e.contains("MaxDepthExceeded") {
        "recompile-error:depth".to_string()
    } else if names_have_special(names) && (e.contains("LexerError") || e.contains("ParserError") || e.contains("NameResolverError")) {
        "recompile-error:name-with-quote-or-backslash".to_string()
    } else if e.contains("LexerError") {
        "recompile-error:lexer".to_string()
    } else if e.contains("ParserError") {
        "recompile-error:parser".to_string()
    } else {
        "recompile-error:generator".to_string()
    }
}

fn classify_instruction_diff(a: &str, b: &str) -> String {
    // CallMethod { address: Static(<consensus-manager-typed address other than CONSENSUS_MANAGER>), method_name: "create_validator" }
    let canonical = format!("{:?}", ManifestGlobalAddress::Static(CONSENSUS_MANAGER.into()));
    let alias = a.split("CallMethod(").skip(1).any(|seg| {
        let head = &seg[..seg.find("args:").unwrap_or(seg.len())];
        head.contains("method_name: \"create_validator\"") && !head.contains(&canonical)
    });
    if alias && b.contains(&canonical) {
        "roundtrip:instructions-differ:create-validator-alias".to_string()
    } else {
        "roundtrip:instructions-differ".to_string()
    }
}

impl Runner for RM {
    fn step(&mut self, line: &str) -> Answer {
        let w: Vec<&str> = line.split(' ').filter(|x| !x.is_empty()).collect();
        let (k, h) = match w.as_slice() {
            ["man", k, h] => (*k, *h),
            _ => return Answer::ok("bad-op"),
        };
        let bytes = match unhex(h) {
            Some(b) => b,
            None => return Answer::ok("bad-op"),
        };
        match k {
            "v1" => match manifest_decode::<TransactionManifestV1>(&bytes) {
                Ok(m) => roundtrip!(self, TransactionManifestV1, m, |_a, _b| None),
                Err(_) => Answer::ok("undecodable"),
            },
            "sys" => match manifest_decode::<SystemTransactionManifestV1>(&bytes) {
                Ok(m) => roundtrip!(self, SystemTransactionManifestV1, m, |a, b| if a.preallocated_addresses != b.preallocated_addresses { Some("roundtrip:preallocated-addresses-differ") } else { None }),
                Err(_) => Answer::ok("undecodable"),
            },
            "v2" => match manifest_decode::<TransactionManifestV2>(&bytes) {
                Ok(m) => roundtrip!(self, TransactionManifestV2, m, |a, b| if a.children != b.children { Some("roundtrip:children-differ") } else { None }),
                Err(_) => Answer::ok("undecodable"),
            },
            "sub" => match manifest_decode::<SubintentManifestV2>(&bytes) {
                Ok(m) => roundtrip!(self, SubintentManifestV2, m, |a, b| if a.children != b.children { Some("roundtrip:children-differ") } else { None }),
                Err(_) => Answer::ok("undecodable"),
            },
            _ => Answer::ok("bad-op"),
        }
    }
}

impl Area for AM {
    fn gen(&self, rng: &mut Rng, n: usize, out: &mut dyn Write) {
        for _ in 0..n {
            let k = ["v1", "sys", "v2", "sub"][rng.below(4) as usize];
            let bytes = gen_manifest(rng, k);
            writeln!(out, "man {} {}", k, hex(&bytes)).unwrap();
        }
    }
    fn runner(&self) -> Box<dyn Runner> {
        Box::new(RM { network: NetworkDefinition::simulator() })
    }
}

fn main() {
    main_with(&[("c30", &AV), ("c30m", &AM)]);
}
