//! C41 — liquidity pools (one/two/multi resource, v1.1 blueprints) driven through real
//! transactions on the ledger simulator.
//!
//! Line protocol (stateful, every case starts with `reset`; amounts are attos as decimal integers):
//!   new1 d | new2 d0 d1 | newm d0 .. dn-1        create resources with these divisibilities + a pool
//!   contribute c0 [c1 ..]                        one bucket per pool resource, in resource order
//!   redeem u                                     redeem u pool units held by the test account
//!   deposit i a                                  protected_deposit of `a` of resource i
//!   withdraw i a exact|r0..r6                    protected_withdraw (WithdrawStrategy)
//!   value u                                      get_redemption_value(u)
//!   redeemf n d | valuef n d                     same with u = floor(supply * n / d), n <= d
//! Answers: `ok S=<supply> R=<r0,..> A=<account balances>` after state changing calls,
//! `ok <v0,..>` for `value`, `err <kind>` (state unchanged), `skip` when the request cannot
//! be put to the pool at all (amount not representable for the resource, more units than held),
//! `bad-op` for unparseable lines.
//!
//! For the two resource pool, resource 0 is the one with the LARGER address (the code's
//! `vault1`/`bucket1` after its address sort); the runner re-creates resources until that holds.
use harness::util::*;
use num_bigint::BigInt;
use num_traits::{Signed, Zero};
use radix_common::prelude::*;
use radix_engine::errors::*;
use radix_engine_interface::blueprints::pool::*;
use radix_engine_interface::prelude::*;
use radix_transactions::prelude::*;
use scrypto_test::prelude::*;
use std::io::Write;
use std::str::FromStr;

pub struct A;

// ------------------------------------------------------------------------------------------ gen

fn pow10(n: u32) -> BigInt {
    BigInt::from(10u32).pow(n)
}

/// boundary-biased amount that is a multiple of 10^(18-d) attos
fn gen_amount(rng: &mut Rng, d: u32) -> BigInt {
    let unit = pow10(18 - d);
    let k: BigInt = match rng.below(12) {
        0 => BigInt::from(0u32),
        1 => BigInt::from(1u32),
        2 => BigInt::from(1 + rng.below(9)),
        3 | 4 => BigInt::from(1 + rng.below(1_000_000)),
        5 | 6 => BigInt::from(rng.next()) ,
        7 => BigInt::from(rng.next()) * BigInt::from(rng.next() >> 20),
        8 => pow10(rng.below(30) as u32),
        9 => pow10(rng.below(30) as u32) * BigInt::from(1 + rng.below(99)),
        10 => (BigInt::from(1u32) << (rng.below(140) as usize)) + BigInt::from(rng.below(3)) - BigInt::from(1u32),
        _ => BigInt::from(1 + rng.below(1000)) * pow10(d),
    };
    let k = if k.is_negative() { BigInt::from(0u32) } else { k };
    let mut a = k * &unit;
    // keep every single mint below the engine's 2^152 mint cap
    let cap: BigInt = BigInt::from(1u32) << 150usize;
    if a > cap {
        a = (&cap / &unit) * &unit;
    }
    a
}

fn gen_units(rng: &mut Rng, supply_hint: &BigInt) -> BigInt {
    match rng.below(8) {
        0 => supply_hint.clone(),
        1 => BigInt::from(1u32),
        2 => supply_hint / BigInt::from(2u32),
        3 => supply_hint / BigInt::from(1 + rng.below(1000)),
        4 => supply_hint - BigInt::from(1u32),
        5 => BigInt::from(1 + rng.below(1_000_000)),
        6 => supply_hint * BigInt::from(rng.below(1000)) / BigInt::from(1000u32),
        _ => BigInt::from(rng.next()),
    }
}

impl Area for A {
    fn gen(&self, rng: &mut Rng, n: usize, out: &mut dyn Write) {
        for case in 0..n {
            writeln!(out, "reset").unwrap();
            let divs: Vec<u32> = match rng.below(3) {
                0 => vec![*rng.pick(&[18u32, 18, 0, 2, 6, 17, 1, 9])],
                1 => (0..2).map(|_| *rng.pick(&[18u32, 18, 0, 2, 6, 17, 1, 12])).collect(),
                _ => (0..(1 + rng.below(4))).map(|_| *rng.pick(&[18u32, 18, 0, 2, 6, 17])).collect(),
            };
            let kind = if divs.len() == 1 && rng.chance(2, 3) { 1 } else if divs.len() == 2 && rng.chance(3, 4) { 2 } else { 3 };
            match kind {
                1 => writeln!(out, "new1 {}", divs[0]).unwrap(),
                2 => writeln!(out, "new2 {} {}", divs[0], divs[1]).unwrap(),
                _ => writeln!(out, "newm {}", divs.iter().map(|d| d.to_string()).collect::<Vec<_>>().join(" ")).unwrap(),
            }
            // a rough supply hint so that redeem amounts are mostly valid: tracked as the sum of
            // what a first contribution would mint (good enough, the runner answers `skip` otherwise)
            let mut hint = BigInt::from(0u32);
            let len = 2 + rng.below(9);
            // every now and then a malformed line
            if case % 37 == 5 {
                writeln!(out, "{}", rng.pick(&["contribute", "redeem x", "withdraw 0 1 r9", "deposit 9 1", "value", "frobnicate 1", "new1 19", "contribute -5", "redeem 12.5"])).unwrap();
            }
            for step in 0..len {
                let r = if step == 0 { 0 } else { rng.below(12) };
                match r {
                    0..=3 => {
                        // contribution; related amounts (same magnitude) half of the time
                        let base = gen_amount(rng, 18);
                        let cs: Vec<BigInt> = divs
                            .iter()
                            .map(|d| {
                                if rng.chance(1, 2) {
                                    let unit = pow10(18 - d);
                                    let v = &base * BigInt::from(1 + rng.below(4)) / BigInt::from(1 + rng.below(4));
                                    let mut v = (v / &unit) * &unit;
                                    let cap: BigInt = BigInt::from(1u32) << 150usize;
                                    if v > cap {
                                        v = (&cap / &unit) * &unit;
                                    }
                                    v
                                } else {
                                    gen_amount(rng, *d)
                                }
                            })
                            .collect();
                        if hint.is_zero() {
                            hint = cs.iter().max().unwrap().clone();
                        } else {
                            hint = &hint * BigInt::from(2u32);
                        }
                        writeln!(out, "contribute {}", cs.iter().map(|c| c.to_string()).collect::<Vec<_>>().join(" ")).unwrap();
                    }
                    4..=6 => {
                        if rng.chance(3, 4) {
                            let d = *rng.pick(&[1u64, 2, 3, 10, 1000, 1_000_000_007, u64::MAX / 3]);
                            let n = match rng.below(5) { 0 => d, 1 => 1, 2 => d - d / 7, _ => 1 + rng.below(d) };
                            writeln!(out, "redeemf {} {}", n.min(d), d).unwrap();
                        } else {
                            let u = gen_units(rng, &hint);
                            writeln!(out, "redeem {}", u).unwrap();
                        }
                    }
                    7 => {
                        let i = rng.below(divs.len() as u64) as usize;
                        writeln!(out, "deposit {} {}", i, gen_amount(rng, divs[i])).unwrap();
                    }
                    8 | 9 => {
                        let i = rng.below(divs.len() as u64) as usize;
                        let strat = *rng.pick(&["exact", "r0", "r1", "r2", "r3", "r4", "r5", "r6"]);
                        let a = if rng.chance(1, 2) { gen_amount(rng, divs[i]) } else { gen_amount(rng, 18) };
                        let a = if rng.chance(1, 25) { -a } else { a };
                        writeln!(out, "withdraw {} {} {}", i, a, strat).unwrap();
                    }
                    _ => {
                        if rng.chance(2, 3) {
                            let d = *rng.pick(&[1u64, 2, 3, 10, 1000, 1_000_000_007]);
                            writeln!(out, "valuef {} {}", 1 + rng.below(d), d).unwrap();
                        } else {
                            let u = if rng.chance(1, 6) { BigInt::from(rng.range(-3, 0)) } else { gen_units(rng, &hint) };
                            writeln!(out, "value {}", u).unwrap();
                        }
                    }
                }
            }
        }
    }
    fn runner(&self) -> Box<dyn Runner> {
        Box::new(R::new())
    }
}

// ------------------------------------------------------------------------------------------ runner

#[derive(Clone, Copy, PartialEq)]
enum Kind {
    One,
    Two,
    Multi,
}

struct Pool {
    kind: Kind,
    component: ComponentAddress,
    unit: ResourceAddress,
    res: Vec<(ResourceAddress, u32)>,
}

struct R {
    ledger: DefaultLedgerSimulator,
    snapshot: LedgerSimulatorSnapshot,
    account: ComponentAddress,
    owner: NonFungibleGlobalId,
    pool: Option<Pool>,
}

fn dec(attos: &BigInt) -> Option<Decimal> {
    I192::from_str(&attos.to_string()).ok().map(Decimal::from_attos)
}
fn big(d: Decimal) -> BigInt {
    BigInt::from_str(&d.attos().to_string()).unwrap()
}

/// Error kind: the chain of variant names of the runtime error (no addresses / amounts).
fn err_kind(e: &RuntimeError) -> String {
    let s = format!("{:?}", e);
    let mut idents = vec![];
    let mut cur = String::new();
    let mut depth_ok = true;
    for ch in s.chars() {
        if ch.is_alphanumeric() || ch == '_' {
            cur.push(ch);
        } else {
            if !cur.is_empty() {
                if depth_ok && cur.chars().next().unwrap().is_uppercase() {
                    idents.push(cur.clone());
                }
                cur.clear();
            }
            if ch == '{' || ch == ',' {
                // payload fields start: stop collecting
                depth_ok = false;
            }
        }
        if idents.len() >= 4 {
            break;
        }
    }
    if !cur.is_empty() && depth_ok && idents.len() < 4 && cur.chars().next().unwrap().is_uppercase() {
        idents.push(cur);
    }
    let drop_first = idents.first().map(|s| s == "ApplicationError").unwrap_or(false);
    let v: Vec<String> = if drop_first { idents[1..].to_vec() } else { idents };
    // numeric payloads like InvalidAmount(Decimal) are not identifiers starting upper-case; fine
    v.join(":")
}

impl R {
    fn new() -> R {
        let mut ledger = LedgerSimulatorBuilder::new().without_kernel_trace().build();
        let (pk, _sk, account) = ledger.new_account(false);
        let owner = NonFungibleGlobalId::from_public_key(&pk);
        let snapshot = ledger.create_snapshot();
        R { ledger, snapshot, account, owner, pool: None }
    }

    fn new_resource(&mut self, d: u32) -> ResourceAddress {
        self.ledger.create_freely_mintable_and_burnable_fungible_resource(OwnerRole::None, None, d as u8, self.account)
    }

    fn create(&mut self, kind: Kind, divs: &[u32]) -> Result<(), String> {
        let mut res: Vec<(ResourceAddress, u32)> = divs.iter().map(|d| (self.new_resource(*d), *d)).collect();
        if kind == Kind::Two {
            // resource 0 must have the larger address (the blueprint's vault1)
            let mut tries = 0;
            while res[0].0 <= res[1].0 {
                res[0].0 = self.new_resource(res[0].1);
                tries += 1;
                if tries > 64 {
                    return Err("could not order resources".into());
                }
            }
        }
        let mb = ManifestBuilder::new().lock_fee_from_faucet();
        let mb = match kind {
            Kind::One => mb.call_function(
                POOL_PACKAGE,
                ONE_RESOURCE_POOL_BLUEPRINT,
                ONE_RESOURCE_POOL_INSTANTIATE_IDENT,
                OneResourcePoolInstantiateManifestInput {
                    resource_address: res[0].0.into(),
                    pool_manager_rule: rule!(allow_all).into(),
                    owner_role: OwnerRole::None.into(),
                    address_reservation: None,
                },
            ),
            Kind::Two => mb.call_function(
                POOL_PACKAGE,
                TWO_RESOURCE_POOL_BLUEPRINT,
                TWO_RESOURCE_POOL_INSTANTIATE_IDENT,
                TwoResourcePoolInstantiateManifestInput {
                    resource_addresses: (res[0].0.into(), res[1].0.into()),
                    pool_manager_rule: rule!(allow_all).into(),
                    owner_role: OwnerRole::None.into(),
                    address_reservation: None,
                },
            ),
            Kind::Multi => mb.call_function(
                POOL_PACKAGE,
                MULTI_RESOURCE_POOL_BLUEPRINT,
                MULTI_RESOURCE_POOL_INSTANTIATE_IDENT,
                MultiResourcePoolInstantiateManifestInput {
                    resource_addresses: res.iter().map(|r| r.0.into()).collect(),
                    pool_manager_rule: rule!(allow_all).into(),
                    owner_role: OwnerRole::None.into(),
                    address_reservation: None,
                },
            ),
        };
        let receipt = self.ledger.execute_manifest(mb.build(), vec![]);
        let cr = receipt.expect_commit_success();
        self.pool = Some(Pool { kind, component: cr.new_component_addresses()[0], unit: cr.new_resource_addresses()[0], res });
        Ok(())
    }

    fn state(&mut self) -> (BigInt, Vec<BigInt>, Vec<BigInt>) {
        let p = self.pool.as_ref().unwrap();
        let s = big(self.ledger.get_fungible_resource_total_supply(p.unit));
        let comp = p.component;
        let acc = self.account;
        let addrs: Vec<ResourceAddress> = p.res.iter().map(|r| r.0).collect();
        let r: Vec<BigInt> = addrs.iter().map(|a| big(self.ledger.get_component_balance(comp, *a))).collect();
        let a: Vec<BigInt> = addrs.iter().map(|a| big(self.ledger.get_component_balance(acc, *a))).collect();
        (s, r, a)
    }

    fn fmt_state(st: &(BigInt, Vec<BigInt>, Vec<BigInt>)) -> String {
        let j = |v: &Vec<BigInt>| v.iter().map(|x| x.to_string()).collect::<Vec<_>>().join(",");
        format!("ok S={} R={} A={}", st.0, j(&st.1), j(&st.2))
    }

    fn outcome(receipt: &TransactionReceipt) -> Result<(), String> {
        match &receipt.result {
            TransactionResult::Commit(c) => match &c.outcome {
                TransactionOutcome::Success(_) => Ok(()),
                TransactionOutcome::Failure(e) => Err(err_kind(e)),
            },
            TransactionResult::Reject(r) => Err(format!("REJECT:{:?}", r.reason).chars().take(60).collect()),
            TransactionResult::Abort(_) => Err("ABORT".into()),
        }
    }

    /// get_redemption_value(u) -> per resource values (in resource order) or error kind
    fn redemption_value(&mut self, u: Decimal) -> Result<Vec<BigInt>, String> {
        let p = self.pool.as_ref().unwrap();
        let mb = ManifestBuilder::new().lock_fee_from_faucet();
        let mb = match p.kind {
            Kind::One => mb.call_method(p.component, ONE_RESOURCE_POOL_GET_REDEMPTION_VALUE_IDENT, OneResourcePoolGetRedemptionValueManifestInput { amount_of_pool_units: u }),
            Kind::Two => mb.call_method(p.component, TWO_RESOURCE_POOL_GET_REDEMPTION_VALUE_IDENT, TwoResourcePoolGetRedemptionValueManifestInput { amount_of_pool_units: u }),
            Kind::Multi => mb.call_method(p.component, MULTI_RESOURCE_POOL_GET_REDEMPTION_VALUE_IDENT, MultiResourcePoolGetRedemptionValueManifestInput { amount_of_pool_units: u }),
        };
        let kind = p.kind;
        let addrs: Vec<ResourceAddress> = p.res.iter().map(|r| r.0).collect();
        let receipt = self.ledger.execute_manifest(mb.build(), vec![]);
        Self::outcome(&receipt)?;
        let cr = receipt.expect_commit_success();
        Ok(match kind {
            Kind::One => vec![big(cr.output::<Decimal>(1))],
            _ => {
                let m: IndexMap<ResourceAddress, Decimal> = cr.output(1);
                addrs.iter().map(|a| big(*m.get(a).unwrap())).collect()
            }
        })
    }
}

fn parse_big(s: &str) -> Option<BigInt> {
    if s.is_empty() || !s.chars().enumerate().all(|(i, c)| c.is_ascii_digit() || (i == 0 && c == '-' && s.len() > 1)) {
        return None;
    }
    BigInt::from_str(s).ok()
}

impl Runner for R {
    fn step(&mut self, line: &str) -> Answer {
        let t: Vec<&str> = line.split(' ').filter(|x| !x.is_empty()).collect();
        if t.is_empty() {
            return Answer::ok("bad-op");
        }
        // `redeemf n d` / `valuef n d`: the amount is floor(supply * n / d) of the current supply
        let frac_line: String;
        let t: Vec<&str> = if (t[0] == "redeemf" || t[0] == "valuef") && self.pool.is_some() {
            if t.len() != 3 {
                return Answer::ok("bad-op");
            }
            let (Some(n), Some(d)) = (t[1].parse::<u64>().ok().filter(|_| t[1].chars().all(|c| c.is_ascii_digit())), t[2].parse::<u64>().ok().filter(|_| t[2].chars().all(|c| c.is_ascii_digit()))) else { return Answer::ok("bad-op") };
            if d == 0 || n > d {
                return Answer::ok("bad-op");
            }
            let s = self.state().0;
            let u = s * BigInt::from(n) / BigInt::from(d);
            frac_line = format!("{} {}", if t[0] == "redeemf" { "redeem" } else { "value" }, u);
            frac_line.split(' ').collect()
        } else {
            t
        };
        match t[0] {
            "reset" if t.len() == 1 => {
                let s = self.snapshot.clone();
                self.ledger.restore_snapshot(s);
                self.pool = None;
                Answer::ok("ok")
            }
            "new1" | "new2" | "newm" => {
                let divs: Option<Vec<u32>> = t[1..].iter().map(|x| x.parse::<u32>().ok().filter(|d| *d <= 18)).collect();
                let divs = match divs {
                    Some(d) => d,
                    None => return Answer::ok("bad-op"),
                };
                let kind = match t[0] {
                    "new1" => Kind::One,
                    "new2" => Kind::Two,
                    _ => Kind::Multi,
                };
                let okn = match kind {
                    Kind::One => divs.len() == 1,
                    Kind::Two => divs.len() == 2,
                    Kind::Multi => !divs.is_empty() && divs.len() <= 6,
                };
                if !okn || self.pool.is_some() {
                    return Answer::ok("bad-op");
                }
                match self.create(kind, &divs) {
                    Ok(()) => Answer::ok("ok"),
                    Err(e) => Answer::ok(format!("err {}", e)),
                }
            }
            "contribute" => {
                let Some(p) = self.pool.as_ref() else { return Answer::ok("bad-op") };
                let cs: Option<Vec<BigInt>> = t[1..].iter().map(|x| parse_big(x)).collect();
                let Some(cs) = cs else { return Answer::ok("bad-op") };
                if cs.len() != p.res.len() {
                    return Answer::ok("bad-op");
                }
                // representable, non-negative, below the mint cap
                let cap: BigInt = BigInt::from(1u32) << 152usize;
                for (c, (_, d)) in cs.iter().zip(p.res.iter()) {
                    if c.is_negative() || !(c % pow10(18 - d)).is_zero() || *c > cap {
                        return Answer::ok("skip");
                    }
                }
                let kind = p.kind;
                let comp = p.component;
                let res = p.res.clone();
                let before = self.state();
                let mut mb = ManifestBuilder::new().lock_fee_from_faucet();
                for (i, (c, (addr, _))) in cs.iter().zip(res.iter()).enumerate() {
                    if !c.is_zero() {
                        mb = mb.mint_fungible(*addr, dec(c).unwrap());
                    }
                    mb = mb.take_from_worktop(*addr, dec(c).unwrap(), format!("b{}", i));
                }
                let n = res.len();
                let mb = mb.with_name_lookup(|builder, lookup| match kind {
                    Kind::One => builder.call_method(comp, ONE_RESOURCE_POOL_CONTRIBUTE_IDENT, OneResourcePoolContributeManifestInput { bucket: lookup.bucket("b0") }),
                    Kind::Two => builder.call_method(comp, TWO_RESOURCE_POOL_CONTRIBUTE_IDENT, TwoResourcePoolContributeManifestInput { buckets: (lookup.bucket("b0"), lookup.bucket("b1")) }),
                    Kind::Multi => builder.call_method(
                        comp,
                        MULTI_RESOURCE_POOL_CONTRIBUTE_IDENT,
                        MultiResourcePoolContributeManifestInput { buckets: ManifestBucketBatch::ManifestBuckets((0..n).map(|i| lookup.bucket(format!("b{}", i))).collect()) },
                    ),
                });
                let manifest = mb.try_deposit_entire_worktop_or_abort(self.account, None).build();
                let receipt = self.ledger.execute_manifest(manifest, vec![]);
                if let Err(k) = Self::outcome(&receipt) {
                    let after = self.state();
                    if after != before {
                        return Answer::fail(format!("err {}", k), "failed-tx-changed-state", "a failed contribution changed pool/account state");
                    }
                    return Answer::ok(format!("err {}", k));
                }
                let after = self.state();
                let ans = Self::fmt_state(&after);
                // ---------------- property oracle (exact integer arithmetic on attos) ----------------
                let units = &after.0 - &before.0;
                if !units.is_positive() {
                    return Answer::fail(ans, "contribute-no-units", "successful contribution minted no pool units");
                }
                let mut acc = vec![];
                for i in 0..n {
                    let a = &after.1[i] - &before.1[i];
                    let change = &after.2[i] - &before.2[i];
                    if a.is_negative() || after.1[i].is_negative() {
                        return Answer::fail(ans, "reserves-negative-or-shrunk-on-contribute", format!("resource {} reserve delta {}", i, a));
                    }
                    if change.is_negative() || &a + &change != cs[i] {
                        return Answer::fail(ans, "change-lossy", format!("resource {}: accepted {} + change {} != contributed {}", i, a, change, cs[i]));
                    }
                    acc.push(a);
                }
                // in ratio (only meaningful when units were in circulation): for all i,j with r_i,r_j>0:
                //   a_i/r_i <= (a_j + unit_j + 2 attos)/r_j + 2e-36
                if before.0.is_positive() {
                    for i in 0..n {
                        if before.1[i].is_zero() {
                            if !acc[i].is_zero() {
                                return Answer::fail(ans, "accepted-into-empty-reserve", format!("resource {} has zero reserves but {} was accepted", i, acc[i]));
                            }
                            continue;
                        }
                        for j in 0..n {
                            if i == j || before.1[j].is_zero() {
                                continue;
                            }
                            let lhs = &acc[i] * &before.1[j] * pow10(36);
                            let rhs = (&acc[j] + pow10(18 - res[j].1) + BigInt::from(2u32)) * &before.1[i] * pow10(36) + &before.1[i] * &before.1[j] * BigInt::from(2u32);
                            if lhs > rhs {
                                return Answer::fail(ans, "accepted-not-in-ratio", format!("accepted {:?} against reserves {:?}", acc, before.1));
                            }
                        }
                    }
                }
                // contribute then immediately redeem the minted units: value_i <= accepted_i
                // (regime: units were in circulation, or the pool was completely empty)
                let regime = before.0.is_positive() || before.1.iter().all(|r| r.is_zero());
                if regime {
                    if let Some(ud) = dec(&units) {
                        match self.redemption_value(ud) {
                            Ok(vals) => {
                                for i in 0..n {
                                    if vals[i] > acc[i] {
                                        return Answer::fail(ans, "contribute-then-redeem-gains", format!("resource {}: accepted {} but the minted {} units redeem for {}", i, acc[i], units, vals[i]));
                                    }
                                }
                            }
                            Err(_) => {}
                        }
                    }
                }
                Answer::ok(ans)
            }
            "redeem" => {
                let Some(p) = self.pool.as_ref() else { return Answer::ok("bad-op") };
                if t.len() != 2 {
                    return Answer::ok("bad-op");
                }
                let Some(u) = parse_big(t[1]) else { return Answer::ok("bad-op") };
                let kind = p.kind;
                let comp = p.component;
                let unit = p.unit;
                let res = p.res.clone();
                let held = big(self.ledger.get_component_balance(self.account, unit));
                if !u.is_positive() || u > held {
                    return Answer::ok("skip");
                }
                let before = self.state();
                if held != before.0 {
                    return Answer::fail("desync", "harness-desync", "account does not hold the whole pool unit supply");
                }
                let ud = dec(&u).unwrap();
                let mb = ManifestBuilder::new().lock_fee_from_faucet().withdraw_from_account(self.account, unit, ud).take_all_from_worktop(unit, "pu");
                let mb = mb.with_name_lookup(|builder, lookup| match kind {
                    Kind::One => builder.call_method(comp, ONE_RESOURCE_POOL_REDEEM_IDENT, OneResourcePoolRedeemManifestInput { bucket: lookup.bucket("pu") }),
                    Kind::Two => builder.call_method(comp, TWO_RESOURCE_POOL_REDEEM_IDENT, TwoResourcePoolRedeemManifestInput { bucket: lookup.bucket("pu") }),
                    Kind::Multi => builder.call_method(comp, MULTI_RESOURCE_POOL_REDEEM_IDENT, MultiResourcePoolRedeemManifestInput { bucket: lookup.bucket("pu") }),
                });
                let manifest = mb.try_deposit_entire_worktop_or_abort(self.account, None).build();
                let receipt = self.ledger.execute_manifest(manifest, vec![self.owner.clone()]);
                if let Err(k) = Self::outcome(&receipt) {
                    let after = self.state();
                    if after != before {
                        return Answer::fail(format!("err {}", k), "failed-tx-changed-state", "a failed redemption changed pool/account state");
                    }
                    return Answer::ok(format!("err {}", k));
                }
                let after = self.state();
                let ans = Self::fmt_state(&after);
                if &before.0 - &after.0 != u {
                    return Answer::fail(ans, "redeem-burn-mismatch", "pool unit supply did not drop by the redeemed amount");
                }
                for i in 0..res.len() {
                    let owed = &before.1[i] - &after.1[i];
                    let got = &after.2[i] - &before.2[i];
                    if after.1[i].is_negative() || owed.is_negative() || owed > before.1[i] {
                        return Answer::fail(ans, "reserves-negative", format!("resource {} reserves {} -> {}", i, before.1[i], after.1[i]));
                    }
                    if got != owed {
                        return Answer::fail(ans, "redeem-payout-mismatch", format!("resource {}: vault lost {} redeemer got {}", i, owed, got));
                    }
                    // pro rata: owed_i / r_i <= u / S   <=>  owed_i * S <= u * r_i
                    if &owed * &before.0 > &u * &before.1[i] {
                        return Answer::fail(ans, "redeem-above-pro-rata", format!("resource {}: owed {} of reserves {} for {} of {} units", i, owed, before.1[i], u, before.0));
                    }
                    if !(&owed % pow10(18 - res[i].1)).is_zero() {
                        return Answer::fail(ans, "redeem-not-divisibility-aligned", format!("resource {} owed {}", i, owed));
                    }
                }
                Answer::ok(ans)
            }
            "deposit" => {
                let Some(p) = self.pool.as_ref() else { return Answer::ok("bad-op") };
                if t.len() != 3 {
                    return Answer::ok("bad-op");
                }
                let (Some(i), Some(a)) = (t[1].parse::<usize>().ok(), parse_big(t[2])) else { return Answer::ok("bad-op") };
                if i >= p.res.len() {
                    return Answer::ok("bad-op");
                }
                let (addr, d) = p.res[i];
                let cap: BigInt = BigInt::from(1u32) << 152usize;
                if !a.is_positive() || !(&a % pow10(18 - d)).is_zero() || a > cap {
                    return Answer::ok("skip");
                }
                let kind = p.kind;
                let comp = p.component;
                let before = self.state();
                let mb = ManifestBuilder::new().lock_fee_from_faucet().mint_fungible(addr, dec(&a).unwrap()).take_all_from_worktop(addr, "b");
                let mb = mb.with_name_lookup(|builder, lookup| match kind {
                    Kind::One => builder.call_method(comp, ONE_RESOURCE_POOL_PROTECTED_DEPOSIT_IDENT, OneResourcePoolProtectedDepositManifestInput { bucket: lookup.bucket("b") }),
                    Kind::Two => builder.call_method(comp, TWO_RESOURCE_POOL_PROTECTED_DEPOSIT_IDENT, TwoResourcePoolProtectedDepositManifestInput { bucket: lookup.bucket("b") }),
                    Kind::Multi => builder.call_method(comp, MULTI_RESOURCE_POOL_PROTECTED_DEPOSIT_IDENT, MultiResourcePoolProtectedDepositManifestInput { bucket: lookup.bucket("b") }),
                });
                let receipt = self.ledger.execute_manifest(mb.build(), vec![]);
                if let Err(k) = Self::outcome(&receipt) {
                    return Answer::ok(format!("err {}", k));
                }
                let after = self.state();
                let ans = Self::fmt_state(&after);
                if &after.1[i] - &before.1[i] != a || after.0 != before.0 {
                    return Answer::fail(ans, "deposit-mismatch", "protected deposit did not add exactly the amount / changed supply");
                }
                Answer::ok(ans)
            }
            "withdraw" => {
                let Some(p) = self.pool.as_ref() else { return Answer::ok("bad-op") };
                if t.len() != 4 {
                    return Answer::ok("bad-op");
                }
                let (Some(i), Some(a)) = (t[1].parse::<usize>().ok(), parse_big(t[2])) else { return Answer::ok("bad-op") };
                if i >= p.res.len() {
                    return Answer::ok("bad-op");
                }
                let strat = match t[3] {
                    "exact" => WithdrawStrategy::Exact,
                    "r0" => WithdrawStrategy::Rounded(RoundingMode::ToPositiveInfinity),
                    "r1" => WithdrawStrategy::Rounded(RoundingMode::ToNegativeInfinity),
                    "r2" => WithdrawStrategy::Rounded(RoundingMode::ToZero),
                    "r3" => WithdrawStrategy::Rounded(RoundingMode::AwayFromZero),
                    "r4" => WithdrawStrategy::Rounded(RoundingMode::ToNearestMidpointTowardZero),
                    "r5" => WithdrawStrategy::Rounded(RoundingMode::ToNearestMidpointAwayFromZero),
                    "r6" => WithdrawStrategy::Rounded(RoundingMode::ToNearestMidpointToEven),
                    _ => return Answer::ok("bad-op"),
                };
                let Some(ad) = dec(&a) else { return Answer::ok("skip") };
                let (addr, d) = p.res[i];
                let kind = p.kind;
                let comp = p.component;
                let before = self.state();
                let mb = ManifestBuilder::new().lock_fee_from_faucet();
                let mb = match kind {
                    Kind::One => mb.call_method(comp, ONE_RESOURCE_POOL_PROTECTED_WITHDRAW_IDENT, OneResourcePoolProtectedWithdrawManifestInput { amount: ad, withdraw_strategy: strat }),
                    Kind::Two => mb.call_method(
                        comp,
                        TWO_RESOURCE_POOL_PROTECTED_WITHDRAW_IDENT,
                        TwoResourcePoolProtectedWithdrawManifestInput { resource_address: addr.into(), amount: ad, withdraw_strategy: strat },
                    ),
                    Kind::Multi => mb.call_method(
                        comp,
                        MULTI_RESOURCE_POOL_PROTECTED_WITHDRAW_IDENT,
                        MultiResourcePoolProtectedWithdrawManifestInput { resource_address: addr.into(), amount: ad, withdraw_strategy: strat },
                    ),
                };
                let manifest = mb.try_deposit_entire_worktop_or_abort(self.account, None).build();
                let receipt = self.ledger.execute_manifest(manifest, vec![]);
                if let Err(k) = Self::outcome(&receipt) {
                    return Answer::ok(format!("err {}", k));
                }
                let after = self.state();
                let ans = Self::fmt_state(&after);
                let taken = &before.1[i] - &after.1[i];
                if after.1[i].is_negative() || taken.is_negative() || !(&taken % pow10(18 - d)).is_zero() || &after.2[i] - &before.2[i] != taken || after.0 != before.0 {
                    return Answer::fail(ans, "withdraw-mismatch", "protected withdraw broke vault accounting");
                }
                Answer::ok(ans)
            }
            "value" => {
                if self.pool.is_none() || t.len() != 2 {
                    return Answer::ok("bad-op");
                }
                let Some(u) = parse_big(t[1]) else { return Answer::ok("bad-op") };
                let Some(ud) = dec(&u) else { return Answer::ok("skip") };
                let st = self.state();
                match self.redemption_value(ud) {
                    Err(k) => Answer::ok(format!("err {}", k)),
                    Ok(vals) => {
                        let ans = format!("ok {}", vals.iter().map(|x| x.to_string()).collect::<Vec<_>>().join(","));
                        for i in 0..vals.len() {
                            if &vals[i] * &st.0 > &u * &st.1[i] || vals[i] > st.1[i] || vals[i].is_negative() {
                                return Answer::fail(ans, "value-above-pro-rata", format!("resource {}: value {} of reserves {} for {} of {} units", i, vals[i], st.1[i], u, st.0));
                            }
                        }
                        Answer::ok(ans)
                    }
                }
            }
            _ => Answer::ok("bad-op"),
        }
    }
}

fn main() {
    main_with(&[("c41", &A)]);
}
