//! C45 — WASM package validation is total and enforces the sandbox rules.
//!
//! Area `c45`  : modules built with wasm-encoder around every limit of the validator. Each op line carries the
//!               module bytes *and* its summary, computed by an independent wasmparser-0.244 walk; the real
//!               `ScryptoV1WasmValidator::validate` is run on the bytes, the Lean model on the summary.
//! Area `c45b` : arbitrary / truncated / mutated byte strings and modules using post-MVP operators
//!               (oracle only: totality — a panic is a violation — and the sandbox oracle on whatever is accepted).
use harness::util::*;
use radix_engine::vm::wasm::*;
use radix_engine::vm::ScryptoVmVersion;
use radix_engine_interface::blueprints::package::PackageDefinition;
use std::borrow::Cow;
use std::fmt::Write as _;
use std::io::Write;
use wasm_encoder as we;
use wasmparser as wp;

// ------------------------------------------------------------------------------------------------
// Expected host interface (independent of prepare.rs; written from the Scrypto host API: the functions the
// wasmi linker of radix-engine defines, with their signatures and the protocol version that introduced them).
// Used ONLY by the oracle.
const EXPECTED_HOST: &[(&str, &str, u64)] = &[
    ("buffer_consume", "ii.", 0),
    ("object_call", "iiiiii.I", 0),
    ("object_call_module", "iiiiiii.I", 0),
    ("object_call_direct", "iiiiii.I", 0),
    ("blueprint_call", "iiiiiiii.I", 0),
    ("kv_store_open_entry", "iiiii.i", 0),
    ("kv_entry_read", "i.I", 0),
    ("kv_entry_write", "iii.", 0),
    ("kv_entry_remove", "i.I", 0),
    ("kv_entry_close", "i.", 0),
    ("kv_store_remove_entry", "iiii.I", 0),
    ("actor_open_field", "iii.i", 0),
    ("field_entry_read", "i.I", 0),
    ("field_entry_write", "iii.", 0),
    ("field_entry_close", "i.", 0),
    ("actor_get_object_id", "i.I", 0),
    ("actor_get_package_address", ".I", 0),
    ("actor_get_blueprint_name", ".I", 0),
    ("object_new", "iiii.I", 0),
    ("costing_get_execution_cost_unit_limit", ".i", 0),
    ("costing_get_execution_cost_unit_price", ".I", 0),
    ("costing_get_finalization_cost_unit_limit", ".i", 0),
    ("costing_get_finalization_cost_unit_price", ".I", 0),
    ("costing_get_usd_price", ".I", 0),
    ("costing_get_tip_percentage", ".i", 0),
    ("costing_get_fee_balance", ".I", 0),
    ("address_allocate", "iiii.I", 0),
    ("address_get_reservation_address", "ii.I", 0),
    ("object_globalize", "iiiiii.I", 0),
    ("kv_store_new", "ii.I", 0),
    ("object_instance_of", "iiiiii.i", 0),
    ("object_get_blueprint_id", "ii.I", 0),
    ("object_get_outer_object", "ii.I", 0),
    ("actor_emit_event", "iiiii.", 0),
    ("sys_log", "iiii.", 0),
    ("sys_bech32_encode_address", "ii.I", 0),
    ("sys_panic", "ii.", 0),
    ("sys_get_transaction_hash", ".I", 0),
    ("sys_generate_ruid", ".I", 0),
    ("crypto_utils_bls12381_v1_verify", "iiiiii.i", 1),
    ("crypto_utils_bls12381_v1_aggregate_verify", "iiii.i", 1),
    ("crypto_utils_bls12381_v1_fast_aggregate_verify", "iiiiii.i", 1),
    ("crypto_utils_bls12381_g2_signature_aggregate", "ii.I", 1),
    ("crypto_utils_keccak256_hash", "ii.I", 1),
    ("crypto_utils_blake2b_256_hash", "ii.I", 2),
    ("crypto_utils_ed25519_verify", "iiiiii.i", 2),
    ("crypto_utils_secp256k1_ecdsa_verify", "iiiiii.i", 2),
    ("crypto_utils_secp256k1_ecdsa_verify_and_key_recover", "iiii.I", 2),
    ("crypto_utils_secp256k1_ecdsa_verify_and_key_recover_uncompressed", "iiii.I", 2),
];

// expected limits (the documented sandbox), used ONLY by the oracle
const X_MEM_PAGES: u64 = 64;
const X_TABLE: u64 = 1024;
const X_BR_TABLE: u64 = 256;
const X_FUNCS: usize = 8192;
const X_PARAMS: usize = 32;
const X_LOCALS: u64 = 256;
const X_GLOBALS: usize = 512;

fn version_of(v: u64) -> Option<ScryptoVmVersion> {
    ScryptoVmVersion::try_from(v).ok()
}

// ------------------------------------------------------------------------------------------------
// Module specification and builder (wasm-encoder)

#[derive(Clone, Copy, PartialEq, Eq, Debug)]
enum VT {
    I32,
    I64,
    F32,
    F64,
}
impl VT {
    fn ch(self) -> char {
        match self {
            VT::I32 => 'i',
            VT::I64 => 'I',
            VT::F32 => 'f',
            VT::F64 => 'F',
        }
    }
    fn enc(self) -> we::ValType {
        match self {
            VT::I32 => we::ValType::I32,
            VT::I64 => we::ValType::I64,
            VT::F32 => we::ValType::F32,
            VT::F64 => we::ValType::F64,
        }
    }
}
fn vts(s: &str) -> Vec<VT> {
    s.chars()
        .map(|c| match c {
            'i' => VT::I32,
            'I' => VT::I64,
            'f' => VT::F32,
            _ => VT::F64,
        })
        .collect()
}
fn sig_of(s: &str) -> (Vec<VT>, Vec<VT>) {
    let (p, r) = s.split_once('.').unwrap();
    (vts(p), vts(r))
}

#[derive(Clone, Debug)]
enum ImpKind {
    Func(Vec<VT>, Vec<VT>),
    Global,
    Memory(u64, Option<u64>),
    Table(u64),
}

#[derive(Clone, Debug)]
enum Extra {
    None,
    FloatOp,
    MemoryCopy,
    MemoryFill,
    SatTrunc,
    RefNull,
    SignExt,
    ReturnCall,
    AtomicFence,
    V128,
    MultiValueBlock,
    BadType, // i64.const where i32 is expected: invalid by type checking
}

#[derive(Clone, Debug)]
struct FuncSpec {
    params: Vec<VT>,
    results: Vec<VT>,
    locals: Vec<(u32, VT)>,
    br_tables: Vec<u32>,
    extra: Extra,
    grow: bool,
}

#[derive(Clone, Debug, Default)]
struct Spec {
    imports: Vec<(String, String, ImpKind)>,
    mem: Option<Vec<(u64, Option<u64>)>>,
    tab: Option<Vec<u64>>,
    globals: Vec<(VT, bool)>,
    funcs: Vec<FuncSpec>,
    exports: Option<Vec<(String, char, u32)>>,
    start: Option<u32>,
    data: Vec<(u32, u32)>,
    elems: Vec<(u32, u32)>,
    custom: bool,
}

fn const_of(t: VT) -> we::Instruction<'static> {
    match t {
        VT::I32 => we::Instruction::I32Const(7),
        VT::I64 => we::Instruction::I64Const(7),
        VT::F32 => we::Instruction::F32Const(1.5f32.into()),
        VT::F64 => we::Instruction::F64Const(1.5f64.into()),
    }
}

fn build(spec: &Spec) -> Vec<u8> {
    use we::Instruction as I;
    let mut types: Vec<(Vec<VT>, Vec<VT>)> = vec![];
    let ty_idx = |p: &Vec<VT>, r: &Vec<VT>, types: &mut Vec<(Vec<VT>, Vec<VT>)>| -> u32 {
        if let Some(i) = types.iter().position(|t| &t.0 == p && &t.1 == r) {
            i as u32
        } else {
            types.push((p.clone(), r.clone()));
            (types.len() - 1) as u32
        }
    };
    let mut imp_ty = vec![];
    for (_, _, k) in &spec.imports {
        if let ImpKind::Func(p, r) = k {
            imp_ty.push(Some(ty_idx(p, r, &mut types)));
        } else {
            imp_ty.push(None);
        }
    }
    let fn_ty: Vec<u32> = spec.funcs.iter().map(|f| ty_idx(&f.params, &f.results, &mut types)).collect();
    let mv_ty = if spec.funcs.iter().any(|f| matches!(f.extra, Extra::MultiValueBlock)) {
        Some(ty_idx(&vec![], &vec![VT::I32, VT::I32], &mut types))
    } else {
        None
    };

    let mut m = we::Module::new();
    if !types.is_empty() {
        let mut s = we::TypeSection::new();
        for (p, r) in &types {
            s.ty().function(p.iter().map(|t| t.enc()), r.iter().map(|t| t.enc()));
        }
        m.section(&s);
    }
    if !spec.imports.is_empty() {
        let mut s = we::ImportSection::new();
        for (i, (mo, na, k)) in spec.imports.iter().enumerate() {
            match k {
                ImpKind::Func(..) => {
                    s.import(mo, na, we::EntityType::Function(imp_ty[i].unwrap()));
                }
                ImpKind::Global => {
                    s.import(mo, na, we::EntityType::Global(we::GlobalType { val_type: we::ValType::I32, mutable: false, shared: false }));
                }
                ImpKind::Memory(a, b) => {
                    s.import(mo, na, we::EntityType::Memory(we::MemoryType { minimum: *a, maximum: *b, memory64: false, shared: false, page_size_log2: None }));
                }
                ImpKind::Table(a) => {
                    s.import(mo, na, we::EntityType::Table(we::TableType { element_type: we::RefType::FUNCREF, table64: false, minimum: *a, maximum: None, shared: false }));
                }
            }
        }
        m.section(&s);
    }
    if !spec.funcs.is_empty() {
        let mut s = we::FunctionSection::new();
        for t in &fn_ty {
            s.function(*t);
        }
        m.section(&s);
    }
    if let Some(tabs) = &spec.tab {
        let mut s = we::TableSection::new();
        for t in tabs {
            s.table(we::TableType { element_type: we::RefType::FUNCREF, table64: false, minimum: *t, maximum: None, shared: false });
        }
        m.section(&s);
    }
    if let Some(mems) = &spec.mem {
        let mut s = we::MemorySection::new();
        for (a, b) in mems {
            s.memory(we::MemoryType { minimum: *a, maximum: *b, memory64: false, shared: false, page_size_log2: None });
        }
        m.section(&s);
    }
    if !spec.globals.is_empty() {
        let mut s = we::GlobalSection::new();
        for (t, mu) in &spec.globals {
            let init = match t {
                VT::I32 => we::ConstExpr::i32_const(1),
                VT::I64 => we::ConstExpr::i64_const(1),
                VT::F32 => we::ConstExpr::f32_const(1.0f32.into()),
                VT::F64 => we::ConstExpr::f64_const(1.0f64.into()),
            };
            s.global(we::GlobalType { val_type: t.enc(), mutable: *mu, shared: false }, &init);
        }
        m.section(&s);
    }
    if let Some(exps) = &spec.exports {
        let mut s = we::ExportSection::new();
        for (n, k, i) in exps {
            let kind = match k {
                'f' => we::ExportKind::Func,
                't' => we::ExportKind::Table,
                'm' => we::ExportKind::Memory,
                _ => we::ExportKind::Global,
            };
            s.export(n, kind, *i);
        }
        m.section(&s);
    }
    if let Some(f) = spec.start {
        m.section(&we::StartSection { function_index: f });
    }
    if !spec.elems.is_empty() {
        let mut s = we::ElementSection::new();
        for (off, cnt) in &spec.elems {
            let fs: Vec<u32> = vec![0; *cnt as usize];
            s.active(None, &we::ConstExpr::i32_const(*off as i32), we::Elements::Functions(Cow::Owned(fs)));
        }
        m.section(&s);
    }
    if !spec.funcs.is_empty() {
        let mut s = we::CodeSection::new();
        for f in &spec.funcs {
            let mut b = we::Function::new(f.locals.iter().map(|(c, t)| (*c, t.enc())));
            for k in &f.br_tables {
                b.instruction(&I::Block(we::BlockType::Empty));
                b.instruction(&I::I32Const(0));
                b.instruction(&I::BrTable(Cow::Owned(vec![0u32; *k as usize]), 0));
                b.instruction(&I::End);
            }
            if f.grow {
                b.instruction(&I::I32Const(1));
                b.instruction(&I::MemoryGrow(0));
                b.instruction(&I::Drop);
            }
            match f.extra {
                Extra::None => {}
                Extra::FloatOp => {
                    b.instruction(&I::F32Const(1.0f32.into()));
                    b.instruction(&I::Drop);
                }
                Extra::MemoryCopy => {
                    b.instruction(&I::I32Const(0));
                    b.instruction(&I::I32Const(0));
                    b.instruction(&I::I32Const(0));
                    b.instruction(&I::MemoryCopy { src_mem: 0, dst_mem: 0 });
                }
                Extra::MemoryFill => {
                    b.instruction(&I::I32Const(0));
                    b.instruction(&I::I32Const(0));
                    b.instruction(&I::I32Const(0));
                    b.instruction(&I::MemoryFill(0));
                }
                Extra::SatTrunc => {
                    b.instruction(&I::F32Const(1.0f32.into()));
                    b.instruction(&I::I32TruncSatF32S);
                    b.instruction(&I::Drop);
                }
                Extra::RefNull => {
                    b.instruction(&I::RefNull(we::HeapType::FUNC));
                    b.instruction(&I::Drop);
                }
                Extra::SignExt => {
                    b.instruction(&I::I32Const(200));
                    b.instruction(&I::I32Extend8S);
                    b.instruction(&I::Drop);
                }
                Extra::ReturnCall => {
                    // only type-correct when the callee has the same result type; validity is the validator's business
                    b.instruction(&I::ReturnCall(spec.imports.iter().filter(|i| matches!(i.2, ImpKind::Func(..))).count() as u32));
                }
                Extra::AtomicFence => {
                    b.instruction(&I::AtomicFence);
                }
                Extra::V128 => {
                    b.instruction(&I::V128Const(1));
                    b.instruction(&I::Drop);
                }
                Extra::MultiValueBlock => {
                    b.instruction(&I::Block(we::BlockType::FunctionType(mv_ty.unwrap())));
                    b.instruction(&I::I32Const(1));
                    b.instruction(&I::I32Const(2));
                    b.instruction(&I::End);
                    b.instruction(&I::Drop);
                    b.instruction(&I::Drop);
                }
                Extra::BadType => {
                    b.instruction(&I::I64Const(1));
                    b.instruction(&I::I32Eqz);
                    b.instruction(&I::Drop);
                }
            }
            for r in &f.results {
                b.instruction(&const_of(*r));
            }
            b.instruction(&I::End);
            s.function(&b);
        }
        m.section(&s);
    }
    if !spec.data.is_empty() {
        let mut s = we::DataSection::new();
        for (off, len) in &spec.data {
            s.active(0, &we::ConstExpr::i32_const(*off as i32), vec![0xabu8; *len as usize]);
        }
        m.section(&s);
    }
    if spec.custom {
        m.section(&we::CustomSection { name: Cow::Borrowed("producers"), data: Cow::Borrowed(&[1, 2, 3]) });
    }
    m.finish()
}

// ------------------------------------------------------------------------------------------------
// Independent summary (wasmparser 0.244 walk)

#[derive(Default, Debug, Clone)]
struct Summary {
    wf: &'static str,
    float: bool,
    start: bool,
    imports: Vec<(String, String, char, String)>, // module, name, kind, sig
    mem: Option<Vec<(u64, Option<u64>)>>,
    tab: Option<Vec<u64>>,
    brs: Vec<u64>,
    funcs: Vec<(String, Vec<u64>)>, // sig, local groups
    globals: usize,
    exports: Option<Vec<(String, char, u32)>>,
    data: Vec<(u64, u64)>,
    elems: Vec<(u64, u64)>,
}

fn esc(n: &str) -> String {
    if n.is_empty() {
        "~".to_string()
    } else if n.bytes().all(|c| c.is_ascii_alphanumeric() || c == b'_' || c == b'.' || c == b'$' || c == b'-') {
        n.to_string()
    } else {
        format!("%{}", hex::encode(n.as_bytes()))
    }
}

fn vt_ch(t: &wp::ValType, float: &mut bool) -> char {
    match t {
        wp::ValType::I32 => 'i',
        wp::ValType::I64 => 'I',
        wp::ValType::F32 => {
            *float = true;
            'f'
        }
        wp::ValType::F64 => {
            *float = true;
            'F'
        }
        _ => 'x',
    }
}

fn is_float_op(op: &wp::Operator) -> bool {
    let s = format!("{:?}", op);
    let name = s.split(|c: char| !c.is_ascii_alphanumeric()).next().unwrap_or("");
    // F32Const, F64Add, I32TruncF32S, F32ConvertI32S, I32ReinterpretF32, F32Load, …
    name.contains("F32") || name.contains("F64")
}

fn walk_features() -> wp::WasmFeatures {
    // what the walk itself may read (floats and the post-MVP proposals are *read* so that they can be reported)
    wp::WasmFeatures::default()
}

fn strict_features() -> wp::WasmFeatures {
    // the feature set of WasmModule::init: MVP + mutable globals + sign extension, floats OFF
    wp::WasmFeatures::MUTABLE_GLOBAL | wp::WasmFeatures::SIGN_EXTENSION
}

fn summarize(bytes: &[u8]) -> Summary {
    // Quirk of the real pipeline, reproduced here so that the walk classifies like it: wasmparser 0.107's *parser*
    // checks the magic and the layer field of the header but not the version number (its *validator* does), and
    // `ModuleInfo::validate` validates the re-encoded module (fresh header), so the version number of the input
    // is never looked at. The output module always carries version 1.
    let patched: Vec<u8>;
    let bytes: &[u8] = if bytes.len() >= 8 && bytes[0..4] == [0x00, 0x61, 0x73, 0x6d] && bytes[6..8] == [0, 0] && bytes[4..6] != [1, 0] {
        let mut b = bytes.to_vec();
        b[4] = 1;
        b[5] = 0;
        patched = b;
        &patched
    } else {
        bytes
    };
    let mut s = Summary::default();
    s.wf = "ok";
    let mut types: Vec<String> = vec![];
    let mut fn_types: Vec<u32> = vec![];
    let mut bodies: Vec<Vec<u64>> = vec![];
    let mut seen_sections: Vec<u8> = vec![];
    let mut body_error = false;
    let mut sec = |id: u8, s: &mut Summary| {
        if seen_sections.contains(&id) {
            s.wf = "deser";
        }
        seen_sections.push(id);
    };
    let r = (|| -> Result<(), wp::BinaryReaderError> {
        let mut parser = wp::Parser::new(0);
        parser.set_features(walk_features());
        for payload in parser.parse_all(bytes) {
            match payload? {
                wp::Payload::Version { .. } => {}
                wp::Payload::TypeSection(r) => {
                    sec(1, &mut s);
                    for rg in r {
                        for st in rg?.into_types() {
                            match &st.composite_type.inner {
                                wp::CompositeInnerType::Func(ft) => {
                                    let mut t = String::new();
                                    for p in ft.params() {
                                        t.push(vt_ch(p, &mut s.float));
                                    }
                                    t.push('.');
                                    for p in ft.results() {
                                        t.push(vt_ch(p, &mut s.float));
                                    }
                                    types.push(t);
                                }
                                _ => types.push("x.x".to_string()),
                            }
                        }
                    }
                }
                wp::Payload::ImportSection(r) => {
                    sec(2, &mut s);
                    for imp in r.into_imports() {
                        let imp = imp?;
                        let (k, sg) = match imp.ty {
                            wp::TypeRef::Func(t) => ('f', types.get(t as usize).cloned().unwrap_or("x.x".to_string())),
                            wp::TypeRef::Global(g) => {
                                let _ = vt_ch(&g.content_type, &mut s.float);
                                ('g', String::new())
                            }
                            wp::TypeRef::Memory(_) => ('m', String::new()),
                            wp::TypeRef::Table(_) => ('t', String::new()),
                            _ => ('x', String::new()),
                        };
                        s.imports.push((imp.module.to_string(), imp.name.to_string(), k, sg));
                    }
                }
                wp::Payload::FunctionSection(r) => {
                    sec(3, &mut s);
                    for f in r {
                        fn_types.push(f?);
                    }
                }
                wp::Payload::TableSection(r) => {
                    sec(4, &mut s);
                    let mut v = vec![];
                    for t in r {
                        v.push(t?.ty.initial);
                    }
                    s.tab = Some(v);
                }
                wp::Payload::MemorySection(r) => {
                    sec(5, &mut s);
                    let mut v = vec![];
                    for t in r {
                        let t = t?;
                        v.push((t.initial, t.maximum));
                    }
                    s.mem = Some(v);
                }
                wp::Payload::GlobalSection(r) => {
                    sec(6, &mut s);
                    for g in r {
                        let g = g?;
                        let _ = vt_ch(&g.ty.content_type, &mut s.float);
                        for op in g.init_expr.get_operators_reader() {
                            if is_float_op(&op?) {
                                s.float = true;
                            }
                        }
                        s.globals += 1;
                    }
                }
                wp::Payload::ExportSection(r) => {
                    sec(7, &mut s);
                    let mut v = vec![];
                    for e in r {
                        let e = e?;
                        let k = match e.kind {
                            wp::ExternalKind::Func => 'f',
                            wp::ExternalKind::Table => 't',
                            wp::ExternalKind::Memory => 'm',
                            wp::ExternalKind::Global => 'g',
                            _ => 'x',
                        };
                        v.push((e.name.to_string(), k, e.index));
                    }
                    s.exports = Some(v);
                }
                wp::Payload::StartSection { .. } => {
                    sec(8, &mut s);
                    s.start = true;
                }
                wp::Payload::ElementSection(r) => {
                    sec(9, &mut s);
                    for e in r {
                        let e = e?;
                        let cnt = match &e.items {
                            wp::ElementItems::Functions(f) => f.count() as u64,
                            wp::ElementItems::Expressions(_, x) => x.count() as u64,
                        };
                        if let wp::ElementKind::Active { offset_expr, .. } = &e.kind {
                            let mut off = None;
                            for op in offset_expr.get_operators_reader() {
                                if let wp::Operator::I32Const { value } = op? {
                                    off = Some(value as u32 as u64);
                                }
                            }
                            if let Some(o) = off {
                                s.elems.push((o, cnt));
                            }
                        }
                    }
                }
                wp::Payload::DataCountSection { .. } => {
                    sec(12, &mut s);
                }
                wp::Payload::DataSection(r) => {
                    sec(11, &mut s);
                    for d in r {
                        let d = d?;
                        if let wp::DataKind::Active { offset_expr, .. } = &d.kind {
                            let mut off = None;
                            for op in offset_expr.get_operators_reader() {
                                if let wp::Operator::I32Const { value } = op? {
                                    off = Some(value as u32 as u64);
                                }
                            }
                            if let Some(o) = off {
                                s.data.push((o, d.data.len() as u64));
                            }
                        }
                    }
                }
                wp::Payload::CodeSectionStart { .. } => {
                    sec(10, &mut s);
                }
                wp::Payload::CodeSectionEntry(body) => {
                    // `ModuleInfo::new` skips the code section: whatever is wrong inside a body is found by the
                    // validator (ValidationError), not by deserialization
                    let mut groups = vec![];
                    let r = (|| -> Result<(), wp::BinaryReaderError> {
                        for l in body.get_locals_reader()? {
                            let (c, t) = l?;
                            let _ = vt_ch(&t, &mut s.float);
                            groups.push(c as u64);
                        }
                        for op in body.get_operators_reader()? {
                            let op = op?;
                            if let wp::Operator::BrTable { targets } = &op {
                                s.brs.push(targets.len() as u64);
                            }
                            if is_float_op(&op) {
                                s.float = true;
                            }
                        }
                        Ok(())
                    })();
                    if r.is_err() {
                        body_error = true;
                    }
                    bodies.push(groups);
                }
                wp::Payload::CustomSection(_) => {}
                wp::Payload::End(_) => {}
                _ => {
                    // tag section, component-model payloads: `ModuleInfo::new` does not support them
                    s.wf = "deser";
                }
            }
        }
        Ok(())
    })();
    if r.is_err() {
        s.wf = "deser";
        return s;
    }
    if s.wf == "deser" {
        return s;
    }
    for (i, t) in fn_types.iter().enumerate() {
        let sg = types.get(*t as usize).cloned().unwrap_or("x.x".to_string());
        s.funcs.push((sg, bodies.get(i).cloned().unwrap_or_default()));
    }
    let mut v = wp::Validator::new_with_features(strict_features());
    if body_error || fn_types.len() != bodies.len() || v.validate_all(bytes).is_err() {
        s.wf = "invalid";
    }
    s
}

fn fields(s: &Summary) -> String {
    let mut o = String::new();
    let join = |v: Vec<String>, sep: &str| if v.is_empty() { "-".to_string() } else { v.join(sep) };
    write!(o, "wf={} float={} start={}", s.wf, s.float as u8, s.start as u8).unwrap();
    write!(
        o,
        " imp={}",
        join(
            s.imports.iter().map(|(m, n, k, sg)| if *k == 'f' { format!("{}/{}/f/{}", esc(m), esc(n), sg) } else { format!("{}/{}/{}", esc(m), esc(n), k) }).collect(),
            ";"
        )
    )
    .unwrap();
    match &s.mem {
        None => o.push_str(" mem=none"),
        Some(v) => write!(o, " mem={}", join(v.iter().map(|(a, b)| format!("{}:{}", a, b.map(|x| x.to_string()).unwrap_or("-".into()))).collect(), ",")).unwrap(),
    }
    match &s.tab {
        None => o.push_str(" tab=none"),
        Some(v) => write!(o, " tab={}", join(v.iter().map(|a| a.to_string()).collect(), ",")).unwrap(),
    }
    write!(o, " brs={}", join(s.brs.iter().map(|a| a.to_string()).collect(), ",")).unwrap();
    write!(
        o,
        " funcs={}",
        join(s.funcs.iter().map(|(sg, g)| format!("{}/{}", sg, join(g.iter().map(|x| x.to_string()).collect(), "+"))).collect(), ";")
    )
    .unwrap();
    write!(o, " globals={}", s.globals).unwrap();
    match &s.exports {
        None => o.push_str(" exp=none"),
        Some(v) => write!(o, " exp={}", join(v.iter().map(|(n, k, i)| format!("{}/{}/{}", esc(n), k, i)).collect(), ";")).unwrap(),
    }
    write!(o, " data={}", join(s.data.iter().map(|(a, b)| format!("{}:{}", a, b)).collect(), ",")).unwrap();
    write!(o, " elem={}", join(s.elems.iter().map(|(a, b)| format!("{}:{}", a, b)).collect(), ",")).unwrap();
    o
}

fn line_of(v: u64, req: &[String], bytes: &[u8]) -> String {
    let s = summarize(bytes);
    let r = if req.is_empty() { "-".to_string() } else { req.iter().map(|x| esc(x)).collect::<Vec<_>>().join(",") };
    format!("mod v={} req={} {} code={}", v, r, fields(&s), hex(bytes))
}

// ------------------------------------------------------------------------------------------------
// Running the real validator

fn err_text(e: &PrepareError) -> String {
    use PrepareError::*;
    match e {
        DeserializationError => "DeserializationError".into(),
        ValidationError(_) => "ValidationError".into(),
        SerializationError => "SerializationError".into(),
        StartFunctionNotAllowed => "StartFunctionNotAllowed".into(),
        InvalidImport(i) => match i {
            radix_engine::vm::wasm::InvalidImport::ImportNotAllowed(n) => format!("InvalidImport.ImportNotAllowed {}", esc(n)),
            radix_engine::vm::wasm::InvalidImport::ProtocolVersionMismatch { name, current_version, expected_version } => {
                format!("InvalidImport.ProtocolVersionMismatch {} {} {}", esc(name), current_version, expected_version)
            }
            radix_engine::vm::wasm::InvalidImport::InvalidFunctionType(n) => format!("InvalidImport.InvalidFunctionType {}", esc(n)),
        },
        InvalidMemory(m) => format!("InvalidMemory.{:?}", m),
        InvalidTable(t) => format!("InvalidTable.{:?}", t),
        InvalidExportName(n) => format!("InvalidExportName {}", esc(n)),
        TooManyTargetsInBrTable => "TooManyTargetsInBrTable".into(),
        TooManyFunctions => "TooManyFunctions".into(),
        TooManyFunctionParams => "TooManyFunctionParams".into(),
        TooManyFunctionLocals { max, actual } => format!("TooManyFunctionLocals {} {}", max, actual),
        TooManyGlobals { max, current } => format!("TooManyGlobals {} {}", max, current),
        NoExportSection => "NoExportSection".into(),
        MissingExport { export_name } => format!("MissingExport {}", esc(export_name)),
        NoScryptoAllocExport => "NoScryptoAllocExport".into(),
        NoScryptoFreeExport => "NoScryptoFreeExport".into(),
        RejectedByInstructionMetering { .. } => "RejectedByInstructionMetering".into(),
        RejectedByStackMetering { .. } => "RejectedByStackMetering".into(),
        NotInstantiatable { .. } => "NotInstantiatable".into(),
        NotCompilable => "NotCompilable".into(),
        ModuleInfoError(_) => "ModuleInfoError".into(),
        WasmParserError(_) => "WasmParserError".into(),
        Overflow => "Overflow".into(),
    }
}

fn run_validate(v: ScryptoVmVersion, req: &[String], code: &[u8]) -> Result<Result<(Vec<u8>, Vec<String>), PrepareError>, String> {
    let fns: Vec<(String, String)> = req.iter().enumerate().map(|(i, e)| (format!("f{}", i), e.clone())).collect();
    let def = PackageDefinition::new_functions_only_test_definition("Bp", fns.iter().map(|(f, e)| (f.as_str(), e.as_str(), false)).collect());
    catch(|| ScryptoV1WasmValidator::new(v).validate(code, def.blueprints.values()))
}

/// The sandbox rules stated directly on the accepted input (summary by the independent walk) and on the
/// output module. Returns the first violated rule.
fn sandbox_oracle(v: u64, req: &[String], inp: &Summary, out_bytes: &[u8], out_exports: &[String]) -> Option<(String, String)> {
    // The input rules are evaluated on the walk's summary of the input. When the independent (newer, stricter)
    // parser cannot read the input at all, they are evaluated on the summary of the output module instead
    // (minus what instrumentation adds); that the accepted code is well-typed float-free MVP code is checked
    // on the output module below in either case.
    let out_sum;
    let substituted = inp.wf == "deser";
    let inp: &Summary = if inp.wf == "deser" {
        let mut o = summarize(out_bytes);
        o.imports.retain(|i| !(i.0 == "env" && i.1 == "gas"));
        o.globals = o.globals.saturating_sub(1);
        out_sum = o;
        &out_sum
    } else {
        inp
    };
    let inp_unreadable = inp.wf == "deser";
    if inp_unreadable {
        return Some(("output-unreadable".into(), "neither the input nor the output can be read by the independent parser".into()));
    }
    if inp.float {
        return Some(("accepted-float".into(), "accepted module uses floating point".into()));
    }
    if inp.start {
        return Some(("accepted-start".into(), "accepted module has a start function".into()));
    }
    for (m, n, k, sg) in &inp.imports {
        let ok = m == "env" && *k == 'f' && EXPECTED_HOST.iter().any(|(en, es, ev)| en == n && es == sg && v >= *ev);
        if !ok {
            return Some((format!("import-not-permitted:{}", esc(n)), format!("accepted module imports {}.{} kind {} sig {} at version {}", m, n, k, sg, v)));
        }
    }
    match &inp.mem {
        Some(ms) if ms.len() == 1 => {
            let (i, mx) = ms[0];
            if i > X_MEM_PAGES || mx.map(|x| x > X_MEM_PAGES).unwrap_or(false) {
                return Some(("accepted-memory:limit".into(), format!("memory {:?} exceeds {} pages", ms[0], X_MEM_PAGES)));
            }
        }
        other => return Some(("accepted-memory:count".into(), format!("accepted module does not define exactly one memory: {:?}", other))),
    }
    if !inp.exports.as_ref().map(|e| e.iter().any(|(n, k, _)| n == "memory" && *k == 'm')).unwrap_or(false) {
        return Some(("accepted-memory:not-exported".into(), "memory is not exported as `memory`".into()));
    }
    if let Some(t) = &inp.tab {
        if t.len() > 1 || t.iter().any(|x| *x > X_TABLE) {
            return Some(("accepted-table".into(), format!("tables {:?}", t)));
        }
    }
    if let Some(b) = inp.brs.iter().find(|b| **b > X_BR_TABLE) {
        return Some(("accepted-brtable".into(), format!("br_table with {} targets", b)));
    }
    if inp.funcs.len() > X_FUNCS {
        return Some(("accepted-too-many-functions".into(), format!("{} functions", inp.funcs.len())));
    }
    let nimp = inp.imports.iter().filter(|i| i.2 == 'f').count();
    for (i, (sg, groups)) in inp.funcs.iter().enumerate() {
        let np = sg.split('.').next().unwrap().len();
        if np > X_PARAMS {
            let key = if nimp > 0 && i + nimp >= inp.funcs.len() { "params-unchecked-after-imports" } else { "accepted-params" };
            return Some((key.into(), format!("accepted module: local function {} (of {}, {} imported functions) has {} parameters > {}", i, inp.funcs.len(), nimp, np, X_PARAMS)));
        }
        let nl: u64 = groups.iter().sum();
        if nl > X_LOCALS {
            return Some(("accepted-locals".into(), format!("local function {} has {} locals", i, nl)));
        }
    }
    if inp.globals > X_GLOBALS {
        return Some(("accepted-globals".into(), format!("{} globals", inp.globals)));
    }
    for r in req {
        let okx = inp.exports.as_ref().map(|e| e.iter().any(|(n, k, idx)| n == r && *k == 'f' && {
            let all: Vec<&str> = inp.imports.iter().filter(|i| i.2 == 'f').map(|i| i.3.as_str()).chain(inp.funcs.iter().map(|f| f.0.as_str())).collect();
            all.get(*idx as usize).map(|s| *s == "I.I").unwrap_or(false)
        })).unwrap_or(false);
        if !okx {
            return Some(("missing-required-export".into(), format!("blueprint export {} missing or of wrong type", r)));
        }
    }
    // ---- output module
    let out = summarize(out_bytes);
    let mut full = wp::Validator::new_with_features(strict_features());
    if out.wf != "ok" || full.validate_all(out_bytes).is_err() {
        return Some(("output-invalid".into(), "the instrumented module is not a valid MVP(+mutable-global,+sign-ext) module without floats".into()));
    }
    if out.start || out.float {
        return Some(("output-start-or-float".into(), "instrumented module has a start function or floats".into()));
    }
    match &out.mem {
        Some(ms) if ms.len() == 1 && ms[0].0 <= X_MEM_PAGES && ms[0].1.map(|x| x <= X_MEM_PAGES).unwrap_or(false) => {}
        other => return Some(("output-memory-max-not-injected".into(), format!("output memory {:?}", other))),
    }
    let gas: Vec<usize> = out.imports.iter().enumerate().filter(|(_, i)| i.0 == "env" && i.1 == "gas").map(|(i, _)| i).collect();
    if gas.len() != 1 || out.imports[gas[0]].2 != 'f' || out.imports[gas[0]].3 != "I." {
        return Some(("no-gas-import".into(), "instrumented module does not import env.gas : (i64) -> ()".into()));
    }
    if out.imports.len() != inp.imports.len() + 1 {
        return Some(("output-imports".into(), "instrumented module has other additional imports".into()));
    }
    if out.globals != inp.globals + 1 {
        return Some(("no-stack-limiter".into(), format!("expected one added stack-height global, globals {} -> {}", inp.globals, out.globals)));
    }
    if out.funcs.len() < inp.funcs.len() {
        return Some(("output-functions".into(), "functions disappeared".into()));
    }
    // every original function body with a charged instruction starts with `i64.const c; call gas`
    if substituted {
        return None;
    }
    if let Some(k) = metering_missing(out_bytes, gas[0] as u32, inp) {
        return Some(("no-metering".into(), format!("function {} of the instrumented module does not start with a gas charge", k)));
    }
    let fe: Vec<String> = inp.exports.as_ref().map(|e| e.iter().filter(|x| x.1 == 'f').map(|x| x.0.clone()).collect()).unwrap_or_default();
    if fe != out_exports {
        return Some(("function-exports".into(), format!("returned function exports {:?} differ from the module's {:?}", out_exports, fe)));
    }
    None
}

fn metering_missing(out_bytes: &[u8], gas_idx: u32, inp: &Summary) -> Option<usize> {
    let mut k = 0usize;
    for payload in wp::Parser::new(0).parse_all(out_bytes) {
        if let Ok(wp::Payload::CodeSectionEntry(body)) = payload {
            if k >= inp.funcs.len() {
                break;
            }
            let ops: Vec<wp::Operator> = body.get_operators_reader().ok()?.into_iter().filter_map(|x| x.ok()).collect();
            let nlocals: u64 = inp.funcs[k].1.iter().sum();
            let charged = nlocals > 0 || ops.iter().any(|o| !matches!(o, wp::Operator::End | wp::Operator::Return | wp::Operator::Unreachable | wp::Operator::Else));
            if charged {
                let ok = matches!(ops.first(), Some(wp::Operator::I64Const { .. })) && matches!(ops.get(1), Some(wp::Operator::Call { function_index }) if *function_index == gas_idx);
                if !ok {
                    return Some(k);
                }
            }
            k += 1;
        }
    }
    None
}

fn out_mem(out_bytes: &[u8]) -> String {
    let o = summarize(out_bytes);
    match o.mem.as_ref().and_then(|m| m.first().cloned()) {
        Some((i, mx)) => format!("{}:{}", i, mx.map(|x| x.to_string()).unwrap_or("-".into())),
        None => "none".into(),
    }
}

fn answer_for(v: u64, req: &[String], code: &[u8], inp: &Summary) -> Answer {
    let ver = match version_of(v) {
        Some(x) => x,
        None => return Answer::ok("bad-op"),
    };
    match run_validate(ver, req, code) {
        Err(p) => Answer::fail("panic", "panic", format!("validate panicked: {}", p)),
        Ok(Err(e)) => Answer::ok(format!("err {}", err_text(&e))),
        Ok(Ok((out, exps))) => {
            let ex = if exps.is_empty() { "-".to_string() } else { exps.iter().map(|x| esc(x)).collect::<Vec<_>>().join(",") };
            let ans = format!("ok mem={} exports={}", out_mem(&out), ex);
            match sandbox_oracle(v, req, inp, &out, &exps) {
                Some((k, d)) => Answer::fail(ans, k, d),
                None => Answer::ok(ans),
            }
        }
    }
}

// ------------------------------------------------------------------------------------------------
// Generator

const LIMIT_NEAR: [i64; 5] = [-1, 0, 1, 0, 0];

fn near(rng: &mut Rng, limit: u64) -> u64 {
    match rng.below(10) {
        0 => limit - 1,
        1 => limit,
        2 => limit + 1,
        3 => limit + 1 + rng.below(40),
        4 => 0,
        _ => rng.below(limit.min(12) + 1),
    }
}

fn ident(rng: &mut Rng) -> String {
    const GOOD: &[&str] = &["Test_f", "Bp_new", "Bp_get", "alloc", "free_mem", "x", "_a", "A9", "async", "dyn", "try", "union", "memory2", "Memory"];
    const BAD: &[&str] = &["", "_", "fn", "self", "Self", "type", "9a", "a-b", "a.b", "$x", "mod", "crate", "yield", "typeof", "a$", "-", "."];
    if rng.chance(1, 6) {
        BAD[rng.below(BAD.len() as u64) as usize].to_string()
    } else {
        GOOD[rng.below(GOOD.len() as u64) as usize].to_string()
    }
}

fn base_spec(rng: &mut Rng) -> Spec {
    let mut s = Spec::default();
    s.mem = Some(vec![(1, if rng.chance(1, 2) { Some(1 + rng.below(8)) } else { None })]);
    s.exports = Some(vec![("memory".into(), 'm', 0)]);
    let nf = rng.below(4) as usize;
    for _ in 0..nf {
        s.funcs.push(simple_func(rng));
    }
    s
}

fn simple_func(rng: &mut Rng) -> FuncSpec {
    let np = rng.below(4) as usize;
    let params = (0..np).map(|_| if rng.chance(1, 2) { VT::I32 } else { VT::I64 }).collect();
    let results = match rng.below(3) {
        0 => vec![],
        1 => vec![VT::I32],
        _ => vec![VT::I64],
    };
    let mut locals = vec![];
    for _ in 0..rng.below(3) {
        locals.push((rng.below(5) as u32, if rng.chance(1, 2) { VT::I32 } else { VT::I64 }));
    }
    let mut brs = vec![];
    if rng.chance(1, 5) {
        brs.push(rng.below(6) as u32);
    }
    FuncSpec { params, results, locals, br_tables: brs, extra: Extra::None, grow: false }
}

fn export_fn(s: &mut Spec, name: &str) -> u32 {
    // add an (i64) -> i64 function and export it under `name`
    let nimp = s.imports.iter().filter(|i| matches!(i.2, ImpKind::Func(..))).count() as u32;
    s.funcs.push(FuncSpec { params: vec![VT::I64], results: vec![VT::I64], locals: vec![], br_tables: vec![], extra: Extra::None, grow: false });
    let idx = nimp + s.funcs.len() as u32 - 1;
    s.exports.get_or_insert_with(Vec::new).push((name.to_string(), 'f', idx));
    idx
}

fn gen_case(rng: &mut Rng) -> (u64, Vec<String>, Vec<u8>) {
    let mut v = rng.below(3);
    let mut req: Vec<String> = vec![];
    let mut s = base_spec(rng);
    // a few host imports in most cases (they shift the function index space)
    if rng.chance(3, 5) {
        for _ in 0..1 + rng.below(3) {
            let (n, sg, mv) = EXPECTED_HOST[rng.below(EXPECTED_HOST.len() as u64) as usize];
            if *mv_le(&mv, v) || rng.chance(1, 8) {
                let (p, r) = sig_of(sg);
                s.imports.push(("env".into(), n.to_string(), ImpKind::Func(p, r)));
            }
        }
    }
    if rng.chance(1, 2) {
        let n = ["Test_f", "Bp_new", "Bp_get"][rng.below(3) as usize];
        export_fn(&mut s, n);
        req.push(n.to_string());
    }
    let mut fix_exports_after_import_change = false;
    match rng.below(26) {
        0 => {
            // start function
            s.funcs.push(FuncSpec { params: vec![], results: vec![], locals: vec![], br_tables: vec![], extra: Extra::None, grow: false });
            let nimp = s.imports.iter().filter(|i| matches!(i.2, ImpKind::Func(..))).count() as u32;
            s.start = Some(nimp + s.funcs.len() as u32 - 1);
        }
        1 => {
            // import problems: wrong module / unknown name / wrong signature / version / non-function kinds
            let (n, sg, _) = EXPECTED_HOST[rng.below(EXPECTED_HOST.len() as u64) as usize];
            let (mut p, mut r) = sig_of(sg);
            let mut mo = "env".to_string();
            let mut na = n.to_string();
            let mut kind = None;
            match rng.below(8) {
                0 => mo = ["Env", "env2", "", "host"][rng.below(4) as usize].to_string(),
                1 => na = ["gas", "foo", "", "object_call2", "test_host_read_memory", "memory"][rng.below(6) as usize].to_string(),
                2 => p.push(VT::I32),
                3 => {
                    if p.is_empty() {
                        p.push(VT::I64)
                    } else {
                        p.pop();
                    }
                }
                4 => r = if r.is_empty() { vec![VT::I32] } else if r[0] == VT::I32 { vec![VT::I64] } else { vec![] },
                5 => {
                    if !p.is_empty() {
                        let k = rng.below(p.len() as u64) as usize;
                        p[k] = VT::I64;
                    }
                }
                6 => kind = Some(ImpKind::Global),
                _ => kind = Some(if rng.chance(1, 2) { ImpKind::Table(1) } else { ImpKind::Memory(1, None) }),
            }
            if matches!(kind, Some(ImpKind::Memory(..))) && rng.chance(1, 2) {
                s.mem = None; // otherwise two memories: a validation error
                s.exports = Some(vec![("memory".into(), 'm', 0)]);
            }
            let k = kind.unwrap_or(ImpKind::Func(p, r));
            let pos = rng.below(s.imports.len() as u64 + 1) as usize;
            if matches!(k, ImpKind::Func(..)) {
                fix_exports_after_import_change = true;
            }
            s.imports.insert(pos, (mo, na, k));
        }
        2 => {
            // version gating
            let gated: Vec<_> = EXPECTED_HOST.iter().filter(|h| h.2 > 0).collect();
            let (n, sg, _) = **rng.pick(&gated);
            let (p, r) = sig_of(sg);
            s.imports.push(("env".into(), n.to_string(), ImpKind::Func(p, r)));
            fix_exports_after_import_change = true;
            v = rng.below(3);
        }
        3 => {
            // export names
            for _ in 0..1 + rng.below(3) {
                let n = ident(rng);
                if !s.exports.as_ref().unwrap().iter().any(|e| e.0 == n) {
                    if s.funcs.is_empty() {
                        s.funcs.push(simple_func(rng));
                    }
                    let nimp = s.imports.iter().filter(|i| matches!(i.2, ImpKind::Func(..))).count() as u32;
                    s.exports.as_mut().unwrap().push((n, 'f', nimp));
                }
            }
        }
        4 => {
            // memory: section missing / empty / limits
            match rng.below(6) {
                0 => {
                    s.mem = None;
                    s.exports = if rng.chance(1, 2) { None } else { Some(vec![]) };
                    req.clear();
                    s.funcs.clear();
                }
                1 => {
                    s.mem = Some(vec![]);
                    s.exports = Some(vec![]);
                    req.clear();
                    s.funcs.clear();
                }
                2 => s.mem = Some(vec![(near(rng, 64), None)]),
                3 => {
                    let i = rng.below(5);
                    s.mem = Some(vec![(i, Some(near(rng, 64).max(i)))]);
                }
                4 => s.mem = Some(vec![(near(rng, 64), Some(near(rng, 64) + 70))]),
                _ => s.mem = Some(vec![(1, None), (1, None)]),
            }
        }
        5 => {
            // memory not exported / exported under another name / another kind called `memory`
            let e = s.exports.as_mut().unwrap();
            e.retain(|x| x.1 != 'm');
            match rng.below(4) {
                0 => {}
                1 => e.push(("mem".into(), 'm', 0)),
                2 => {
                    s.globals.push((VT::I32, false));
                    e.push(("memory".into(), 'g', 0));
                }
                _ => {
                    if rng.chance(1, 2) {
                        s.exports = None;
                        req.clear();
                    }
                }
            }
        }
        6 => {
            // tables
            match rng.below(3) {
                0 => s.tab = Some(vec![near(rng, 1024)]),
                1 => s.tab = Some(vec![]),
                _ => s.tab = Some(vec![1, 1]),
            }
        }
        7 => {
            // br_table
            if s.funcs.is_empty() {
                s.funcs.push(simple_func(rng));
            }
            let k = rng.below(s.funcs.len() as u64) as usize;
            s.funcs[k].br_tables.push(near(rng, 256) as u32);
        }
        8 => {
            // number of functions (rare: big modules)
            if rng.chance(1, 30) {
                let n = [8191usize, 8192, 8193][rng.below(3) as usize];
                while s.funcs.len() < n {
                    s.funcs.push(FuncSpec { params: vec![], results: vec![], locals: vec![], br_tables: vec![], extra: Extra::None, grow: false });
                }
            }
        }
        9 | 10 => {
            // parameters: limit−1/limit/limit+1 at a chosen position among the local functions
            let np = near(rng, 32).max(1) as usize;
            let f = FuncSpec { params: vec![VT::I32; np], results: vec![], locals: vec![], br_tables: vec![], extra: Extra::None, grow: false };
            let pos = match rng.below(3) {
                0 => 0,
                1 => s.funcs.len(),
                _ => rng.below(s.funcs.len() as u64 + 1) as usize,
            };
            // exported function indices refer to positions: keep exports valid by appending only when exports point to funcs
            if pos == s.funcs.len() {
                s.funcs.push(f);
            } else {
                // inserting shifts indices of exported functions: re-point function exports
                s.funcs.insert(pos, f);
                fix_exports_after_import_change = true;
            }
        }
        11 => {
            // locals
            if s.funcs.is_empty() {
                s.funcs.push(simple_func(rng));
            }
            let k = rng.below(s.funcs.len() as u64) as usize;
            let total = near(rng, 256);
            let a = rng.below(total + 1);
            s.funcs[k].locals = vec![(a as u32, VT::I32), ((total - a) as u32, VT::I64)];
            if rng.chance(1, 10) {
                s.funcs[k].locals = vec![(u32::MAX, VT::I32), (u32::MAX, VT::I64)];
            }
        }
        12 => {
            // globals
            let n = near(rng, 512);
            s.globals = (0..n).map(|i| (if i % 3 == 0 { VT::I64 } else { VT::I32 }, i % 2 == 0)).collect();
        }
        13 => {
            // required blueprint exports: missing / wrong type / wrong kind
            let n = "Bp_missing".to_string();
            match rng.below(4) {
                0 => {}
                1 => {
                    // exported with another signature
                    s.funcs.push(FuncSpec { params: vec![VT::I32], results: vec![VT::I64], locals: vec![], br_tables: vec![], extra: Extra::None, grow: false });
                    let nimp = s.imports.iter().filter(|i| matches!(i.2, ImpKind::Func(..))).count() as u32;
                    let idx = nimp + s.funcs.len() as u32 - 1;
                    s.exports.as_mut().unwrap().push((n.clone(), 'f', idx));
                }
                2 => {
                    s.globals.push((VT::I64, false));
                    s.exports.as_mut().unwrap().push((n.clone(), 'g', 0));
                }
                _ => {
                    // exported host import with matching name but host signature
                    if let Some(pos) = s.imports.iter().position(|i| matches!(i.2, ImpKind::Func(..))) {
                        let fpos = s.imports[..pos].iter().filter(|i| matches!(i.2, ImpKind::Func(..))).count() as u32;
                        s.exports.as_mut().unwrap().push((n.clone(), 'f', fpos));
                    }
                }
            }
            req.insert(rng.below(req.len() as u64 + 1) as usize, n);
        }
        14 => {
            // floats: type / local / global / instruction
            match rng.below(4) {
                0 => s.funcs.push(FuncSpec { params: vec![VT::F64], results: vec![], locals: vec![], br_tables: vec![], extra: Extra::None, grow: false }),
                1 => s.funcs.push(FuncSpec { params: vec![], results: vec![], locals: vec![(1, VT::F32)], br_tables: vec![], extra: Extra::None, grow: false }),
                2 => s.globals.push((VT::F64, false)),
                _ => s.funcs.push(FuncSpec { params: vec![], results: vec![], locals: vec![], br_tables: vec![], extra: Extra::FloatOp, grow: false }),
            }
        }
        15 => {
            // post-MVP operators and type errors: rejected by validation (never reach the `todo!()` of the cost rules)
            let ex = match rng.below(9) {
                0 => Extra::MemoryCopy,
                1 => Extra::MemoryFill,
                2 => Extra::SatTrunc,
                3 => Extra::RefNull,
                4 => Extra::ReturnCall,
                5 => Extra::AtomicFence,
                6 => Extra::V128,
                7 => Extra::MultiValueBlock,
                _ => Extra::BadType,
            };
            s.funcs.push(FuncSpec { params: vec![], results: vec![], locals: vec![], br_tables: vec![], extra: ex, grow: false });
        }
        16 => {
            // sign extension is allowed; memory.grow is allowed
            s.funcs.push(FuncSpec { params: vec![], results: vec![], locals: vec![], br_tables: vec![], extra: Extra::SignExt, grow: rng.chance(1, 2) });
        }
        17 => {
            // data segments around the end of the initial memory
            let pages = 1 + rng.below(2);
            s.mem = Some(vec![(pages, None)]);
            let end = (pages * 65536) as i64;
            for _ in 0..1 + rng.below(2) {
                let len = rng.below(9) as i64;
                let off = end - len + LIMIT_NEAR[rng.below(5) as usize] + if rng.chance(1, 6) { -(rng.below(1000) as i64) } else { 0 };
                s.data.push((off.max(0) as u32, len as u32));
            }
            if rng.chance(1, 8) {
                s.data.push((u32::MAX, 1));
            }
        }
        18 => {
            // element segments around the end of the table
            let t = 1 + rng.below(5);
            s.tab = Some(vec![t]);
            if s.funcs.is_empty() && !s.imports.iter().any(|i| matches!(i.2, ImpKind::Func(..))) {
                s.funcs.push(simple_func(rng));
            }
            let cnt = rng.below(4) as i64;
            let off = t as i64 - cnt + LIMIT_NEAR[rng.below(5) as usize];
            s.elems.push((off.max(0) as u32, cnt as u32));
        }
        19 => {
            // duplicate export names
            let e = s.exports.as_mut().unwrap();
            let d = e[rng.below(e.len() as u64) as usize].clone();
            e.push(d);
        }
        20 => {
            s.custom = true;
        }
        _ => {}
    }
    if fix_exports_after_import_change {
        // re-point every function export at the last (i64)->i64 function if there is one, otherwise leave (possibly
        // a type mismatch for required exports: a legitimate MissingExport case)
        let nimp = s.imports.iter().filter(|i| matches!(i.2, ImpKind::Func(..))).count() as u32;
        let tgt = s.funcs.iter().rposition(|f| f.params == vec![VT::I64] && f.results == vec![VT::I64]);
        let total = nimp + s.funcs.len() as u32;
        if let Some(e) = s.exports.as_mut() {
            for x in e.iter_mut() {
                if x.1 == 'f' {
                    x.2 = match tgt {
                        Some(t) => nimp + t as u32,
                        None => x.2.min(total.saturating_sub(1)),
                    };
                }
            }
        }
    }
    (v, req, build(&s))
}

fn mv_le(a: &u64, b: u64) -> &'static bool {
    if *a <= b {
        &true
    } else {
        &false
    }
}

pub struct A;

impl Area for A {
    fn gen(&self, rng: &mut Rng, n: usize, out: &mut dyn Write) {
        for i in 0..n {
            let (v, req, bytes) = gen_case(rng);
            let bytes = if i % 97 == 96 {
                // a few byte-level cases whose classification is unambiguous
                match rng.below(4) {
                    0 => vec![],
                    1 => bytes[..rng.below(8) as usize].to_vec(),
                    2 => {
                        let mut b = bytes.clone();
                        b[0] = 1;
                        b
                    }
                    _ => {
                        let mut b = bytes.clone();
                        b[4] = 2;
                        b
                    }
                }
            } else {
                bytes
            };
            writeln!(out, "{}", line_of(v, &req, &bytes)).unwrap();
        }
    }
    fn runner(&self) -> Box<dyn Runner> {
        Box::new(R)
    }
    fn consts(&self) -> Vec<(String, String)> {
        consts()
    }
}

struct R;

fn parse_req(s: &str) -> Vec<String> {
    if s == "-" {
        vec![]
    } else {
        s.split(',').map(|x| if x == "~" { String::new() } else { x.to_string() }).collect()
    }
}

impl Runner for R {
    fn step(&mut self, line: &str) -> Answer {
        let t: Vec<&str> = line.split(' ').collect();
        if t.len() != 16 || t[0] != "mod" {
            return Answer::ok("bad-op");
        }
        let v = match t[1].strip_prefix("v=").and_then(|x| x.parse::<u64>().ok()) {
            Some(v) => v,
            None => return Answer::ok("bad-op"),
        };
        let req = match t[2].strip_prefix("req=") {
            Some(r) => parse_req(r),
            None => return Answer::ok("bad-op"),
        };
        let code = match t[15].strip_prefix("code=").and_then(unhex) {
            Some(c) => c,
            None => return Answer::ok("bad-op"),
        };
        // the summary on the line must be the one the independent walk derives from the bytes
        let inp = summarize(&code);
        if fields(&inp) != t[3..15].join(" ") {
            return Answer::ok("bad-op summary-mismatch");
        }
        answer_for(v, &req, &code, &inp)
    }
}

// ------------------------------------------------------------------------------------------------
// Area c45b: byte strings (oracle only)

pub struct B;

fn mutate(rng: &mut Rng, mut b: Vec<u8>) -> Vec<u8> {
    let n = 1 + rng.below(3);
    for _ in 0..n {
        if b.is_empty() {
            b.push(rng.next() as u8);
            continue;
        }
        let i = rng.below(b.len() as u64) as usize;
        match rng.below(6) {
            0 => b[i] = rng.next() as u8,
            1 => b[i] ^= 1 << rng.below(8),
            2 => {
                b.remove(i);
            }
            3 => b.insert(i, rng.next() as u8),
            4 => b.truncate(i),
            _ => b[i] = [0u8, 0x7f, 0x80, 0xff, 0x01][rng.below(5) as usize],
        }
    }
    b
}

impl Area for B {
    fn gen(&self, rng: &mut Rng, n: usize, out: &mut dyn Write) {
        for _ in 0..n {
            let (v, req, bytes) = gen_case(rng);
            let b = match rng.below(10) {
                0 => {
                    let k = rng.below(64) as usize;
                    rng.bytes(k)
                }
                1 => {
                    let mut x = vec![0x00, 0x61, 0x73, 0x6d, 0x01, 0x00, 0x00, 0x00];
                    let k = rng.below(40) as usize;
                    x.extend(rng.bytes(k));
                    x
                }
                2 => bytes[..rng.below(bytes.len() as u64 + 1) as usize].to_vec(),
                3 => bytes,
                _ => mutate(rng, bytes),
            };
            let r = if req.is_empty() { "-".to_string() } else { req.join(",") };
            writeln!(out, "bytes {} {} {}", v, r, hex(&b)).unwrap();
        }
    }
    fn runner(&self) -> Box<dyn Runner> {
        Box::new(RB)
    }
}

struct RB;

impl Runner for RB {
    fn step(&mut self, line: &str) -> Answer {
        let t: Vec<&str> = line.split(' ').collect();
        if t.len() != 4 || t[0] != "bytes" {
            return Answer::ok("bad-op");
        }
        let (v, code) = match (t[1].parse::<u64>().ok(), unhex(t[3])) {
            (Some(v), Some(c)) => (v, c),
            _ => return Answer::ok("bad-op"),
        };
        let ver = match version_of(v) {
            Some(x) => x,
            None => return Answer::ok("bad-op"),
        };
        let req = parse_req(t[2]);
        match run_validate(ver, &req, &code) {
            Err(p) => Answer::fail("panic", "panic", format!("validate panicked: {}", p)),
            Ok(Err(e)) => Answer::ok(format!("err {}", err_text(&e).split(' ').next().unwrap())),
            Ok(Ok((out, exps))) => {
                let inp = summarize(&code);
                match sandbox_oracle(v, &req, &inp, &out, &exps) {
                    Some((k, d)) => Answer::fail("ok", k, d),
                    None => Answer::ok("ok"),
                }
            }
        }
    }
}

// ------------------------------------------------------------------------------------------------
// Constants and the permitted host-import table as the compiled tree sees them

fn probe_module(name: &str, params: &[we::ValType], results: &[we::ValType]) -> Vec<u8> {
    let mut m = we::Module::new();
    let mut t = we::TypeSection::new();
    t.ty().function(params.iter().copied(), results.iter().copied());
    m.section(&t);
    let mut i = we::ImportSection::new();
    i.import("env", name, we::EntityType::Function(0));
    m.section(&i);
    m.finish()
}

fn probe(name: &str, params: &[we::ValType], results: &[we::ValType], v: ScryptoVmVersion) -> Result<(), PrepareError> {
    let code = probe_module(name, params, results);
    WasmModule::init(&code)?.enforce_import_constraints(v).map(|_| ())
}

fn sig_str(p: &[we::ValType], r: &[we::ValType]) -> String {
    // Lean term: (params, results) as lists of value-type codes, 0 = i32, 1 = i64
    let c = |t: &we::ValType| if *t == we::ValType::I32 { "0" } else { "1" };
    format!("[{}], [{}]", p.iter().map(c).collect::<Vec<_>>().join(", "), r.iter().map(c).collect::<Vec<_>>().join(", "))
}

fn consts() -> Vec<(String, String)> {
    use radix_common::constants::*;
    let val = ScryptoV1WasmValidator::new(ScryptoVmVersion::latest());
    let mut out: Vec<(String, String)> = vec![
        ("MAX_MEMORY_SIZE_IN_PAGES".into(), val.max_memory_size_in_pages.to_string()),
        ("MAX_INITIAL_TABLE_SIZE".into(), val.max_initial_table_size.to_string()),
        ("MAX_NUMBER_OF_BR_TABLE_TARGETS".into(), val.max_number_of_br_table_targets.to_string()),
        ("MAX_NUMBER_OF_FUNCTIONS".into(), val.max_number_of_functions.to_string()),
        ("MAX_NUMBER_OF_FUNCTION_PARAMS".into(), val.max_number_of_function_params.to_string()),
        ("MAX_NUMBER_OF_FUNCTION_LOCALS".into(), val.max_number_of_function_locals.to_string()),
        ("MAX_NUMBER_OF_GLOBALS".into(), val.max_number_of_globals.to_string()),
        ("CONST_MAX_MEMORY_SIZE_IN_PAGES".into(), MAX_MEMORY_SIZE_IN_PAGES.to_string()),
        ("MAX_STACK_SIZE".into(), val.instrumenter_config.max_stack_size().to_string()),
        ("LATEST_VERSION".into(), u64::from(ScryptoVmVersion::latest()).to_string()),
    ];
    // candidate names: every *_FUNCTION_NAME constant of constants.rs (source), plus a few that must not be importable
    let src = std::fs::read_to_string("/repo/radix-engine/src/vm/wasm/constants.rs").unwrap_or_default();
    let re = regex::Regex::new(r#"pub const \w+_FUNCTION_NAME: &str =\s*"([^"]+)""#).unwrap();
    let mut names: Vec<String> = re.captures_iter(&src).map(|c| c[1].to_string()).collect();
    for extra in ["test_host_read_memory", "test_host_write_memory", "test_host_check_memory_is_clean", "memory"] {
        names.push(extra.to_string());
    }
    names.sort();
    names.dedup();
    let latest = ScryptoVmVersion::latest();
    let versions = [ScryptoVmVersion::V1_0, ScryptoVmVersion::V1_1, ScryptoVmVersion::V1_2];
    let mut table: Vec<String> = vec![];
    let mut not_importable: Vec<String> = vec![];
    for name in &names {
        let mut accepted: Vec<(String, u64)> = vec![];
        for np in 0..=9usize {
            for mask in 0..(1u32 << np) {
                let params: Vec<we::ValType> = (0..np).map(|i| if mask >> i & 1 == 1 { we::ValType::I64 } else { we::ValType::I32 }).collect();
                for results in [vec![], vec![we::ValType::I32], vec![we::ValType::I64]] {
                    if probe(name, &params, &results, latest).is_ok() {
                        let minv = versions.iter().find(|v| probe(name, &params, &results, **v).is_ok()).map(|v| u64::from(*v)).unwrap();
                        accepted.push((sig_str(&params, &results), minv));
                    }
                }
            }
        }
        if accepted.is_empty() {
            not_importable.push(name.clone());
        }
        for (sg, mv) in accepted {
            table.push(format!("(\"{}\", {}, {})", name, sg, mv));
        }
    }
    out.push(("HOST_IMPORTS".into(), format!("[{}]\traw\tList (String × List Nat × List Nat × Nat)", table.join(", "))));
    out.push((
        "NOT_IMPORTABLE".into(),
        format!("[{}]\traw\tList String", not_importable.iter().map(|n| format!("\"{}\"", n)).collect::<Vec<_>>().join(", ")),
    ));
    out
}

fn main() {
    main_with(&[("c45", &A), ("c45b", &B)]);
}
