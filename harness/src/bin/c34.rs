//! C34 — limit checks of static transaction validation.
//!   area `c34` : unit level, the real public validator functions
//!                (`validate_header_v1`, `validate_transaction_header_v2`, `validate_intent_header_v2`,
//!                 `AcrossIntentAggregation`, `validate_message_v1/v2`, `validate_instructions_v1`,
//!                 `validate_manifest_v2`) on boundary-biased inputs × configurations.
use harness::util::*;
use radix_common::prelude::*;
use radix_transactions::errors::*;
use radix_transactions::manifest::*;
use radix_transactions::prelude::*;
use radix_transactions::validation::*;
use std::io::Write;

pub struct A;

// ------------------------------------------------------------------------------------------ configs

const NFIELDS: usize = 16;

fn cfg_fields(c: &TransactionValidationConfig) -> [u64; NFIELDS] {
    [
        c.max_signer_signatures_per_intent as u64,
        c.max_references_per_intent as u64,
        c.min_tip_percentage as u64,
        c.max_tip_percentage as u64,
        c.max_epoch_range,
        c.max_instructions as u64,
        c.message_validation.max_plaintext_message_length as u64,
        c.message_validation.max_encrypted_message_length as u64,
        c.message_validation.max_mime_type_length as u64,
        c.message_validation.max_decryptors as u64,
        c.v2_transactions_allowed as u64,
        c.min_tip_basis_points as u64,
        c.max_tip_basis_points as u64,
        c.max_subintent_depth as u64,
        c.max_total_signature_validations as u64,
        c.max_total_references as u64,
    ]
}

const FIELD_NAMES: [&str; NFIELDS] = [
    "MAX_SIGNER_SIGNATURES_PER_INTENT",
    "MAX_REFERENCES_PER_INTENT",
    "MIN_TIP_PERCENTAGE",
    "MAX_TIP_PERCENTAGE",
    "MAX_EPOCH_RANGE",
    "MAX_INSTRUCTIONS",
    "MSG_MAX_PLAINTEXT",
    "MSG_MAX_ENCRYPTED",
    "MSG_MAX_MIME",
    "MSG_MAX_DECRYPTORS",
    "V2_ALLOWED",
    "MIN_TIP_BASIS_POINTS",
    "MAX_TIP_BASIS_POINTS",
    "MAX_SUBINTENT_DEPTH",
    "MAX_TOTAL_SIGNATURE_VALIDATIONS",
    "MAX_TOTAL_REFERENCES",
];

fn cfg_from_fields(f: &[u64; NFIELDS], base: TransactionValidationConfig) -> Option<TransactionValidationConfig> {
    let mut c = base;
    c.max_signer_signatures_per_intent = f[0] as usize;
    c.max_references_per_intent = f[1] as usize;
    c.min_tip_percentage = u16::try_from(f[2]).ok()?;
    c.max_tip_percentage = u16::try_from(f[3]).ok()?;
    c.max_epoch_range = f[4];
    c.max_instructions = f[5] as usize;
    c.message_validation.max_plaintext_message_length = f[6] as usize;
    c.message_validation.max_encrypted_message_length = f[7] as usize;
    c.message_validation.max_mime_type_length = f[8] as usize;
    c.message_validation.max_decryptors = f[9] as usize;
    c.v2_transactions_allowed = match f[10] { 0 => false, 1 => true, _ => return None };
    c.min_tip_basis_points = u32::try_from(f[11]).ok()?;
    c.max_tip_basis_points = u32::try_from(f[12]).ok()?;
    c.max_subintent_depth = f[13] as usize;
    c.max_total_signature_validations = f[14] as usize;
    c.max_total_references = f[15] as usize;
    Some(c)
}

/// `b` | `c` | `x:<16 comma separated numbers>` (custom configs keep cuttlefish's non-numeric settings)
fn parse_cfg(s: &str) -> Option<TransactionValidationConfig> {
    match s {
        "b" => Some(TransactionValidationConfig::babylon()),
        "c" => Some(TransactionValidationConfig::cuttlefish()),
        _ => {
            let body = s.strip_prefix("x:")?;
            let v: Vec<u64> = body.split(',').map(|x| x.parse::<u64>()).collect::<Result<_, _>>().ok()?;
            let f: [u64; NFIELDS] = v.try_into().ok()?;
            cfg_from_fields(&f, TransactionValidationConfig::cuttlefish())
        }
    }
}

fn gen_cfg(rng: &mut Rng) -> String {
    match rng.below(10) {
        0..=2 => "b".into(),
        3..=6 => "c".into(),
        _ => {
            // perturbed: small limits so that every boundary (also the lower tip bounds, which are 0 in
            // both real tables) is reachable
            let base = if rng.chance(1, 2) { TransactionValidationConfig::babylon() } else { TransactionValidationConfig::cuttlefish() };
            let mut f = cfg_fields(&base);
            let small = |rng: &mut Rng, hi: u64| rng.below(hi + 1);
            for i in 0..NFIELDS {
                if rng.chance(1, 2) {
                    f[i] = match i {
                        0 => small(rng, 20),
                        1 | 15 => match rng.below(4) { 0 => u64::MAX, 1 => u64::MAX - rng.below(5), _ => small(rng, 600) },
                        2 | 3 => match rng.below(4) { 0 => 65535, _ => small(rng, 300) },
                        4 => match rng.below(5) { 0 => 0, 1 => u64::MAX, 2 => u64::MAX - rng.below(100), _ => small(rng, 20000) },
                        5 => match rng.below(3) { 0 => u64::MAX, _ => small(rng, 1200) },
                        6 | 7 => small(rng, 2200),
                        8 => small(rng, 140),
                        9 => small(rng, 25),
                        10 => rng.below(2),
                        11 | 12 => match rng.below(4) { 0 => u32::MAX as u64, _ => small(rng, 1_000_100) },
                        13 => small(rng, 4),
                        14 => match rng.below(3) { 0 => u64::MAX, _ => small(rng, 70) },
                        _ => f[i],
                    };
                }
            }
            format!("x:{}", f.iter().map(|x| x.to_string()).collect::<Vec<_>>().join(","))
        }
    }
}

/// value near `b` (boundary-biased)
fn near(rng: &mut Rng, b: u64) -> u64 {
    match rng.below(6) {
        0 => b,
        1 => b.saturating_add(1),
        2 => b.saturating_sub(1),
        3 => b.saturating_add(rng.below(5)),
        4 => b.saturating_sub(rng.below(5)),
        _ => b / 2,
    }
}

fn gen_net(rng: &mut Rng) -> (String, u8) {
    let req: Option<u8> = match rng.below(6) { 0 => None, 1 => Some(rng.below(256) as u8), _ => Some(0xf2) };
    let net: u8 = match (rng.below(8), req) { (0, _) => rng.below(256) as u8, (1, Some(r)) => r.wrapping_add(1), (_, Some(r)) => r, (_, None) => rng.below(256) as u8 };
    (req.map(|r| r.to_string()).unwrap_or("-".into()), net)
}

fn gen_epochs(rng: &mut Rng, max_range: u64) -> (u64, u64) {
    let s: u64 = match rng.below(8) {
        0 => 0,
        1 => u64::MAX - rng.below(3),
        2 => u64::MAX - max_range.min(u64::MAX - 1) - rng.below(3).min(u64::MAX - max_range.min(u64::MAX - 1)),
        3 => (u64::MAX - max_range).saturating_add(rng.below(3)),
        _ => rng.below(100_000),
    };
    let e: u64 = match rng.below(9) {
        0 => s,
        1 => s.saturating_add(1),
        2 => s.saturating_sub(1),
        3 => s.saturating_add(max_range),
        4 => s.saturating_add(max_range).saturating_add(1),
        5 => s.saturating_add(max_range).saturating_sub(1),
        6 => rng.next(),
        7 => u64::MAX,
        _ => s.saturating_add(rng.below(max_range.saturating_add(2).max(1))),
    };
    (s, e)
}

fn gen_ts(rng: &mut Rng) -> String {
    match rng.below(8) {
        0..=2 => "-".into(),
        3 => i64::MIN.to_string(),
        4 => i64::MAX.to_string(),
        _ => rng.range(-5, 25).to_string(),
    }
}

/// a whole notarized V2 transaction: root + (k-1) direct children; mostly valid, one limit pushed to its boundary
fn gen_tx2(rng: &mut Rng, cfg_s: &str, cfg: &TransactionValidationConfig, out: &mut dyn Write) {
    let req_v: Option<u8> = if rng.chance(1, 5) { None } else { Some(0xf2) };
    let (req, net0) = (req_v.map(|r| r.to_string()).unwrap_or("-".into()), req_v.unwrap_or(rng.below(256) as u8));
    let k = if cfg.max_subintent_depth == 0 { 1 } else { 1 + rng.below(5) };
    let bps = match rng.below(12) { 0 => near(rng, cfg.min_tip_basis_points as u64), 1 => near(rng, cfg.max_tip_basis_points as u64), _ => cfg.min_tip_basis_points as u64 }.min(u32::MAX as u64);
    let anchor = rng.below(50_000);
    // which limit this case aims at
    let aim = rng.below(9);
    let target = rng.below(k);
    let per = cfg.max_signer_signatures_per_intent as u64;
    let mut s = format!("tx2 {} {} {} {}", cfg_s, req, bps, k);
    for i in 0..k {
        let hit = i == target;
        let net = if aim == 0 && hit && rng.chance(1, 2) { net0.wrapping_add(1) } else { net0 };
        let st = anchor + rng.below(4);
        let mut en = st + 4 + rng.below(cfg.max_epoch_range.clamp(1, 30));
        if aim == 1 && hit { en = match rng.below(4) { 0 => st, 1 => st.saturating_add(cfg.max_epoch_range), 2 => st.saturating_add(cfg.max_epoch_range).saturating_add(1), _ => anchor + 3 + rng.below(3) }; }
        if aim == 2 && hit { en = anchor + rng.below(5); }
        let (ts_a, ts_b) = if aim == 3 { (gen_ts(rng), gen_ts(rng)) } else { ("-".to_string(), "-".to_string()) };
        let msg = if aim == 4 && hit { near(rng, cfg.message_validation.max_plaintext_message_length as u64).min(5000).to_string() } else if rng.chance(1, 3) { rng.below(30).to_string() } else { "-".into() };
        let refs = if aim == 5 && hit { near(rng, cfg.max_references_per_intent as u64).min(700) } else if aim == 6 { near(rng, (cfg.max_total_references as u64) / k).min(700) } else { rng.below(4) };
        let pad = if aim == 7 && hit { near(rng, (cfg.max_instructions as u64).saturating_sub(refs + k)).min(1300) } else { rng.below(3) };
        let sigs = if aim == 8 && hit { near(rng, per).min(40) } else if aim == 8 { match rng.below(3) { 0 => per.min(40), 1 => near(rng, (cfg.max_total_signature_validations as u64).saturating_sub(1) / k).min(per).min(40), _ => rng.below(3) } } else { rng.below(3) };
        s += &format!(" {} {} {} {} {} {} {} {} {}", net, st, en, ts_a, ts_b, msg, refs, pad, sigs);
    }
    writeln!(out, "{}", s).unwrap();
}

impl Area for A {
    fn gen(&self, rng: &mut Rng, n: usize, out: &mut dyn Write) {
        for _ in 0..n {
            let cfg_s = gen_cfg(rng);
            let cfg = parse_cfg(&cfg_s).unwrap();
            match rng.below(21) {
                0..=2 => {
                    let (req, net) = gen_net(rng);
                    let (s, e) = gen_epochs(rng, cfg.max_epoch_range);
                    let tip = match rng.below(4) { 0 => near(rng, cfg.min_tip_percentage as u64), 1 => near(rng, cfg.max_tip_percentage as u64), 2 => rng.below(65536), _ => 0 }.min(65535);
                    writeln!(out, "h1 {} {} {} {} {} {}", cfg_s, req, net, s, e, tip).unwrap();
                }
                3 => {
                    let bps = match rng.below(4) { 0 => near(rng, cfg.min_tip_basis_points as u64), 1 => near(rng, cfg.max_tip_basis_points as u64), 2 => rng.below(1 << 32), _ => 0 }.min(u32::MAX as u64);
                    writeln!(out, "th2 {} {}", cfg_s, bps).unwrap();
                }
                4..=7 => {
                    let (req, net0) = gen_net(rng);
                    let k = 1 + rng.below(5);
                    let mut s = format!("hs2 {} {} {}", cfg_s, req, k);
                    // mostly overlapping windows around one anchor
                    let anchor = rng.below(50_000);
                    for i in 0..k {
                        let net = if rng.chance(1, 12) { net0.wrapping_add(1) } else { net0 };
                        let (st, en) = if rng.chance(1, 5) {
                            gen_epochs(rng, cfg.max_epoch_range)
                        } else {
                            let st = anchor + rng.below(6);
                            let en = match rng.below(4) {
                                0 => st.saturating_add(cfg.max_epoch_range),
                                1 => anchor + 5 + rng.below(4),
                                _ => st + 1 + rng.below(cfg.max_epoch_range.clamp(1, 30)),
                            };
                            (st, en)
                        };
                        let _ = i;
                        s += &format!(" {} {} {} {} {}", net, st, en, gen_ts(rng), gen_ts(rng));
                    }
                    writeln!(out, "{}", s).unwrap();
                }
                8..=9 => {
                    let k = 1 + rng.below(5);
                    let mut s = format!("refs {} {}", cfg_s, k);
                    for _ in 0..k {
                        let c = match rng.below(7) {
                            0 => near(rng, cfg.max_references_per_intent as u64),
                            1 => near(rng, cfg.max_total_references as u64),
                            2 => near(rng, (cfg.max_total_references as u64) / k),
                            3 => u64::MAX - rng.below(3),
                            4 => 0,
                            _ => rng.below(300),
                        };
                        s += &format!(" {}", c);
                    }
                    writeln!(out, "{}", s).unwrap();
                }
                10..=13 => {
                    let v = 1 + rng.below(2);
                    let m = &cfg.message_validation;
                    match rng.below(7) {
                        0 => writeln!(out, "msg {} {} none", v, cfg_s).unwrap(),
                        1..=2 => {
                            let mime = if rng.chance(1, 2) { near(rng, m.max_mime_type_length as u64) } else { rng.below(20) };
                            let len = if rng.chance(1, 2) { near(rng, m.max_plaintext_message_length as u64) } else { rng.below(50) };
                            let kind = if rng.chance(1, 2) { "s" } else { "b" };
                            writeln!(out, "msg {} {} pt {} {} {}", v, cfg_s, kind, mime.min(5000), len.min(5000)).unwrap();
                        }
                        _ => {
                            let len = if rng.chance(1, 2) { near(rng, m.max_encrypted_message_length as u64) } else { rng.below(50) }.min(5000);
                            let nent = match rng.below(6) { 0 => 0, 1 | 2 => 1, _ => 2 };
                            let mut s = format!("msg {} {} enc {} {}", v, cfg_s, len, nent);
                            let first_key = rng.below(2);
                            let maxd = m.max_decryptors as u64;
                            let mut budget = if rng.chance(1, 2) { near(rng, maxd) } else { rng.below(maxd + 3) }.min(400);
                            for i in 0..nent {
                                let key = if i == 0 { first_key } else { 1 - first_key };
                                let val = if rng.chance(1, 8) { 1 - key } else { key };
                                let cnt = if rng.chance(1, 10) { 0 } else if i + 1 == nent { budget } else { let c = rng.below(budget + 1); budget -= c; c };
                                s += &format!(" {} {} {}", key, val, cnt);
                            }
                            writeln!(out, "{}", s).unwrap();
                        }
                    }
                }
                14 => {
                    let v = 1 + rng.below(2);
                    let n = if rng.chance(2, 3) { near(rng, cfg.max_instructions as u64) } else { rng.below(40) }.min(2500);
                    writeln!(out, "ins {} {} {}", v, cfg_s, n).unwrap();
                }
                _ => gen_tx2(rng, &cfg_s, &cfg, out),
            }
        }
        for l in ["h1 b - 1 2", "h1 q - 1 2 3 4", "th2 c", "th2 c 4294967296", "hs2 c - 2 1 2 3 - -", "msg 3 c none", "msg 1 c enc 3 1 0 2 1", "refs c 2 1", "h1 x:1,2,3 - 1 2 3 4", "ins 1 c x", "zzz"] {
            writeln!(out, "{}", l).unwrap();
        }
    }
    fn runner(&self) -> Box<dyn Runner> {
        Box::new(R)
    }
    fn consts(&self) -> Vec<(String, String)> {
        let mut v = vec![];
        for (pre, c) in [("BABYLON", TransactionValidationConfig::babylon()), ("CUTTLEFISH", TransactionValidationConfig::cuttlefish()), ("LATEST", TransactionValidationConfig::latest())] {
            for (n, x) in FIELD_NAMES.iter().zip(cfg_fields(&c).iter()) {
                v.push((format!("{}_{}", pre, n), x.to_string()));
            }
        }
        let m = MessageValidationConfig::latest();
        v.push(("MSG_LATEST_MAX_PLAINTEXT".into(), m.max_plaintext_message_length.to_string()));
        v.push(("MSG_LATEST_MAX_ENCRYPTED".into(), m.max_encrypted_message_length.to_string()));
        v.push(("MSG_LATEST_MAX_MIME".into(), m.max_mime_type_length.to_string()));
        v.push(("MSG_LATEST_MAX_DECRYPTORS".into(), m.max_decryptors.to_string()));
        v
    }
}

struct R;

fn validator(cfg: TransactionValidationConfig, req: Option<u8>) -> TransactionValidator {
    match req {
        Some(r) => TransactionValidator::new_with_static_config(cfg, r),
        None => TransactionValidator::new_with_static_config_network_agnostic(cfg),
    }
}

fn parse_req(s: &str) -> Option<Option<u8>> {
    if s == "-" { Some(None) } else { s.parse::<u8>().ok().map(Some) }
}

fn parse_ts(s: &str) -> Option<Option<i64>> {
    if s == "-" { Some(None) } else { s.parse::<i64>().ok().map(Some) }
}

fn herr(e: &HeaderValidationError) -> &'static str {
    match e {
        HeaderValidationError::InvalidEpochRange => "InvalidEpochRange",
        HeaderValidationError::InvalidTimestampRange => "InvalidTimestampRange",
        HeaderValidationError::InvalidNetwork => "InvalidNetwork",
        HeaderValidationError::InvalidTip => "InvalidTip",
        HeaderValidationError::NoValidEpochRangeAcrossAllIntents => "NoValidEpochRangeAcrossAllIntents",
        HeaderValidationError::NoValidTimestampRangeAcrossAllIntents => "NoValidTimestampRangeAcrossAllIntents",
    }
}

fn curve(c: CurveType) -> u8 {
    match c { CurveType::Ed25519 => 0, CurveType::Secp256k1 => 1 }
}

fn merr(e: &InvalidMessageError) -> String {
    match e {
        InvalidMessageError::PlaintextMessageTooLong { actual, permitted } => format!("err PlaintextMessageTooLong {} {}", actual, permitted),
        InvalidMessageError::MimeTypeTooLong { actual, permitted } => format!("err MimeTypeTooLong {} {}", actual, permitted),
        InvalidMessageError::EncryptedMessageTooLong { actual, permitted } => format!("err EncryptedMessageTooLong {} {}", actual, permitted),
        InvalidMessageError::NoDecryptors => "err NoDecryptors".into(),
        InvalidMessageError::MismatchingDecryptorCurves { actual, expected } => format!("err MismatchingDecryptorCurves {} {}", curve(*actual), curve(*expected)),
        InvalidMessageError::TooManyDecryptors { actual, permitted } => format!("err TooManyDecryptors {} {}", actual, permitted),
        InvalidMessageError::NoDecryptorsForCurveType { curve_type } => format!("err NoDecryptorsForCurveType {}", curve(*curve_type)),
    }
}

fn notary_key() -> PublicKey {
    Secp256k1PrivateKey::from_u64(1).unwrap().public_key().into()
}

fn decryptors_v2(val_curve: u64, count: u64) -> DecryptorsByCurveV2 {
    let mut d: IndexMap<PublicKeyFingerprint, AesWrapped256BitKey> = IndexMap::default();
    for i in 0..count {
        d.insert(PublicKeyFingerprint(i.to_be_bytes()), AesWrapped256BitKey([7u8; 40]));
    }
    if val_curve == 0 {
        DecryptorsByCurveV2::Ed25519 { dh_ephemeral_public_key: Ed25519PublicKey([1u8; 32]), decryptors: d }
    } else {
        DecryptorsByCurveV2::Secp256k1 { dh_ephemeral_public_key: Secp256k1PublicKey([2u8; 33]), decryptors: d }
    }
}

fn decryptors(val_curve: u64, count: u64) -> DecryptorsByCurve {
    let mut d: IndexMap<PublicKeyFingerprint, AesWrapped128BitKey> = IndexMap::default();
    for i in 0..count {
        d.insert(PublicKeyFingerprint(i.to_be_bytes()), AesWrapped128BitKey([7u8; 24]));
    }
    if val_curve == 0 {
        DecryptorsByCurve::Ed25519 { dh_ephemeral_public_key: Ed25519PublicKey([1u8; 32]), decryptors: d }
    } else {
        DecryptorsByCurve::Secp256k1 { dh_ephemeral_public_key: Secp256k1PublicKey([2u8; 33]), decryptors: d }
    }
}

/// epoch/network part of the property, stated directly (u128 arithmetic, no overflow)
fn spec_net_epoch(cfg: &TransactionValidationConfig, req: Option<u8>, net: u8, s: u64, e: u64) -> bool {
    req.map(|r| r == net).unwrap_or(true) && s < e && (s as u128 + cfg.max_epoch_range as u128) <= u64::MAX as u128 && (e as u128) <= s as u128 + cfg.max_epoch_range as u128
}

impl Runner for R {
    fn step(&mut self, line: &str) -> Answer {
        let t: Vec<&str> = line.split(' ').filter(|s| !s.is_empty()).collect();
        let bad = || Answer::ok("bad-op");
        match t.as_slice() {
            ["h1", cfg, req, net, s, e, tip] => {
                let (Some(cfg), Some(req), Ok(net), Ok(s), Ok(e), Ok(tip)) = (parse_cfg(cfg), parse_req(req), net.parse::<u8>(), s.parse::<u64>(), e.parse::<u64>(), tip.parse::<u16>()) else { return bad() };
                let v = validator(cfg, req);
                let h = TransactionHeaderV1 { network_id: net, start_epoch_inclusive: Epoch::of(s), end_epoch_exclusive: Epoch::of(e), nonce: 7, notary_public_key: notary_key(), notary_is_signatory: false, tip_percentage: tip };
                let r = v.validate_header_v1(&h);
                let ans = match &r { Ok(()) => "ok".to_string(), Err(e) => format!("err {}", herr(e)) };
                let spec = spec_net_epoch(&cfg, req, net, s, e) && cfg.min_tip_percentage <= tip && tip <= cfg.max_tip_percentage;
                if r.is_ok() != spec {
                    return Answer::fail(ans, "h1-accept-mismatch", format!("validate_header_v1 accepted={} but the documented inequalities say {}", r.is_ok(), spec));
                }
                Answer::ok(ans)
            }
            ["th2", cfg, bps] => {
                let (Some(cfg), Ok(bps)) = (parse_cfg(cfg), bps.parse::<u32>()) else { return bad() };
                let v = validator(cfg, None);
                let h = TransactionHeaderV2 { notary_public_key: notary_key(), notary_is_signatory: false, tip_basis_points: bps };
                let r = v.validate_transaction_header_v2(&h);
                let ans = match &r { Ok(()) => "ok".to_string(), Err(e) => format!("err {}", herr(e)) };
                let spec = cfg.min_tip_basis_points <= bps && bps <= cfg.max_tip_basis_points;
                if r.is_ok() != spec {
                    return Answer::fail(ans, "th2-accept-mismatch", format!("validate_transaction_header_v2 accepted={} but tip bounds say {}", r.is_ok(), spec));
                }
                Answer::ok(ans)
            }
            ["hs2", cfg, req, k, rest @ ..] => {
                let (Some(cfg), Some(req), Ok(k)) = (parse_cfg(cfg), parse_req(req), k.parse::<usize>()) else { return bad() };
                if rest.len() != 5 * k { return bad() }
                let mut hs = vec![];
                for c in rest.chunks(5) {
                    let (Ok(net), Ok(s), Ok(e), Some(a), Some(b)) = (c[0].parse::<u8>(), c[1].parse::<u64>(), c[2].parse::<u64>(), parse_ts(c[3]), parse_ts(c[4])) else { return bad() };
                    hs.push((net, s, e, a, b));
                }
                let v = validator(cfg, req);
                let mut agg = AcrossIntentAggregation::start();
                let mut err: Option<(usize, HeaderValidationError)> = None;
                for (i, (net, s, e, a, b)) in hs.iter().enumerate() {
                    let h = IntentHeaderV2 {
                        network_id: *net, start_epoch_inclusive: Epoch::of(*s), end_epoch_exclusive: Epoch::of(*e),
                        min_proposer_timestamp_inclusive: a.map(Instant::new), max_proposer_timestamp_exclusive: b.map(Instant::new), intent_discriminator: i as u64,
                    };
                    if let Err(e) = v.validate_intent_header_v2(&h, &mut agg) { err = Some((i, e)); break; }
                }
                // the property, stated directly: every header individually within limits and the intersection non-empty
                let each_ok = hs.iter().all(|(net, s, e, a, b)| spec_net_epoch(&cfg, req, *net, *s, *e) && !matches!((a, b), (Some(x), Some(y)) if x >= y));
                let smax = hs.iter().map(|h| h.1).max().unwrap_or(0);
                let emin = hs.iter().map(|h| h.2).min().unwrap_or(u64::MAX);
                let tmax = hs.iter().filter_map(|h| h.3).max();
                let tmin = hs.iter().filter_map(|h| h.4).min();
                let spec = each_ok && smax < emin && !matches!((tmax, tmin), (Some(x), Some(y)) if x >= y);
                match err {
                    Some((i, e)) => {
                        let ans = format!("err {} {}", i, herr(&e));
                        if spec { return Answer::fail(ans, "hs2-accept-mismatch", "headers rejected although every limit holds and the windows intersect"); }
                        Answer::ok(ans)
                    }
                    None => {
                        let r = agg.finalize(&cfg);
                        match r {
                            Ok(o) => {
                                let f = |x: Option<Instant>| x.map(|i| i.seconds_since_unix_epoch.to_string()).unwrap_or("-".into());
                                let ans = format!("ok {} {} {} {}", o.epoch_range.start_epoch_inclusive.number(), o.epoch_range.end_epoch_exclusive.number(), f(o.proposer_timestamp_range.start_timestamp_inclusive), f(o.proposer_timestamp_range.end_timestamp_exclusive));
                                if !spec { return Answer::fail(ans, "hs2-accept-mismatch", "headers accepted although a limit is violated or the windows do not intersect"); }
                                if o.epoch_range.start_epoch_inclusive.number() != smax || o.epoch_range.end_epoch_exclusive.number() != emin
                                    || o.proposer_timestamp_range.start_timestamp_inclusive.map(|i| i.seconds_since_unix_epoch) != tmax
                                    || o.proposer_timestamp_range.end_timestamp_exclusive.map(|i| i.seconds_since_unix_epoch) != tmin {
                                    return Answer::fail(ans, "hs2-range-not-intersection", "overall validity range is not the intersection of the intents' windows");
                                }
                                Answer::ok(ans)
                            }
                            Err(_) => Answer::fail("finalize-error", "hs2-finalize", "finalize failed without any reference recorded"),
                        }
                    }
                }
            }
            ["refs", cfg, k, rest @ ..] => {
                let (Some(cfg), Ok(k)) = (parse_cfg(cfg), k.parse::<usize>()) else { return bad() };
                if rest.len() != k { return bad() }
                let mut cs = vec![];
                for c in rest { let Ok(c) = c.parse::<u64>() else { return bad() }; cs.push(c as usize); }
                let mut agg = AcrossIntentAggregation::start();
                let mut ans = None;
                for (i, c) in cs.iter().enumerate() {
                    if let Err(e) = agg.record_reference_count(*c, &cfg) {
                        ans = Some(match e { IntentValidationError::TooManyReferences { total, limit } => format!("err {} {} {}", i, total, limit), _ => "err-other".to_string() });
                        break;
                    }
                }
                let ans = match ans {
                    Some(a) => a,
                    None => match agg.finalize(&cfg) {
                        Ok(_) => "ok".to_string(),
                        Err(TransactionValidationError::IntentValidationError(TransactionValidationErrorLocation::AcrossTransaction, IntentValidationError::TooManyReferences { total, limit })) => format!("errfinal {} {}", total, limit),
                        Err(_) => "err-other".to_string(),
                    },
                };
                let sum: u128 = cs.iter().map(|c| *c as u128).sum();
                let spec = cs.iter().all(|c| *c <= cfg.max_references_per_intent) && sum.min(usize::MAX as u128) <= cfg.max_total_references as u128;
                if (ans == "ok") != spec {
                    return Answer::fail(ans, "refs-accept-mismatch", format!("reference counts accepted although spec says {}", spec));
                }
                Answer::ok(ans)
            }
            ["msg", ver, cfg, rest @ ..] => {
                let (Ok(ver), Some(cfg)) = (ver.parse::<u8>(), parse_cfg(cfg)) else { return bad() };
                if ver != 1 && ver != 2 { return bad() }
                let m = cfg.message_validation;
                // (v1, v2, spec)
                let (m1, m2, spec): (MessageV1, MessageV2, bool) = match rest {
                    ["none"] => (MessageV1::None, MessageV2::None, true),
                    ["pt", kind, mime, len] => {
                        let (Ok(mime), Ok(len)) = (mime.parse::<usize>(), len.parse::<usize>()) else { return bad() };
                        if mime > 100_000 || len > 100_000 { return bad() }
                        let contents = match *kind { "s" => MessageContentsV1::String("a".repeat(len)), "b" => MessageContentsV1::Bytes(vec![0u8; len]), _ => return bad() };
                        let p = PlaintextMessageV1 { mime_type: "m".repeat(mime), message: contents };
                        (MessageV1::Plaintext(p.clone()), MessageV2::Plaintext(p), mime <= m.max_mime_type_length && len <= m.max_plaintext_message_length)
                    }
                    ["enc", len, nent, ents @ ..] => {
                        let (Ok(len), Ok(nent)) = (len.parse::<usize>(), nent.parse::<usize>()) else { return bad() };
                        if len > 100_000 || ents.len() != 3 * nent || nent > 2 { return bad() }
                        let mut map: IndexMap<CurveType, DecryptorsByCurve> = IndexMap::default();
                        let mut map2: IndexMap<CurveType, DecryptorsByCurveV2> = IndexMap::default();
                        let mut spec = len <= m.max_encrypted_message_length && nent > 0;
                        let mut total = 0u64;
                        for c in ents.chunks(3) {
                            let (Ok(k), Ok(v), Ok(cnt)) = (c[0].parse::<u64>(), c[1].parse::<u64>(), c[2].parse::<u64>()) else { return bad() };
                            if k > 1 || v > 1 || cnt > 10_000 { return bad() }
                            let key = if k == 0 { CurveType::Ed25519 } else { CurveType::Secp256k1 };
                            if map.contains_key(&key) { return bad() }
                            map.insert(key, decryptors(v, cnt));
                            map2.insert(key, decryptors_v2(v, cnt));
                            spec = spec && k == v && cnt > 0;
                            total += cnt;
                        }
                        spec = spec && total <= m.max_decryptors as u64;
                        let payload = AesGcmPayload(vec![9u8; len]);
                        (MessageV1::Encrypted(EncryptedMessageV1 { encrypted: payload.clone(), decryptors_by_curve: map }),
                         MessageV2::Encrypted(EncryptedMessageV2 { encrypted: payload, decryptors_by_curve: map2 }), spec)
                    }
                    _ => return bad(),
                };
                let v = validator(cfg, None);
                let r = if ver == 1 { v.validate_message_v1(&m1) } else { v.validate_message_v2(&m2) };
                let ans = match &r { Ok(()) => "ok".to_string(), Err(e) => merr(e) };
                if r.is_ok() != spec {
                    return Answer::fail(ans, "msg-accept-mismatch", format!("message accepted={} but the documented limits say {}", r.is_ok(), spec));
                }
                Answer::ok(ans)
            }
            ["ins", ver, cfg, n] => {
                let (Ok(ver), Some(cfg), Ok(n)) = (ver.parse::<u8>(), parse_cfg(cfg), n.parse::<usize>()) else { return bad() };
                if (ver != 1 && ver != 2) || n > 100_000 { return bad() }
                let v = validator(cfg, None);
                let blobs: IndexMap<Hash, Vec<u8>> = IndexMap::default();
                let r: Result<(), String> = if ver == 1 {
                    let ins: Vec<InstructionV1> = (0..n).map(|_| InstructionV1::DropAuthZoneProofs(DropAuthZoneProofs)).collect();
                    v.validate_instructions_v1(&ins, &blobs).map_err(|e| match e { IntentValidationError::ManifestValidationError(ManifestValidationError::TooManyInstructions) => "TooManyInstructions".to_string(), o => format!("other:{:?}", o) })
                } else {
                    let ins: Vec<InstructionV2> = (0..n).map(|_| InstructionV2::DropAuthZoneProofs(DropAuthZoneProofs)).collect();
                    let children: IndexSet<ChildSubintentSpecifier> = IndexSet::default();
                    v.validate_manifest_v2(&ins, &blobs, &children, false).map(|_| ()).map_err(|e| match e { ManifestValidationError::TooManyInstructions => "TooManyInstructions".to_string(), o => format!("other:{:?}", o) })
                };
                let ans = match &r { Ok(()) => "ok".to_string(), Err(e) => e.clone() };
                let spec = n <= cfg.max_instructions;
                if r.is_ok() != spec {
                    return Answer::fail(ans, "ins-accept-mismatch", format!("{} instructions accepted={} but limit is {}", n, r.is_ok(), cfg.max_instructions));
                }
                Answer::ok(ans)
            }
            ["tx2", cfg, req, bps, k, rest @ ..] => {
                let (Some(cfg), Some(req), Ok(bps), Ok(k)) = (parse_cfg(cfg), parse_req(req), bps.parse::<u32>(), k.parse::<usize>()) else { return bad() };
                if k == 0 || k > 8 || rest.len() != 9 * k { return bad() }
                struct I { net: u8, s: u64, e: u64, a: Option<i64>, b: Option<i64>, msg: Option<usize>, refs: usize, pad: usize, sigs: usize }
                let mut xs: Vec<I> = vec![];
                for c in rest.chunks(9) {
                    let (Ok(net), Ok(s), Ok(e), Some(a), Some(b)) = (c[0].parse::<u8>(), c[1].parse::<u64>(), c[2].parse::<u64>(), parse_ts(c[3]), parse_ts(c[4])) else { return bad() };
                    let msg = if c[5] == "-" { None } else { match c[5].parse::<usize>() { Ok(l) if l <= 100_000 => Some(l), _ => return bad() } };
                    let (Ok(refs), Ok(pad), Ok(sigs)) = (c[6].parse::<usize>(), c[7].parse::<usize>(), c[8].parse::<usize>()) else { return bad() };
                    if refs > 100_000 || pad > 100_000 || sigs > 1000 { return bad() }
                    xs.push(I { net, s, e, a, b, msg, refs, pad, sigs });
                }
                let header = |i: usize, x: &I| IntentHeaderV2 {
                    network_id: x.net, start_epoch_inclusive: Epoch::of(x.s), end_epoch_exclusive: Epoch::of(x.e),
                    min_proposer_timestamp_inclusive: x.a.map(Instant::new), max_proposer_timestamp_exclusive: x.b.map(Instant::new), intent_discriminator: i as u64,
                };
                let message = |x: &I| match x.msg { None => MessageV2::None, Some(l) => MessageV2::Plaintext(PlaintextMessageV1 { mime_type: "text/plain".into(), message: MessageContentsV1::String("a".repeat(l)) }) };
                let addr = |i: usize, j: usize| {
                    let mut a = [EntityType::GlobalPreallocatedSecp256k1Account as u8; NodeId::LENGTH];
                    a[1..9].copy_from_slice(&(((i + 1) * 100_000 + j) as u64).to_le_bytes());
                    ComponentAddress::new_or_panic(a)
                };
                let keys = |i: usize, n: usize| -> Vec<Ed25519PrivateKey> { (0..n).map(|j| Ed25519PrivateKey::from_u64((1000 * (i + 1) + j + 1) as u64).unwrap()).collect() };
                let built = catch(|| {
                    let mut b = TransactionV2Builder::new();
                    for (i, x) in xs.iter().enumerate().skip(1) {
                        let child = PartialTransactionV2Builder::new()
                            .intent_header(header(i, x))
                            .message(message(x))
                            .manifest_builder(|mut mb| {
                                for j in 0..x.refs { mb = mb.call_method(addr(i, j), "m", ()); }
                                for _ in 0..x.pad { mb = mb.drop_auth_zone_proofs(); }
                                mb.yield_to_parent(())
                            })
                            .multi_sign(keys(i, x.sigs).iter())
                            .build_minimal();
                        b = b.add_signed_child(format!("c{}", i), child);
                    }
                    let x = &xs[0];
                    let names: Vec<String> = (1..xs.len()).map(|i| format!("c{}", i)).collect();
                    let notary = Ed25519PrivateKey::from_u64(7).unwrap();
                    b.intent_header(header(0, x))
                        .transaction_header(TransactionHeaderV2 { notary_public_key: notary.public_key().into(), notary_is_signatory: false, tip_basis_points: bps })
                        .message(message(x))
                        .manifest_builder(|mut mb| {
                            for n in &names { mb = mb.yield_to_child(n, ()); }
                            for j in 0..x.refs { mb = mb.call_method(addr(0, j), "m", ()); }
                            for _ in 0..x.pad { mb = mb.drop_auth_zone_proofs(); }
                            mb
                        })
                        .multi_sign(keys(0, x.sigs).iter())
                        .notarize(&notary)
                        .build_minimal_no_validate()
                });
                let tx = match built { Ok(t) => t, Err(m) => return Answer::ok(format!("build-panic {}", m)) };
                let prepared = match tx.to_raw().map_err(|e| format!("{:?}", e)).and_then(|raw| raw.prepare(PreparationSettings::latest_ref()).map_err(|e| format!("{:?}", e))) {
                    Ok(PreparedUserTransaction::V2(p)) => p,
                    Ok(_) => return Answer::ok("prepare-error not-v2"),
                    Err(e) => return Answer::ok(format!("prepare-error {}", e)),
                };
                let v = validator(cfg, req);
                let r = v.validate_notarized_v2(prepared);
                let idx = |loc: &TransactionValidationErrorLocation| -> String {
                    match loc {
                        TransactionValidationErrorLocation::RootTransactionIntent(_) => "0".into(),
                        TransactionValidationErrorLocation::NonRootSubintent(SubintentIndex(i), _) => (i + 1).to_string(),
                        TransactionValidationErrorLocation::AcrossTransaction => "across".into(),
                        o => format!("{:?}", o),
                    }
                };
                let ans = match &r {
                    Ok(val) => {
                        let o = &val.overall_validity_range;
                        let f = |x: Option<Instant>| x.map(|i| i.seconds_since_unix_epoch.to_string()).unwrap_or("-".into());
                        format!("ok {} {} {} {} {}", o.epoch_range.start_epoch_inclusive.number(), o.epoch_range.end_epoch_exclusive.number(), f(o.proposer_timestamp_range.start_timestamp_inclusive), f(o.proposer_timestamp_range.end_timestamp_exclusive), val.total_signature_validations)
                    }
                    Err(TransactionValidationError::TransactionVersionNotPermitted(_)) => "err VersionNotPermitted".into(),
                    Err(TransactionValidationError::SignatureValidationError(loc, SignatureValidationError::TooManySignatures { total, limit })) => {
                        let l = match loc {
                            TransactionValidationErrorLocation::RootTransactionIntent(_) => "root".to_string(),
                            TransactionValidationErrorLocation::NonRootSubintent(SubintentIndex(i), _) => format!("sub{}", i),
                            TransactionValidationErrorLocation::AcrossTransaction => "across".to_string(),
                            o => format!("{:?}", o),
                        };
                        format!("err TooManySignatures {} {} {}", l, total, limit)
                    }
                    Err(TransactionValidationError::IntentValidationError(loc, e)) => match e {
                        IntentValidationError::HeaderValidationError(h) => format!("err Header {} {}", idx(loc), herr(h)),
                        IntentValidationError::InvalidMessage(m) => format!("err Message {} {}", idx(loc), &merr(m)[4..]),
                        IntentValidationError::TooManyReferences { total, limit } => format!("err TooManyReferences {} {} {}", idx(loc), total, limit),
                        IntentValidationError::ManifestValidationError(ManifestValidationError::TooManyInstructions) => format!("err TooManyInstructions {}", idx(loc)),
                        o => format!("other {:?}", o).replace(['\n', '\t'], " "),
                    },
                    Err(o) => format!("other {:?}", o).replace(['\n', '\t'], " "),
                };
                // the property, stated directly on the quantities
                let m = cfg.message_validation;
                let instrs = |i: usize, x: &I| x.refs + x.pad + if i == 0 { xs.len() - 1 } else { 1 };
                let each = xs.iter().enumerate().all(|(i, x)| {
                    spec_net_epoch(&cfg, req, x.net, x.s, x.e) && !matches!((x.a, x.b), (Some(p), Some(q)) if p >= q)
                        && x.msg.map(|l| 10 <= m.max_mime_type_length && l <= m.max_plaintext_message_length).unwrap_or(true)
                        && x.refs <= cfg.max_references_per_intent && instrs(i, x) <= cfg.max_instructions && x.sigs <= cfg.max_signer_signatures_per_intent
                });
                let smax = xs.iter().map(|h| h.s).max().unwrap();
                let emin = xs.iter().map(|h| h.e).min().unwrap();
                let tmax = xs.iter().filter_map(|h| h.a).max();
                let tmin = xs.iter().filter_map(|h| h.b).min();
                let total_refs: usize = xs.iter().map(|x| x.refs).sum();
                let total_sigs: usize = xs.iter().map(|x| x.sigs).sum::<usize>() + 1;
                let spec = cfg.v2_transactions_allowed && each && cfg.min_tip_basis_points <= bps && bps <= cfg.max_tip_basis_points
                    && smax < emin && !matches!((tmax, tmin), (Some(p), Some(q)) if p >= q)
                    && total_refs <= cfg.max_total_references && total_sigs <= cfg.max_total_signature_validations;
                if ans.starts_with("other") {
                    // a non-limit validation failed: outside this property, but the stream is meant to avoid it
                    return Answer::ok(ans);
                }
                if r.is_ok() != spec {
                    return Answer::fail(ans, "tx2-accept-mismatch", format!("validate_notarized_v2 accepted={} but the documented limits say {}", r.is_ok(), spec));
                }
                if let Ok(val) = &r {
                    let o = &val.overall_validity_range;
                    if o.epoch_range.start_epoch_inclusive.number() != smax || o.epoch_range.end_epoch_exclusive.number() != emin || val.total_signature_validations != total_sigs {
                        return Answer::fail(ans, "tx2-range-not-intersection", "overall validity range / signature total differ from intersection / sum");
                    }
                }
                Answer::ok(ans)
            }
            _ => bad(),
        }
    }
}

fn main() {
    main_with(&[("c34", &A)]);
}
