//! C29 — UtcDateTime: calendar conversions, Display/FromStr, add_* on the real
//! `radix_common::time::UtcDateTime` / `Instant`.
//!
//! Line protocol (stateless, one case per line; all numbers decimal, strings as hex of UTF-8 bytes):
//!   new Y M D h m s          -> ok | err <DateTimeError>
//!   from T                   -> ok Y M D h m s | err InstantIsOutOfRange | panic
//!   to Y M D h m s           -> ok T | invalid (new() rejected the fields) | panic
//!   toraw Y M D h m s        -> ok T | panic         (fields forced through SBOR decode, no validation)
//!   show Y M D h m s         -> ok <hex> | invalid
//!   parse <hex>              -> ok Y M D h m s | err InvalidFormat | err <DateTimeError> | panic | bad-op (not UTF-8)
//!   add U Y M D h m s N      -> some Y M D h m s | none | invalid      (U = d|h|m|s)
//!   cmp Y M D h m s Y M D h m s -> lt | eq | gt | invalid              (derived Ord)
//!
//! The property oracle uses an independent proleptic-Gregorian implementation (`civil_*` below:
//! Hinnant-style era arithmetic, different from the code's March-2000 based decomposition).
use harness::util::*;
use radix_common::prelude::*;
use radix_common::time::{DateTimeError, Instant, ParseUtcDateTimeError, UtcDateTime};
use std::io::Write;
use std::str::FromStr;

pub struct A;

// ---------------------------------------------------------------- independent calendar (oracle)
fn o_is_leap(y: i128) -> bool {
    y % 4 == 0 && (y % 100 != 0 || y % 400 == 0)
}
fn o_dim(y: i128, m: i128) -> i128 {
    match m {
        1 | 3 | 5 | 7 | 8 | 10 | 12 => 31,
        4 | 6 | 9 | 11 => 30,
        2 => if o_is_leap(y) { 29 } else { 28 },
        _ => 0,
    }
}
fn o_valid(f: &[i128; 6]) -> bool {
    f[0] >= 1 && f[0] <= u32::MAX as i128 && (1..=12).contains(&f[1]) && f[2] >= 1 && f[2] <= o_dim(f[0], f[1]) && (0..=23).contains(&f[3]) && (0..=59).contains(&f[4]) && (0..=59).contains(&f[5])
}
/// days since 1970-01-01 (Hinnant's days_from_civil)
fn o_days_from_civil(y: i128, m: i128, d: i128) -> i128 {
    let y = if m <= 2 { y - 1 } else { y };
    let era = y.div_euclid(400);
    let yoe = y - era * 400;
    let mp = (m + 9) % 12;
    let doy = (153 * mp + 2) / 5 + d - 1;
    let doe = yoe * 365 + yoe / 4 - yoe / 100 + doy;
    era * 146097 + doe - 719468
}
fn o_civil_from_days(z: i128) -> (i128, i128, i128) {
    let z = z + 719468;
    let era = z.div_euclid(146097);
    let doe = z - era * 146097;
    let yoe = (doe - doe / 1460 + doe / 36524 - doe / 146096) / 365;
    let y = yoe + era * 400;
    let doy = doe - (365 * yoe + yoe / 4 - yoe / 100);
    let mp = (5 * doy + 2) / 153;
    let d = doy - (153 * mp + 2) / 5 + 1;
    let m = if mp < 10 { mp + 3 } else { mp - 9 };
    (if m <= 2 { y + 1 } else { y }, m, d)
}
fn o_secs(f: &[i128; 6]) -> i128 {
    o_days_from_civil(f[0], f[1], f[2]) * 86400 + f[3] * 3600 + f[4] * 60 + f[5]
}
fn o_fields_of_secs(t: i128) -> [i128; 6] {
    let days = t.div_euclid(86400);
    let r = t.rem_euclid(86400);
    let (y, m, d) = o_civil_from_days(days);
    [y, m, d, r / 3600, r / 60 % 60, r % 60]
}
fn o_min() -> i128 {
    o_secs(&[1, 1, 1, 0, 0, 0])
}
fn o_max() -> i128 {
    o_secs(&[u32::MAX as i128, 12, 31, 23, 59, 59])
}

// ---------------------------------------------------------------- helpers on the implementation
fn fields(dt: &UtcDateTime) -> [i128; 6] {
    [dt.year() as i128, dt.month() as i128, dt.day_of_month() as i128, dt.hour() as i128, dt.minute() as i128, dt.second() as i128]
}
fn fstr(f: &[i128; 6]) -> String {
    format!("{} {} {} {} {} {}", f[0], f[1], f[2], f[3], f[4], f[5])
}
fn mk(f: &[u64; 6]) -> Result<UtcDateTime, DateTimeError> {
    UtcDateTime::new(f[0] as u32, f[1] as u8, f[2] as u8, f[3] as u8, f[4] as u8, f[5] as u8)
}
fn parse_fields(t: &[&str]) -> Option<[u64; 6]> {
    if t.len() < 6 {
        return None;
    }
    let mut f = [0u64; 6];
    for i in 0..6 {
        // canonical decimal only
        if t[i].is_empty() || !t[i].bytes().all(|b| b.is_ascii_digit()) || (t[i].len() > 1 && t[i].starts_with('0')) {
            return None;
        }
        f[i] = t[i].parse().ok()?;
    }
    if f[0] > u32::MAX as u64 || f[1..].iter().any(|x| *x > 255) {
        return None;
    }
    Some(f)
}
fn parse_i64(s: &str) -> Option<i64> {
    let body = s.strip_prefix('-').unwrap_or(s);
    if body.is_empty() || !body.bytes().all(|b| b.is_ascii_digit()) || (body.len() > 1 && body.starts_with('0')) || s == "-0" {
        return None;
    }
    s.parse().ok()
}
fn as_i(f: &[u64; 6]) -> [i128; 6] {
    [f[0] as i128, f[1] as i128, f[2] as i128, f[3] as i128, f[4] as i128, f[5] as i128]
}

// ---------------------------------------------------------------- generator
fn gen_year(rng: &mut Rng) -> u64 {
    match rng.below(12) {
        0 => *rng.pick(&[1u64, 2, 3, 4, 5, 99, 100, 101, 399, 400, 401, 1582, 1583]),
        1 => *rng.pick(&[1899u64, 1900, 1901, 1968, 1969, 1970, 1971, 1972, 1999, 2000, 2001, 2024, 2100, 2400, 9999, 10000]),
        2 => u32::MAX as u64 - rng.below(5),
        3 => 400 * (1 + rng.below(30)) + rng.below(3) - 1,
        4 => 100 * (1 + rng.below(120)) + rng.below(3) - 1,
        5 => 4 * (1 + rng.below(3000)) + rng.below(3) - 1,
        6 => 1 + rng.below(u32::MAX as u64),
        7 => 400 * (1 + rng.below(10_000_000)) + rng.below(3) - 1,
        8 => 100 * (1 + rng.below(40_000_000)) + rng.below(3) - 1,
        _ => 1 + rng.below(9999),
    }
    .clamp(1, u32::MAX as u64)
}
fn gen_valid(rng: &mut Rng) -> [u64; 6] {
    let y = gen_year(rng);
    let m = match rng.below(6) {
        0 => 2,
        1 => *rng.pick(&[1u64, 3, 12]),
        _ => 1 + rng.below(12),
    };
    let dim = o_dim(y as i128, m as i128) as u64;
    let d = match rng.below(5) {
        0 => 1,
        1 => dim,
        2 => dim.saturating_sub(1).max(1),
        _ => 1 + rng.below(dim),
    };
    let (h, mi, s) = match rng.below(5) {
        0 => (0, 0, 0),
        1 => (23, 59, 59),
        2 => (*rng.pick(&[0u64, 23]), *rng.pick(&[0u64, 59]), *rng.pick(&[0u64, 59])),
        _ => (rng.below(24), rng.below(60), rng.below(60)),
    };
    [y, m, d, h, mi, s]
}
fn gen_fields(rng: &mut Rng) -> [u64; 6] {
    let mut f = gen_valid(rng);
    if rng.chance(1, 3) {
        // break one or two fields (boundary-biased)
        for _ in 0..(1 + rng.below(2)) {
            match rng.below(6) {
                0 => f[0] = *rng.pick(&[0u64, 0, 1, u32::MAX as u64]),
                1 => f[1] = *rng.pick(&[0u64, 13, 12, 255, 14]),
                2 => f[2] = *rng.pick(&[0u64, 28, 29, 30, 31, 32, 255]),
                3 => f[3] = *rng.pick(&[23u64, 24, 255]),
                4 => f[4] = *rng.pick(&[59u64, 60, 255]),
                _ => f[5] = *rng.pick(&[59u64, 60, 61, 255]),
            }
        }
    }
    f
}
fn gen_ts(rng: &mut Rng) -> i64 {
    let (mn, mx) = (o_min() as i64, o_max() as i64);
    match rng.below(10) {
        0 => *rng.pick(&[i64::MIN, i64::MIN + 1, -1, 0, 1, i64::MAX - 1, i64::MAX, 951782400, 951868800, 946684800]),
        1 => mn + rng.range(-3, 3),
        2 => mx + rng.range(-3, 3),
        3 => rng.next() as i64,
        4 => mn + rng.below((mx - mn) as u64) as i64,
        5 => rng.range(-62135596800, 253402300800), // years 1..9999
        _ => {
            // around a date boundary of a generated (mostly interesting) date
            let f = gen_valid(rng);
            let t = o_secs(&as_i(&f));
            let t = t + *rng.pick(&[-86401i128, -86400, -1, 0, 1, 86399, 86400]);
            t.clamp(i64::MIN as i128, i64::MAX as i128) as i64
        }
    }
}
fn gen_string(rng: &mut Rng) -> Vec<u8> {
    let f = gen_fields(rng);
    let y = if rng.chance(1, 8) { f[0] } else { f[0] % 10000 };
    let mut s = format!("{:04}-{:02}-{:02}T{:02}:{:02}:{:02}Z", y, f[1], f[2], f[3], f[4], f[5]);
    let kind = rng.below(12);
    if kind < 4 {
        return s.into_bytes();
    }
    let mut cs: Vec<char> = s.chars().collect();
    let multi = ['é', 'ß', '€', '日', '𝄞', '\u{7f}', '\u{80}', '\u{7ff}', '\u{800}', '\u{ffff}', '\u{10000}', '\u{10ffff}'];
    let ascii = ['+', '-', ' ', 'T', 't', 'Z', 'z', ':', '0', '9', 'a', '/', '.', '\0', '\n'];
    match kind {
        4 | 5 => {
            // multi-byte char at some position (replace)
            let n = 1 + rng.below(3);
            for _ in 0..n {
                if !cs.is_empty() {
                    let i = rng.below(cs.len() as u64) as usize;
                    cs[i] = *rng.pick(&multi);
                }
            }
        }
        6 => {
            // ascii replacement
            let n = 1 + rng.below(3);
            for _ in 0..n {
                if !cs.is_empty() {
                    let i = rng.below(cs.len() as u64) as usize;
                    cs[i] = *rng.pick(&ascii);
                }
            }
        }
        7 => {
            // sign in front of a field
            let starts = [0usize, 5, 8, 11, 14, 17];
            let i = *rng.pick(&starts);
            if i < cs.len() {
                cs[i] = *rng.pick(&['+', '-', ' ']);
            }
        }
        8 => {
            // length changes
            match rng.below(4) {
                0 => {
                    cs.pop();
                }
                1 => cs.push(*rng.pick(&ascii)),
                2 => {
                    let i = rng.below(cs.len() as u64 + 1) as usize;
                    cs.insert(i, if rng.chance(1, 2) { *rng.pick(&multi) } else { *rng.pick(&ascii) });
                }
                _ => {
                    let i = rng.below(cs.len() as u64) as usize;
                    cs.remove(i);
                }
            }
        }
        9 => {
            // 20 bytes but fewer chars / 20 chars but more bytes
            let i = rng.below(cs.len() as u64 - 1) as usize;
            cs.remove(i);
            cs[i] = 'é';
            if rng.chance(1, 2) {
                let j = rng.below(cs.len() as u64) as usize;
                cs.insert(j, '0');
            }
        }
        10 => {
            // random short text
            let n = rng.below(26) as usize;
            cs = (0..n).map(|_| if rng.chance(1, 5) { *rng.pick(&multi) } else { *rng.pick(&ascii) }).collect();
        }
        _ => {
            // not UTF-8 at all (malformed stream): answer must be bad-op on both sides
            s = cs.iter().collect();
            let mut b = s.into_bytes();
            let i = rng.below(b.len() as u64) as usize;
            b[i] = *rng.pick(&[0x80u8, 0xbf, 0xc0, 0xc1, 0xc2, 0xe0, 0xed, 0xf0, 0xf4, 0xf5, 0xff]);
            if rng.chance(1, 2) && i + 1 < b.len() {
                b[i + 1] = *rng.pick(&[0x80u8, 0x9f, 0xa0, 0xbf, 0x8f, 0x90]);
            }
            return b;
        }
    }
    s = cs.iter().collect();
    s.into_bytes()
}

impl Area for A {
    fn gen(&self, rng: &mut Rng, n: usize, out: &mut dyn Write) {
        for _ in 0..n {
            match rng.below(20) {
                0..=5 => writeln!(out, "from {}", gen_ts(rng)).unwrap(),
                6..=8 => {
                    let f = gen_fields(rng);
                    writeln!(out, "to {} {} {} {} {} {}", f[0], f[1], f[2], f[3], f[4], f[5]).unwrap()
                }
                9 => {
                    let f = gen_fields(rng);
                    writeln!(out, "new {} {} {} {} {} {}", f[0], f[1], f[2], f[3], f[4], f[5]).unwrap()
                }
                10 => {
                    let f = gen_fields(rng);
                    writeln!(out, "toraw {} {} {} {} {} {}", f[0], f[1], f[2], f[3], f[4], f[5]).unwrap()
                }
                11..=14 => writeln!(out, "parse {}", hex(&gen_string(rng))).unwrap(),
                15 => {
                    let f = gen_fields(rng);
                    writeln!(out, "show {} {} {} {} {} {}", f[0], f[1], f[2], f[3], f[4], f[5]).unwrap()
                }
                16..=17 => {
                    let f = gen_fields(rng);
                    let u = *rng.pick(&["d", "h", "m", "s"]);
                    let k: i64 = match u {
                        "d" => 86400,
                        "h" => 3600,
                        "m" => 60,
                        _ => 1,
                    };
                    let n: i64 = match rng.below(8) {
                        0 => *rng.pick(&[i64::MIN, i64::MAX, 0, 1, -1, i64::MAX / k, (i64::MAX / k).saturating_add(1), i64::MIN / k, (i64::MIN / k).saturating_sub(1)]),
                        1 => rng.next() as i64,
                        2 => {
                            // land near the range ends
                            let t = o_secs(&as_i(&f));
                            let target = if rng.chance(1, 2) { o_max() } else { o_min() };
                            (((target - t) / k as i128) as i64).saturating_add(rng.range(-2, 2))
                        }
                        3 => rng.range(-1_000_000_000_000, 1_000_000_000_000),
                        _ => rng.range(-100_000, 100_000),
                    };
                    writeln!(out, "add {} {} {} {} {} {} {} {}", u, f[0], f[1], f[2], f[3], f[4], f[5], n).unwrap()
                }
                18 => {
                    let a = gen_fields(rng);
                    let mut b = if rng.chance(1, 2) { a } else { gen_fields(rng) };
                    if rng.chance(1, 2) {
                        let i = rng.below(6) as usize;
                        b[i] = if rng.chance(1, 2) { b[i] + 1 } else { b[i].saturating_sub(1) };
                    }
                    writeln!(out, "cmp {} {} {} {} {} {} {} {} {} {} {} {}", a[0], a[1], a[2], a[3], a[4], a[5], b[0], b[1], b[2], b[3], b[4], b[5]).unwrap()
                }
                _ => {
                    // malformed lines
                    let junk = ["from", "from x", "from 1 2", "to 1 2 3", "new 1 1 1 0 0 256", "new 4294967296 1 1 0 0 0", "parse", "parse zz", "parse 0", "add q 2000 1 1 0 0 0 1", "add d 2000 1 1 0 0 0", "cmp 1 1 1 0 0 0", "frob 1", "from 9223372036854775808", "from 01", "from -0", "show 1 1", "toraw 1 1 1 1 1"];
                    writeln!(out, "{}", rng.pick(&junk)).unwrap()
                }
            }
        }
    }
    fn runner(&self) -> Box<dyn Runner> {
        Box::new(R)
    }
    fn consts(&self) -> Vec<(String, String)> {
        let mut v = vec![];
        // MIN/MAX supported timestamps as the compiled code behaves (binary search on from_instant)
        let okf = |t: i64| UtcDateTime::from_instant(&Instant::new(t)).is_ok();
        // smallest accepted timestamp in [i64::MIN, 0]
        let (mut lo, mut hi) = (i64::MIN as i128, 0i128); // invariant: !ok(lo), ok(hi)
        if okf(0) && !okf(i64::MIN) {
            while hi - lo > 1 {
                let mid = (lo + hi).div_euclid(2);
                if okf(mid as i64) {
                    hi = mid
                } else {
                    lo = mid
                }
            }
            v.push(("MIN_SUPPORTED_TIMESTAMP".to_string(), format!("{}\tint", hi)));
        }
        let (mut lo, mut hi) = (0i128, i64::MAX as i128); // ok(lo), !ok(hi)
        if okf(0) && !okf(i64::MAX) {
            while hi - lo > 1 {
                let mid = (lo + hi).div_euclid(2);
                if okf(mid as i64) {
                    lo = mid
                } else {
                    hi = mid
                }
            }
            v.push(("MAX_SUPPORTED_TIMESTAMP".to_string(), format!("{}\tint", lo)));
        }
        // private constants and the month table: from the source text (arithmetic expressions are valid Lean terms)
        let src = std::fs::read_to_string("/repo/radix-common/src/time/utc_date_time.rs").unwrap_or_default();
        let csrc = std::fs::read_to_string("/repo/radix-common/src/time/constants.rs").unwrap_or_default();
        let re = regex::Regex::new(r"(?m)^\s*(?:pub )?const ([A-Z0-9_]+): (i64|u32) = ([0-9_+* ()]+);").unwrap();
        for text in [&src, &csrc] {
            for c in re.captures_iter(text) {
                let name = &c[1];
                if name == "MIN_SUPPORTED_TIMESTAMP" || name == "MAX_SUPPORTED_TIMESTAMP" {
                    continue; // taken from the compiled behaviour above; the `-` literal is not matched anyway
                }
                let ty = if &c[2] == "i64" { "Int" } else { "Nat" };
                v.push((format!("SRC_{}", name), format!("{}\traw\t{}", c[3].replace('_', "").trim(), ty)));
            }
        }
        let re_min = regex::Regex::new(r"const MIN_SUPPORTED_TIMESTAMP: i64 = (-?[0-9_]+);").unwrap();
        if let Some(c) = re_min.captures(&src) {
            v.push(("SRC_MIN_SUPPORTED_TIMESTAMP".into(), format!("{}\tint", c[1].replace('_', ""))));
        }
        let re_max = regex::Regex::new(r"const MAX_SUPPORTED_TIMESTAMP: i64 = (-?[0-9_]+);").unwrap();
        if let Some(c) = re_max.captures(&src) {
            v.push(("SRC_MAX_SUPPORTED_TIMESTAMP".into(), format!("{}\tint", c[1].replace('_', ""))));
        }
        let re_tab = regex::Regex::new(r"const LEAP_YEAR_DAYS_IN_MONTHS: \[u8; 12\] = \[([0-9, ]+)\];").unwrap();
        if let Some(c) = re_tab.captures(&src) {
            v.push(("SRC_LEAP_YEAR_DAYS_IN_MONTHS".into(), format!("[{}]\traw\tList Nat", c[1].trim())));
        }
        // Display format string and rotate amount, as written
        let re_fmt = regex::Regex::new(r#""(\{:0[0-9]\}[^"]*Z)""#).unwrap();
        if let Some(c) = re_fmt.captures(&src) {
            v.push(("SRC_DISPLAY_FORMAT".into(), format!("{}\tstr", &c[1])));
        }
        let re_rot = regex::Regex::new(r"days_in_months_starting_on_march\.rotate_left\(([0-9]+)\)").unwrap();
        if let Some(c) = re_rot.captures(&src) {
            v.push(("SRC_MONTH_ROTATE_LEFT".into(), c[1].to_string()));
        }
        v
    }
}

struct R;

fn dte(e: DateTimeError) -> &'static str {
    match e {
        DateTimeError::InvalidYear => "InvalidYear",
        DateTimeError::InvalidMonth => "InvalidMonth",
        DateTimeError::InvalidDayOfMonth => "InvalidDayOfMonth",
        DateTimeError::InvalidHour => "InvalidHour",
        DateTimeError::InvalidMinute => "InvalidMinute",
        DateTimeError::InvalidSecond => "InvalidSecond",
        DateTimeError::InstantIsOutOfRange => "InstantIsOutOfRange",
    }
}

/// what `new` must answer according to the documented rules (first failing check in field order)
fn o_new(f: &[i128; 6]) -> &'static str {
    if f[0] == 0 {
        "err InvalidYear"
    } else if !(1..=12).contains(&f[1]) {
        "err InvalidMonth"
    } else if f[2] < 1 || f[2] > o_dim(f[0], f[1]) {
        "err InvalidDayOfMonth"
    } else if f[3] > 23 {
        "err InvalidHour"
    } else if f[4] > 59 {
        "err InvalidMinute"
    } else if f[5] > 59 {
        "err InvalidSecond"
    } else {
        "ok"
    }
}

fn strict_iso(b: &[u8]) -> Option<[i128; 6]> {
    // exactly dddd-dd-ddTdd:dd:ddZ
    if b.len() != 20 {
        return None;
    }
    let pat = b"dddd-dd-ddTdd:dd:ddZ";
    for i in 0..20 {
        if pat[i] == b'd' {
            if !b[i].is_ascii_digit() {
                return None;
            }
        } else if b[i] != pat[i] {
            return None;
        }
    }
    let num = |a: usize, z: usize| -> i128 { b[a..z].iter().fold(0i128, |acc, c| acc * 10 + (*c - b'0') as i128) };
    Some([num(0, 4), num(5, 7), num(8, 10), num(11, 13), num(14, 16), num(17, 19)])
}

impl Runner for R {
    fn step(&mut self, line: &str) -> Answer {
        let t: Vec<&str> = line.split(' ').collect();
        match t[0] {
            "new" if t.len() == 7 => {
                let Some(f) = parse_fields(&t[1..]) else { return Answer::ok("bad-op") };
                let r = catch(|| mk(&f));
                let ans = match &r {
                    Ok(Ok(_)) => "ok".to_string(),
                    Ok(Err(e)) => format!("err {}", dte(*e)),
                    Err(_) => "panic".to_string(),
                };
                let exp = o_new(&as_i(&f));
                if ans != exp {
                    return Answer::fail(ans.clone(), format!("new:{}", exp.replace(' ', "-")), format!("UtcDateTime::new({:?}) answered {} but the Gregorian rules say {}", f, ans, exp));
                }
                if let Ok(Ok(dt)) = &r {
                    if fields(dt) != as_i(&f) {
                        return Answer::fail(ans, "new:fields", "accessors do not return the constructor arguments");
                    }
                }
                Answer::ok(ans)
            }
            "from" if t.len() == 2 => {
                let Some(ts) = parse_i64(t[1]) else { return Answer::ok("bad-op") };
                let r = catch(|| UtcDateTime::from_instant(&Instant::new(ts)));
                let in_range = (ts as i128) >= o_min() && (ts as i128) <= o_max();
                match r {
                    Err(m) => Answer::fail("panic", "from:panic", format!("from_instant({}) panicked: {}", ts, m)),
                    Ok(Err(e)) => {
                        let ans = format!("err {}", dte(e));
                        if in_range || e != DateTimeError::InstantIsOutOfRange {
                            return Answer::fail(ans, "from:range", format!("from_instant({}) rejected a timestamp inside 0001-01-01..u32::MAX-12-31", ts));
                        }
                        Answer::ok(ans)
                    }
                    Ok(Ok(dt)) => {
                        let f = fields(&dt);
                        let ans = format!("ok {}", fstr(&f));
                        if !in_range {
                            return Answer::fail(ans, "from:range", format!("from_instant({}) accepted a timestamp outside the supported range", ts));
                        }
                        if !o_valid(&f) {
                            return Answer::fail(ans, "from:invalid-date", format!("from_instant({}) produced an invalid calendar date", ts));
                        }
                        if o_secs(&f) != ts as i128 || o_fields_of_secs(ts as i128) != f {
                            return Answer::fail(ans, "from:gregorian", format!("from_instant({}) = {:?} disagrees with the proleptic Gregorian calendar ({:?})", ts, f, o_fields_of_secs(ts as i128)));
                        }
                        match catch(|| dt.to_instant()) {
                            Ok(i) if i.seconds_since_unix_epoch == ts => {}
                            other => return Answer::fail(ans, "from:roundtrip", format!("to_instant(from_instant({})) = {:?}", ts, other.map(|i| i.seconds_since_unix_epoch))),
                        }
                        // strict monotonicity against both neighbours (derived Ord on UtcDateTime)
                        for nb in [ts.checked_sub(1), ts.checked_add(1)].into_iter().flatten() {
                            if let Ok(Ok(dn)) = catch(|| UtcDateTime::from_instant(&Instant::new(nb))) {
                                if (nb < ts) != (dn < dt) || dn == dt {
                                    return Answer::fail(ans, "from:monotone", format!("from_instant is not strictly increasing at {} / {}", ts, nb));
                                }
                            }
                        }
                        Answer::ok(ans)
                    }
                }
            }
            "to" | "show" if t.len() == 7 => {
                let Some(f) = parse_fields(&t[1..]) else { return Answer::ok("bad-op") };
                let Ok(dt) = mk(&f) else {
                    if o_valid(&as_i(&f)) {
                        return Answer::fail("invalid", "new:rejects-valid", "new() rejected a valid date");
                    }
                    return Answer::ok("invalid");
                };
                let fi = as_i(&f);
                if !o_valid(&fi) {
                    return Answer::fail("ok", "new:accepts-invalid", format!("new() accepted the invalid date {:?}", f));
                }
                if t[0] == "to" {
                    match catch(|| dt.to_instant()) {
                        Err(m) => Answer::fail("panic", "to:panic", format!("to_instant({:?}) panicked: {}", f, m)),
                        Ok(i) => {
                            let ts = i.seconds_since_unix_epoch;
                            let ans = format!("ok {}", ts);
                            if ts as i128 != o_secs(&fi) {
                                return Answer::fail(ans, "to:gregorian", format!("to_instant({:?}) = {} but the proleptic Gregorian calendar gives {}", f, ts, o_secs(&fi)));
                            }
                            match catch(|| UtcDateTime::from_instant(&i)) {
                                Ok(Ok(d2)) if d2 == dt => {}
                                other => return Answer::fail(ans, "to:roundtrip", format!("from_instant(to_instant({:?})) = {:?}", f, other)),
                            }
                            Answer::ok(ans)
                        }
                    }
                } else {
                    match catch(|| dt.to_string()) {
                        Err(m) => Answer::fail("panic", "show:panic", m),
                        Ok(s) => {
                            let ans = format!("ok {}", hex(s.as_bytes()));
                            let exp = format!("{:04}-{:02}-{:02}T{:02}:{:02}:{:02}Z", fi[0], fi[1], fi[2], fi[3], fi[4], fi[5]);
                            if s != exp {
                                return Answer::fail(ans, "show:format", format!("Display gave {} expected {}", s, exp));
                            }
                            if fi[0] <= 9999 {
                                match catch(|| UtcDateTime::from_str(&s)) {
                                    Ok(Ok(d2)) if d2 == dt => {}
                                    other => return Answer::fail(ans, "show:print-parse", format!("from_str(to_string({:?})) = {:?}", f, other)),
                                }
                            }
                            Answer::ok(ans)
                        }
                    }
                }
            }
            "toraw" if t.len() == 7 => {
                let Some(f) = parse_fields(&t[1..]) else { return Answer::ok("bad-op") };
                let enc = scrypto_encode(&(f[0] as u32, f[1] as u8, f[2] as u8, f[3] as u8, f[4] as u8, f[5] as u8)).unwrap();
                let Ok(dt) = scrypto_decode::<UtcDateTime>(&enc) else { return Answer::ok("decode-rejected") };
                match catch(|| dt.to_instant()) {
                    Err(m) => {
                        if o_valid(&as_i(&f)) {
                            return Answer::fail("panic", "to:panic", format!("to_instant({:?}) panicked: {}", f, m));
                        }
                        Answer::ok("panic")
                    }
                    Ok(i) => {
                        let ans = format!("ok {}", i.seconds_since_unix_epoch);
                        if o_valid(&as_i(&f)) && i.seconds_since_unix_epoch as i128 != o_secs(&as_i(&f)) {
                            return Answer::fail(ans, "to:gregorian", "to_instant disagrees with the Gregorian calendar");
                        }
                        Answer::ok(ans)
                    }
                }
            }
            "parse" if t.len() == 2 => {
                let Some(b) = unhex(t[1]) else { return Answer::ok("bad-op") };
                let Ok(s) = String::from_utf8(b.clone()) else { return Answer::ok("bad-op") };
                let r = catch(|| UtcDateTime::from_str(&s));
                let strict = strict_iso(&b);
                match r {
                    Err(m) => {
                        let cls = if s.is_ascii() { "ascii" } else { "non-ascii" };
                        Answer::fail("panic", format!("parse:panic:{}", cls), format!("from_str({:?}) panicked: {}", s, m))
                    }
                    Ok(Ok(dt)) => {
                        let f = fields(&dt);
                        let ans = format!("ok {}", fstr(&f));
                        if !o_valid(&f) {
                            return Answer::fail(ans, "parse:invalid-date", format!("from_str({:?}) produced an invalid date {:?}", s, f));
                        }
                        if let Some(sf) = strict {
                            if sf != f {
                                return Answer::fail(ans, "parse:strict-value", format!("from_str({:?}) = {:?}", s, f));
                            }
                        }
                        // parse result printed again parses to the same date-time (years <= 9999)
                        if f[0] <= 9999 {
                            match catch(|| UtcDateTime::from_str(&dt.to_string())) {
                                Ok(Ok(d2)) if d2 == dt => {}
                                _ => return Answer::fail(ans, "show:print-parse", "print/parse round trip failed"),
                            }
                        }
                        Answer::ok(ans)
                    }
                    Ok(Err(e)) => {
                        let ans = match e {
                            ParseUtcDateTimeError::InvalidFormat => "err InvalidFormat".to_string(),
                            ParseUtcDateTimeError::DateTimeError(e) => format!("err {}", dte(e)),
                        };
                        if let Some(sf) = strict {
                            let exp = o_new(&sf);
                            if exp != ans {
                                return Answer::fail(ans.clone(), "parse:strict-reject", format!("from_str({:?}) = {} but the fields say {}", s, ans, exp));
                            }
                        }
                        Answer::ok(ans)
                    }
                }
            }
            "add" if t.len() == 9 => {
                let k: i128 = match t[1] {
                    "d" => 86400,
                    "h" => 3600,
                    "m" => 60,
                    "s" => 1,
                    _ => return Answer::ok("bad-op"),
                };
                let Some(f) = parse_fields(&t[2..8]) else { return Answer::ok("bad-op") };
                let Some(n) = parse_i64(t[8]) else { return Answer::ok("bad-op") };
                let Ok(dt) = mk(&f) else { return Answer::ok("invalid") };
                let r = catch(|| match t[1] {
                    "d" => dt.add_days(n),
                    "h" => dt.add_hours(n),
                    "m" => dt.add_minutes(n),
                    _ => dt.add_seconds(n),
                });
                let target = o_secs(&as_i(&f)) + (n as i128) * k;
                let exp = if target >= o_min() && target <= o_max() { Some(o_fields_of_secs(target)) } else { None };
                match r {
                    Err(m) => Answer::fail("panic", "add:panic", m),
                    Ok(got) => {
                        let gotf = got.as_ref().map(fields);
                        let ans = match &gotf {
                            Some(g) => format!("some {}", fstr(g)),
                            None => "none".to_string(),
                        };
                        if gotf != exp {
                            return Answer::fail(ans, "add:arith", format!("add_{}({:?}, {}) = {:?}, timestamp arithmetic gives {:?}", t[1], f, n, gotf, exp));
                        }
                        Answer::ok(ans)
                    }
                }
            }
            "cmp" if t.len() == 13 => {
                let (Some(a), Some(b)) = (parse_fields(&t[1..7]), parse_fields(&t[7..13])) else { return Answer::ok("bad-op") };
                let (Ok(x), Ok(y)) = (mk(&a), mk(&b)) else { return Answer::ok("invalid") };
                let o = x.cmp(&y);
                let ans = match o {
                    std::cmp::Ordering::Less => "lt",
                    std::cmp::Ordering::Equal => "eq",
                    std::cmp::Ordering::Greater => "gt",
                };
                // calendar order = timestamp order
                let ti = (x.to_instant().seconds_since_unix_epoch).cmp(&y.to_instant().seconds_since_unix_epoch);
                if ti != o {
                    return Answer::fail(ans, "cmp:order", format!("Ord on UtcDateTime ({:?}) differs from timestamp order ({:?}) for {:?} {:?}", o, ti, a, b));
                }
                Answer::ok(ans)
            }
            _ => Answer::ok("bad-op"),
        }
    }
}

fn main() {
    main_with(&[("c29", &A)]);
}
