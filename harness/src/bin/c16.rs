//! C16 — `SpreadPrefixKeyMapper`: node / partition / field / map / sorted key mapping to database keys
//! and back, on the real `radix_substate_store_interface::db_key_mapper`.
//!
//! Line protocol (stateless, one case per line; bytes as hex, `-` = empty):
//!   node <node30>                    -> <dbnodekey>
//!   unnode <bytes>                   -> <node30> | panic
//!   part <u8>                        -> <u8>            (to_db_partition_num, checked against from_)
//!   field <u8>                       -> <sortkey>
//!   unfield <bytes>                  -> <u8> | panic
//!   map <bytes>                      -> <sortkey>
//!   unmap <bytes>                    -> <bytes> | panic
//!   sorted <p2> <bytes>              -> <sortkey>
//!   unsorted <bytes>                 -> <p2> <bytes> | panic
//!   cmp <p2> <k> <p2'> <k'>          -> lt|eq|gt        (byte-lexicographic order of the two sorted db keys)
//!   key <node30> <u8> f <u8>         -> <dbnodekey> <u8> <sortkey>
//!   key <node30> <u8> m <bytes>      -> idem
//!   key <node30> <u8> s <p2> <bytes> -> idem
//! The runner keeps (oracle-only) a table of every db key produced so far with its logical key:
//! two different logical keys with the same database key are a violation (`collision`).
use harness::util::*;
use radix_common::prelude::*;
use radix_substate_store_interface::db_key_mapper::*;
use radix_substate_store_interface::interface::*;
use std::collections::HashMap;
use std::io::Write;

type M = SpreadPrefixKeyMapper;

pub struct A;

const LENS: &[usize] = &[0, 1, 2, 3, 17, 18, 19, 20, 21, 22, 23, 29, 30, 31, 32, 33, 49, 50, 51, 52, 63, 64, 65, 127, 128, 129, 255, 256, 1024];

fn some_len(rng: &mut Rng) -> usize {
    match rng.below(10) {
        0..=3 => rng.below(40) as usize,
        4..=7 => *rng.pick(LENS),
        8 => rng.below(300) as usize,
        _ => rng.below(1100) as usize,
    }
}

fn some_bytes(rng: &mut Rng, n: usize) -> Vec<u8> {
    match rng.below(8) {
        0 => vec![0u8; n],
        1 => vec![0xffu8; n],
        2 => {
            let b = rng.next() as u8;
            vec![b; n]
        }
        _ => rng.bytes(n),
    }
}

fn some_node(rng: &mut Rng) -> Vec<u8> {
    // a small pool of nodes (so that equal nodes re-occur) plus fresh random ones
    match rng.below(6) {
        0 => vec![0u8; 30],
        1 => vec![0xff; 30],
        2 => {
            let mut v = vec![0x5d; 30];
            v[29] = rng.below(3) as u8;
            v
        }
        _ => rng.bytes(30),
    }
}

fn some_prefix(rng: &mut Rng) -> [u8; 2] {
    match rng.below(8) {
        0 => [0, 0],
        1 => [0xff, 0xff],
        2 => [0, 0xff],
        3 => [1, 0],
        4 => [0, rng.next() as u8],
        5 => [rng.next() as u8, 0],
        _ => [rng.next() as u8, rng.next() as u8],
    }
}

fn neighbour(rng: &mut Rng, p: [u8; 2]) -> [u8; 2] {
    let v = u16::from_be_bytes(p);
    let w = match rng.below(7) {
        0 => v,
        1 => v.wrapping_add(1),
        2 => v.wrapping_sub(1),
        3 => v ^ 0x0100,
        4 => v ^ 0x0001,
        5 => v.swap_bytes(),
        _ => rng.next() as u16,
    };
    w.to_be_bytes()
}

impl Area for A {
    fn gen(&self, rng: &mut Rng, n: usize, out: &mut dyn Write) {
        for _ in 0..n {
            match rng.below(20) {
                0 => {
                    if rng.chance(1, 4) {
                        // a node id whose first bytes are the hash prefix of its own tail
                        let tail = rng.bytes(10);
                        let wrapped = M::map_to_db_sort_key(&tail).0; // hash(tail)[..20] ++ tail = 30 bytes
                        if wrapped.len() == 30 {
                            writeln!(out, "node {}", hex(&wrapped)).unwrap();
                        } else {
                            writeln!(out, "node {}", hex(&some_node(rng))).unwrap();
                        }
                    } else {
                        writeln!(out, "node {}", hex(&some_node(rng))).unwrap()
                    }
                }
                1 => {
                    // unnode: valid db node keys, keys of boundary lengths, arbitrary bytes
                    let b = match rng.below(4) {
                        0 => M::to_db_node_key(&NodeId(some_node(rng).try_into().unwrap())),
                        1 => {
                            let l = *rng.pick(&[0usize, 1, 19, 20, 21, 29, 30, 31, 49, 50, 51, 52, 80]);
                            some_bytes(rng, l)
                        }
                        2 => rng.bytes(50),
                        _ => {
                            let l = some_len(rng);
                            some_bytes(rng, l)
                        }
                    };
                    writeln!(out, "unnode {}", hex(&b)).unwrap()
                }
                2 => writeln!(out, "part {}", if rng.chance(1, 4) { *rng.pick(&[0u64, 1, 63, 64, 65, 127, 128, 254, 255]) } else { rng.below(256) }).unwrap(),
                3 => writeln!(out, "field {}", if rng.chance(1, 4) { *rng.pick(&[0u64, 1, 127, 128, 254, 255]) } else { rng.below(256) }).unwrap(),
                4 => {
                    let l = if rng.chance(1, 2) { rng.below(4) as usize } else { some_len(rng) };
                    writeln!(out, "unfield {}", hex(&some_bytes(rng, l))).unwrap()
                }
                5 | 6 => {
                    let l = some_len(rng);
                    let k = some_bytes(rng, l);
                    if rng.chance(1, 4) {
                        // structure-aware adversarial key: a logical key that is byte-identical to the DB encoding of
                        // another logical key (hash(K)[..n] ++ K), also doubly wrapped; the mapping must still be injective
                        let once = M::map_to_db_sort_key(&k).0;
                        let twice = M::map_to_db_sort_key(&once).0;
                        writeln!(out, "map {}", hex(&k)).unwrap();
                        writeln!(out, "map {}", hex(&once)).unwrap();
                        if rng.chance(1, 2) {
                            writeln!(out, "map {}", hex(&twice)).unwrap();
                        }
                    } else {
                        writeln!(out, "map {}", hex(&k)).unwrap()
                    }
                }
                7 => {
                    let b = match rng.below(3) {
                        0 => {
                            let l = some_len(rng);
                            M::map_to_db_sort_key(&some_bytes(rng, l)).0
                        }
                        1 => {
                            let l = *rng.pick(&[0usize, 1, 2, 18, 19, 20, 21, 22, 23, 40]);
                            some_bytes(rng, l)
                        }
                        _ => {
                            let l = some_len(rng);
                            some_bytes(rng, l)
                        }
                    };
                    writeln!(out, "unmap {}", hex(&b)).unwrap()
                }
                8 | 9 => {
                    let l = some_len(rng);
                    let pre = some_prefix(rng);
                    let k = some_bytes(rng, l);
                    if rng.chance(1, 4) {
                        // same idea for the sorted index: the payload is the hash-prefixed form of another payload
                        let wrapped = M::map_to_db_sort_key(&k).0;
                        writeln!(out, "sorted {} {}", hex(&pre), hex(&k)).unwrap();
                        writeln!(out, "sorted {} {}", hex(&pre), hex(&wrapped)).unwrap();
                    } else {
                        writeln!(out, "sorted {} {}", hex(&pre), hex(&k)).unwrap()
                    }
                }
                10 => {
                    let b = match rng.below(3) {
                        0 => {
                            let l = some_len(rng);
                            M::sorted_to_db_sort_key(&(some_prefix(rng), some_bytes(rng, l))).0
                        }
                        1 => {
                            let l = *rng.pick(&[0usize, 1, 2, 3, 19, 20, 21, 22, 23, 24, 42]);
                            some_bytes(rng, l)
                        }
                        _ => {
                            let l = some_len(rng);
                            some_bytes(rng, l)
                        }
                    };
                    writeln!(out, "unsorted {}", hex(&b)).unwrap()
                }
                11..=13 => {
                    let p = some_prefix(rng);
                    let q = neighbour(rng, p);
                    let (l1, l2) = (some_len(rng) % 70, some_len(rng) % 70);
                    let k1 = some_bytes(rng, l1);
                    let k2 = if rng.chance(1, 4) { k1.clone() } else { some_bytes(rng, l2) };
                    writeln!(out, "cmp {} {} {} {}", hex(&p), hex(&k1), hex(&q), hex(&k2)).unwrap()
                }
                14..=18 => {
                    let node = some_node(rng);
                    let pn = if rng.chance(1, 2) { rng.below(3) } else { rng.below(256) };
                    match rng.below(3) {
                        0 => writeln!(out, "key {} {} f {}", hex(&node), pn, rng.below(256)).unwrap(),
                        1 => {
                            let l = some_len(rng);
                            writeln!(out, "key {} {} m {}", hex(&node), pn, hex(&some_bytes(rng, l))).unwrap()
                        }
                        _ => {
                            let l = some_len(rng);
                            writeln!(out, "key {} {} s {} {}", hex(&node), pn, hex(&some_prefix(rng)), hex(&some_bytes(rng, l))).unwrap()
                        }
                    }
                }
                _ => {
                    // malformed stream
                    let l = *rng.pick(&[0usize, 1, 29, 31, 60]);
                    match rng.below(8) {
                        0 => writeln!(out, "node {}", hex(&rng.bytes(l))).unwrap(),
                        1 => writeln!(out, "field 256").unwrap(),
                        2 => writeln!(out, "part -1").unwrap(),
                        3 => {
                            let pl = *rng.pick(&[0usize, 1, 3]);
                            writeln!(out, "sorted {} {}", hex(&rng.bytes(pl)), hex(&rng.bytes(4))).unwrap()
                        }
                        4 => writeln!(out, "map zz").unwrap(),
                        5 => writeln!(out, "key {} 1 x 00", hex(&rng.bytes(30))).unwrap(),
                        6 => writeln!(out, "unmap abc").unwrap(),
                        _ => writeln!(out, "frob 00").unwrap(),
                    }
                }
            }
        }
    }

    fn runner(&self) -> Box<dyn Runner> {
        Box::new(R { seen: HashMap::new(), seen_node: HashMap::new() })
    }

    fn consts(&self) -> Vec<(String, String)> {
        // HASHED_PREFIX_LENGTH is a private associated const: observe it on the compiled code.
        let node = NodeId([7u8; NodeId::LENGTH]);
        let hpl = M::to_db_node_key(&node).len() - NodeId::LENGTH;
        let hpl_map = M::map_to_db_sort_key(&vec![]).0.len();
        let sorted_overhead = M::sorted_to_db_sort_key(&([0, 0], vec![])).0.len();
        vec![
            ("HASHED_PREFIX_LENGTH".into(), hpl.to_string()),
            ("HASHED_PREFIX_LENGTH_MAP".into(), hpl_map.to_string()),
            ("SORTED_OVERHEAD".into(), sorted_overhead.to_string()),
            ("NODE_ID_LENGTH".into(), NodeId::LENGTH.to_string()),
            ("HASH_LENGTH".into(), Hash::LENGTH.to_string()),
            ("FIELD_SORT_KEY_LENGTH".into(), M::field_to_db_sort_key(&0).0.len().to_string()),
        ]
    }
}

#[derive(Clone, PartialEq, Eq, Debug)]
enum Logical {
    F(u8),
    M(Vec<u8>),
    S([u8; 2], Vec<u8>),
}

struct R {
    /// oracle state: database key -> logical key it was produced from
    seen: HashMap<(Vec<u8>, u8, Vec<u8>), (Vec<u8>, u8, Logical)>,
    seen_node: HashMap<Vec<u8>, Vec<u8>>,
}

fn node_of(s: &str) -> Option<NodeId> {
    let b = unhex(s)?;
    if b.len() != NodeId::LENGTH {
        return None;
    }
    Some(NodeId(b.try_into().unwrap()))
}

fn p2_of(s: &str) -> Option<[u8; 2]> {
    let b = unhex(s)?;
    if b.len() != 2 {
        return None;
    }
    Some([b[0], b[1]])
}

fn u8_of(s: &str) -> Option<u8> {
    if s.is_empty() || !s.bytes().all(|c| c.is_ascii_digit()) || s.len() > 3 {
        return None;
    }
    s.parse::<u16>().ok().and_then(|v| u8::try_from(v).ok())
}

impl R {
    fn sort_key_collision(&mut self, nk: &[u8], pn: u8, sk: &[u8], node: &[u8], lpn: u8, l: Logical) -> Option<String> {
        let k = (nk.to_vec(), pn, sk.to_vec());
        let v = (node.to_vec(), lpn, l);
        match self.seen.get(&k) {
            Some(old) if *old != v => Some(format!("database key {} {} {} is shared by logical keys {:?} and {:?}", hex(nk), pn, hex(sk), old, v)),
            Some(_) => None,
            None => {
                if self.seen.len() < 2_000_000 {
                    self.seen.insert(k, v);
                }
                None
            }
        }
    }
}

impl Runner for R {
    fn step(&mut self, line: &str) -> Answer {
        let t: Vec<&str> = line.split(' ').collect();
        let bad = || Answer::ok("bad-op");
        match (t[0], t.len()) {
            ("node", 2) => {
                let Some(node) = node_of(t[1]) else { return bad() };
                let k = M::to_db_node_key(&node);
                let ans = hex(&k);
                match catch(|| M::from_db_node_key(&k)) {
                    Ok(back) if back == node => {}
                    Ok(back) => return Answer::fail(ans, "node-roundtrip", format!("from_db_node_key(to_db_node_key(n)) = {} for n = {}", hex(&back.0), t[1])),
                    Err(e) => return Answer::fail(ans, "node-roundtrip-panic", format!("from_db_node_key panicked on a key produced by to_db_node_key: {}", e)),
                }
                if let Some(old) = self.seen_node.get(&k) {
                    if old != &node.0.to_vec() {
                        return Answer::fail(ans, "node-collision", format!("nodes {} and {} share db node key", hex(old), t[1]));
                    }
                } else {
                    self.seen_node.insert(k.clone(), node.0.to_vec());
                }
                Answer::ok(ans)
            }
            ("unnode", 2) => {
                let Some(b) = unhex(t[1]) else { return bad() };
                match catch(|| M::from_db_node_key(&b)) {
                    Ok(n) => {
                        // whatever was accepted must be the stored plain part: re-mapping an accepted key that
                        // really is a db node key gives the key back
                        let again = M::to_db_node_key(&n);
                        if again.len() != b.len() || again[again.len() - NodeId::LENGTH..] != b[b.len() - NodeId::LENGTH..] {
                            return Answer::fail(hex(&n.0), "unnode-plain-part", "from_db_node_key did not return the plain part of the key");
                        }
                        Answer::ok(hex(&n.0))
                    }
                    Err(_) => Answer::ok("panic"),
                }
            }
            ("part", 2) => {
                let Some(p) = u8_of(t[1]) else { return bad() };
                let d = M::to_db_partition_num(PartitionNumber(p));
                let back = M::from_db_partition_num(d);
                if back != PartitionNumber(p) {
                    return Answer::fail(d.to_string(), "partition-roundtrip", format!("partition {} maps to {} and back to {}", p, d, back.0));
                }
                Answer::ok(d.to_string())
            }
            ("field", 2) => {
                let Some(f) = u8_of(t[1]) else { return bad() };
                let k = M::field_to_db_sort_key(&f);
                let ans = hex(&k.0);
                match catch(|| M::field_from_db_sort_key(&k)) {
                    Ok(b) if b == f => Answer::ok(ans),
                    Ok(b) => Answer::fail(ans, "field-roundtrip", format!("field {} maps back to {}", f, b)),
                    Err(e) => Answer::fail(ans, "field-roundtrip-panic", e),
                }
            }
            ("unfield", 2) => {
                let Some(b) = unhex(t[1]) else { return bad() };
                match catch(|| M::field_from_db_sort_key(&DbSortKey(b.clone()))) {
                    Ok(f) => Answer::ok(f.to_string()),
                    Err(_) => Answer::ok("panic"),
                }
            }
            ("map", 2) => {
                let Some(m) = unhex(t[1]) else { return bad() };
                let k = M::map_to_db_sort_key(&m);
                let ans = hex(&k.0);
                match catch(|| M::map_from_db_sort_key(&k)) {
                    Ok(b) if b == m => Answer::ok(ans),
                    Ok(b) => Answer::fail(ans, "map-roundtrip", format!("map key {} maps back to {}", t[1], hex(&b))),
                    Err(e) => Answer::fail(ans, "map-roundtrip-panic", e),
                }
            }
            ("unmap", 2) => {
                let Some(b) = unhex(t[1]) else { return bad() };
                match catch(|| M::map_from_db_sort_key(&DbSortKey(b.clone()))) {
                    Ok(m) => Answer::ok(hex(&m)),
                    Err(_) => Answer::ok("panic"),
                }
            }
            ("sorted", 3) => {
                let (Some(p), Some(m)) = (p2_of(t[1]), unhex(t[2])) else { return bad() };
                let k = M::sorted_to_db_sort_key(&(p, m.clone()));
                let ans = hex(&k.0);
                if k.0.len() < 2 || k.0[..2] != p {
                    return Answer::fail(ans, "sorted-prefix-first", "the sorted db key does not start with the 2-byte sort prefix");
                }
                match catch(|| M::sorted_from_db_sort_key(&k)) {
                    Ok(b) if b == (p, m.clone()) => Answer::ok(ans),
                    Ok(b) => Answer::fail(ans, "sorted-roundtrip", format!("sorted key maps back to {} {}", hex(&b.0), hex(&b.1))),
                    Err(e) => Answer::fail(ans, "sorted-roundtrip-panic", e),
                }
            }
            ("unsorted", 2) => {
                let Some(b) = unhex(t[1]) else { return bad() };
                match catch(|| M::sorted_from_db_sort_key(&DbSortKey(b.clone()))) {
                    Ok((p, m)) => Answer::ok(format!("{} {}", hex(&p), hex(&m))),
                    Err(_) => Answer::ok("panic"),
                }
            }
            ("cmp", 5) => {
                let (Some(p), Some(k1), Some(q), Some(k2)) = (p2_of(t[1]), unhex(t[2]), p2_of(t[3]), unhex(t[4])) else { return bad() };
                let a = M::sorted_to_db_sort_key(&(p, k1.clone()));
                let b = M::sorted_to_db_sort_key(&(q, k2.clone()));
                let ord = a.cmp(&b); // DbSortKey: derived Ord on Vec<u8> = byte-lexicographic, as every store uses
                let ans = match ord {
                    std::cmp::Ordering::Less => "lt",
                    std::cmp::Ordering::Equal => "eq",
                    std::cmp::Ordering::Greater => "gt",
                };
                let (pv, qv) = (u16::from_be_bytes(p), u16::from_be_bytes(q));
                let expect = pv.cmp(&qv);
                if expect != std::cmp::Ordering::Equal && expect != ord {
                    return Answer::fail(ans, "sorted-order", format!("sort prefixes {} vs {} but database keys compare {:?}", pv, qv, ord));
                }
                if ord == std::cmp::Ordering::Equal && (p, &k1) != (q, &k2) {
                    return Answer::fail(ans, "collision", "two different sorted keys share a database sort key");
                }
                Answer::ok(ans)
            }
            ("key", 5) | ("key", 6) => {
                let (Some(node), Some(pn)) = (node_of(t[1]), u8_of(t[2])) else { return bad() };
                let (sk, logical) = match (t[3], t.len()) {
                    ("f", 5) => {
                        let Some(f) = u8_of(t[4]) else { return bad() };
                        (SubstateKey::Field(f), Logical::F(f))
                    }
                    ("m", 5) => {
                        let Some(m) = unhex(t[4]) else { return bad() };
                        (SubstateKey::Map(m.clone()), Logical::M(m))
                    }
                    ("s", 6) => {
                        let (Some(p), Some(m)) = (p2_of(t[4]), unhex(t[5])) else { return bad() };
                        (SubstateKey::Sorted((p, m.clone())), Logical::S(p, m))
                    }
                    _ => return bad(),
                };
                let pk = M::to_db_partition_key(&node, PartitionNumber(pn));
                let dk = M::to_db_sort_key(&sk);
                let ans = format!("{} {} {}", hex(&pk.node_key), pk.partition_num, hex(&dk.0));
                // the by-reference variant must agree
                if M::to_db_sort_key_from_ref(sk.as_ref()) != dk {
                    return Answer::fail(ans, "ref-variant", "to_db_sort_key_from_ref differs from to_db_sort_key");
                }
                // round trip
                let back = catch(|| {
                    let (n, p) = M::from_db_partition_key(&pk);
                    let k = match &sk {
                        SubstateKey::Field(_) => M::from_db_sort_key::<FieldKey>(&dk),
                        SubstateKey::Map(_) => M::from_db_sort_key::<MapKey>(&dk),
                        SubstateKey::Sorted(_) => M::from_db_sort_key::<SortedKey>(&dk),
                    };
                    (n, p, k)
                });
                match back {
                    Ok((n, p, k)) => {
                        if n != node || p != PartitionNumber(pn) || k != sk {
                            return Answer::fail(ans, "key-roundtrip", format!("{} maps back to {} {} {:?}", line, hex(&n.0), p.0, k));
                        }
                    }
                    Err(e) => return Answer::fail(ans, "key-roundtrip-panic", e),
                }
                if let Some(d) = self.sort_key_collision(&pk.node_key, pk.partition_num, &dk.0, &node.0, pn, logical) {
                    return Answer::fail(ans, "collision", d);
                }
                Answer::ok(ans)
            }
            _ => bad(),
        }
    }
}

fn main() {
    main_with(&[("c16", &A)]);
}
