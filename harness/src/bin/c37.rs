//! C37 — resource assertions accept exactly the balances they describe.
//!
//! Direct unit-level calls of `ManifestResourceConstraint::{is_valid_for, validate_fungible,
//! validate_non_fungible}`, `GeneralResourceConstraint::normalize`,
//! `ManifestResourceConstraints::validate` (through `AggregateResourceBalances`).
//!
//! Line grammar (stateless, one case per line; decimals are attos as signed integers):
//!   <ids>   := "-" | n("," n)*                       (duplicates => bad-op)
//!   <c>     := nz | ex <d> | al <d> | exnf <ids> | alnf <ids> | gen <ids> <lb> <ub> <allow>
//!   <lb>    := nz | i<d>      <ub> := u | i<d>      <allow> := any | l<ids>
//!   valid <c>                     -> "<valid_fungible> <valid_non_fungible>"
//!   vf <d> <c>                    -> <res>            (general: "<res> | <valid_f> <res after normalize>")
//!   vnf <ids> <c>                 -> <res>            (general: "<res> | <valid_nf> <res after normalize>")
//!   norm <ids> <lb> <ub> <allow>  -> "gen …" (the normalized constraint)
//!   set <0|1> <k> {<addr> <c>}^k <nf> {<addr> <d>}^nf <nn> {<addr> <ids>}^nn   (addr = f<n> | n<n>)
//!                                 -> ok | unexpected <addr> | failed <addr> <err>
//!   <res>   := ok | nfc | nonzero | exact e a | atleast e a | atmost e a | missing id | notallowed id
use harness::util::*;
use num_bigint::BigInt;
use num_traits::{Signed, Zero};
use radix_common::prelude::*;
use std::collections::BTreeSet;
use std::io::Write;
use std::str::FromStr;

pub struct A;

// ------------------------------------------------------------------------------------------ parsing

fn nat_strict(s: &str) -> Option<u64> {
    if s.is_empty() || !s.bytes().all(|b| b.is_ascii_digit()) {
        return None;
    }
    // the Lean side has unbounded naturals; ids/counts above u64 are outside the protocol
    s.parse::<u64>().ok()
}

fn parse_dec(s: &str) -> Option<Decimal> {
    let body = s.strip_prefix('-').unwrap_or(s);
    if body.is_empty() || !body.bytes().all(|b| b.is_ascii_digit()) {
        return None;
    }
    let v = BigInt::from_str(s).ok()?;
    let max = (BigInt::from(1) << 191usize) - 1;
    let min: BigInt = -(BigInt::from(1) << 191usize);
    if v < min || v > max {
        return None;
    }
    // normalise "-0" / leading zeros before handing to the I192 parser
    I192::from_str(&v.to_string()).ok().map(Decimal::from_attos)
}

fn parse_ids(s: &str) -> Option<Vec<u64>> {
    if s == "-" {
        return Some(vec![]);
    }
    let mut out = vec![];
    for t in s.split(',') {
        let n = nat_strict(t)?;
        if out.contains(&n) {
            return None;
        }
        out.push(n);
    }
    Some(out)
}

fn to_set(ids: &[u64]) -> IndexSet<NonFungibleLocalId> {
    ids.iter().map(|i| NonFungibleLocalId::integer(*i)).collect()
}

fn parse_lower(s: &str) -> Option<LowerBound> {
    if s == "nz" {
        Some(LowerBound::NonZero)
    } else {
        s.strip_prefix('i').and_then(parse_dec).map(LowerBound::Inclusive)
    }
}
fn parse_upper(s: &str) -> Option<UpperBound> {
    if s == "u" {
        Some(UpperBound::Unbounded)
    } else {
        s.strip_prefix('i').and_then(parse_dec).map(UpperBound::Inclusive)
    }
}
fn parse_allowed(s: &str) -> Option<AllowedIds> {
    if s == "any" {
        Some(AllowedIds::Any)
    } else {
        s.strip_prefix('l').and_then(parse_ids).map(|i| AllowedIds::Allowlist(to_set(&i)))
    }
}
fn parse_general(r: &str, l: &str, u: &str, a: &str) -> Option<GeneralResourceConstraint> {
    Some(GeneralResourceConstraint {
        required_ids: to_set(&parse_ids(r)?),
        lower_bound: parse_lower(l)?,
        upper_bound: parse_upper(u)?,
        allowed_ids: parse_allowed(a)?,
    })
}

fn parse_c<'a>(t: &'a [&'a str]) -> Option<(ManifestResourceConstraint, &'a [&'a str])> {
    use ManifestResourceConstraint as C;
    match t.first().copied()? {
        "nz" => Some((C::NonZeroAmount, &t[1..])),
        "ex" if t.len() >= 2 => Some((C::ExactAmount(parse_dec(t[1])?), &t[2..])),
        "al" if t.len() >= 2 => Some((C::AtLeastAmount(parse_dec(t[1])?), &t[2..])),
        "exnf" if t.len() >= 2 => Some((C::ExactNonFungibles(to_set(&parse_ids(t[1])?)), &t[2..])),
        "alnf" if t.len() >= 2 => Some((C::AtLeastNonFungibles(to_set(&parse_ids(t[1])?)), &t[2..])),
        "gen" if t.len() >= 5 => Some((C::General(parse_general(t[1], t[2], t[3], t[4])?), &t[5..])),
        _ => None,
    }
}

fn addr(fungible: bool, n: u64) -> ResourceAddress {
    let mut raw = [0u8; NodeId::LENGTH];
    raw[0] = if fungible { EntityType::GlobalFungibleResourceManager as u8 } else { EntityType::GlobalNonFungibleResourceManager as u8 };
    raw[1..9].copy_from_slice(&n.to_be_bytes());
    ResourceAddress::new_or_panic(raw)
}
fn parse_addr(s: &str) -> Option<(bool, u64)> {
    if let Some(r) = s.strip_prefix('f') {
        nat_strict(r).map(|n| (true, n))
    } else if let Some(r) = s.strip_prefix('n') {
        nat_strict(r).map(|n| (false, n))
    } else {
        None
    }
}
fn show_addr(a: &ResourceAddress) -> String {
    let raw = a.as_node_id().0;
    let mut b = [0u8; 8];
    b.copy_from_slice(&raw[1..9]);
    format!("{}{}", if a.is_fungible() { "f" } else { "n" }, u64::from_be_bytes(b))
}

// ------------------------------------------------------------------------------------------ printing

fn d(x: &Decimal) -> String {
    x.attos().to_string()
}
fn id_of(x: &NonFungibleLocalId) -> String {
    match x {
        NonFungibleLocalId::Integer(i) => i.value().to_string(),
        other => format!("?{:?}", other),
    }
}
fn show_ids(s: &IndexSet<NonFungibleLocalId>) -> String {
    if s.is_empty() {
        "-".into()
    } else {
        s.iter().map(id_of).collect::<Vec<_>>().join(",")
    }
}
fn show_err(e: &ResourceConstraintError) -> String {
    use ResourceConstraintError as E;
    match e {
        E::NonFungibleConstraintNotValidForFungibleResource => "nfc".into(),
        E::ExpectedNonZeroAmount => "nonzero".into(),
        E::ExpectedExactAmount { expected_amount, actual_amount } => format!("exact {} {}", d(expected_amount), d(actual_amount)),
        E::ExpectedAtLeastAmount { expected_at_least_amount, actual_amount } => format!("atleast {} {}", d(expected_at_least_amount), d(actual_amount)),
        E::ExpectedAtMostAmount { expected_at_most_amount, actual_amount } => format!("atmost {} {}", d(expected_at_most_amount), d(actual_amount)),
        E::NonFungibleMissing { missing_id } => format!("missing {}", id_of(missing_id)),
        E::NonFungibleNotAllowed { disallowed_id } => format!("notallowed {}", id_of(disallowed_id)),
    }
}
fn show_res(r: &Result<(), ResourceConstraintError>) -> String {
    match r {
        Ok(()) => "ok".into(),
        Err(e) => show_err(e),
    }
}
fn show_general(g: &GeneralResourceConstraint) -> String {
    let lb = match &g.lower_bound {
        LowerBound::NonZero => "nz".to_string(),
        LowerBound::Inclusive(x) => format!("i{}", d(x)),
    };
    let ub = match &g.upper_bound {
        UpperBound::Unbounded => "u".to_string(),
        UpperBound::Inclusive(x) => format!("i{}", d(x)),
    };
    let al = match &g.allowed_ids {
        AllowedIds::Any => "any".to_string(),
        AllowedIds::Allowlist(l) => format!("l{}", show_ids(l)),
    };
    format!("gen {} {} {} {}", show_ids(&g.required_ids), lb, ub, al)
}

// ------------------------------------------------------------------------------------------ oracle
// The mathematical meaning of a constraint, written over BigInt attos and BTreeSet<u64>, using
// none of the implementation's validation code.

fn big(x: &Decimal) -> BigInt {
    BigInt::from_str(&x.attos().to_string()).unwrap()
}
fn one() -> BigInt {
    BigInt::from(10u64).pow(18)
}
fn ids_of(s: &IndexSet<NonFungibleLocalId>) -> BTreeSet<u64> {
    s.iter()
        .map(|x| match x {
            NonFungibleLocalId::Integer(i) => i.value(),
            _ => unreachable!(),
        })
        .collect()
}

fn lower_sat(l: &LowerBound, a: &BigInt) -> bool {
    match l {
        LowerBound::NonZero => !a.is_zero(), // for a balance (>= 0) this is "positive"
        LowerBound::Inclusive(x) => &big(x) <= a,
    }
}
fn upper_sat(u: &UpperBound, a: &BigInt) -> bool {
    match u {
        UpperBound::Unbounded => true,
        UpperBound::Inclusive(x) => a <= &big(x),
    }
}

fn meaning_f(c: &ManifestResourceConstraint, a: &BigInt) -> bool {
    use ManifestResourceConstraint as C;
    match c {
        C::NonZeroAmount => !a.is_zero(),
        C::ExactAmount(e) => a == &big(e),
        C::AtLeastAmount(e) => a >= &big(e),
        C::ExactNonFungibles(_) | C::AtLeastNonFungibles(_) => false,
        C::General(g) => lower_sat(&g.lower_bound, a) && upper_sat(&g.upper_bound, a),
    }
}
fn meaning_nf(c: &ManifestResourceConstraint, ids: &BTreeSet<u64>) -> bool {
    use ManifestResourceConstraint as C;
    let a = BigInt::from(ids.len()) * one();
    match c {
        C::NonZeroAmount => !ids.is_empty(),
        C::ExactAmount(e) => a == big(e),
        C::AtLeastAmount(e) => a >= big(e),
        C::ExactNonFungibles(s) => &ids_of(s) == ids,
        C::AtLeastNonFungibles(s) => ids_of(s).is_subset(ids),
        C::General(g) => {
            lower_sat(&g.lower_bound, &a)
                && upper_sat(&g.upper_bound, &a)
                && ids_of(&g.required_ids).is_subset(ids)
                && match &g.allowed_ids {
                    AllowedIds::Any => true,
                    AllowedIds::Allowlist(l) => ids.is_subset(&ids_of(l)),
                }
        }
    }
}

fn mentioned(c: &ManifestResourceConstraint) -> BTreeSet<u64> {
    use ManifestResourceConstraint as C;
    match c {
        C::ExactNonFungibles(s) | C::AtLeastNonFungibles(s) => ids_of(s),
        C::General(g) => {
            let mut m = ids_of(&g.required_ids);
            if let AllowedIds::Allowlist(l) = &g.allowed_ids {
                m.extend(ids_of(l));
            }
            m
        }
        _ => BTreeSet::new(),
    }
}

const FRESH: u64 = 1_000_000;
const MAX_FRESH: u64 = 14;

/// All candidate id sets: subsets of the ids mentioned by the constraint (at most 2^10) plus 0..=MAX_FRESH fresh ids.
fn candidate_id_sets(c: &ManifestResourceConstraint) -> Vec<Vec<u64>> {
    let m: Vec<u64> = mentioned(c).into_iter().take(10).collect();
    let mut out = vec![];
    for mask in 0u32..(1u32 << m.len()) {
        let base: Vec<u64> = m.iter().enumerate().filter(|(i, _)| mask >> i & 1 == 1).map(|(_, x)| *x).collect();
        for k in 0..=MAX_FRESH {
            let mut v = base.clone();
            v.extend((0..k).map(|j| FRESH + j));
            out.push(v);
        }
    }
    out
}

fn candidate_amounts(c: &ManifestResourceConstraint) -> Vec<Decimal> {
    use ManifestResourceConstraint as C;
    let mut v = vec![Decimal::ZERO, Decimal::from_attos(I192::ONE), Decimal::ONE, Decimal::MAX];
    let mut push = |x: Decimal| {
        v.push(x);
        if let Some(y) = x.checked_add(Decimal::from_attos(I192::ONE)) {
            v.push(y);
        }
        if let Some(y) = x.checked_sub(Decimal::from_attos(I192::ONE)) {
            v.push(y);
        }
    };
    match c {
        C::ExactAmount(e) | C::AtLeastAmount(e) => push(*e),
        C::General(g) => {
            push(g.lower_bound.equivalent_decimal());
            push(g.upper_bound.equivalent_decimal());
        }
        _ => {}
    }
    v
}

/// How many ids a satisfying non-fungible balance needs at least (None = astronomically many).
fn needed_ids(c: &ManifestResourceConstraint) -> Option<u64> {
    use ManifestResourceConstraint as C;
    let cnt = |x: &Decimal| -> Option<u64> {
        let q: BigInt = (big(x) + one() - 1) / one();
        if q.is_negative() {
            Some(0)
        } else {
            u64::try_from(q).ok()
        }
    };
    match c {
        C::ExactAmount(e) | C::AtLeastAmount(e) => cnt(e),
        C::General(g) => match &g.lower_bound {
            LowerBound::NonZero => Some(1),
            LowerBound::Inclusive(x) => cnt(x),
        },
        _ => Some(0),
    }
}

fn is_general_fungible_empty_allowlist_class(g: &GeneralResourceConstraint) -> bool {
    matches!(&g.allowed_ids, AllowedIds::Allowlist(l) if l.is_empty()) && g.upper_bound.equivalent_decimal().is_positive()
}

/// valid ⇒ satisfiable, by search over candidate balances on the REAL validation functions.
fn oracle_satisfiable(c: &ManifestResourceConstraint, vf: bool, vnf: bool) -> Option<(String, String)> {
    if vf {
        let sat = candidate_amounts(c).into_iter().any(|a| !a.is_negative() && c.clone().validate_fungible(a).is_ok());
        if !sat {
            return Some(("valid-unsatisfiable:fungible".into(), "constraint is valid for fungible use but no candidate amount (bounds, bounds±1 atto, 0, 1 atto, 1, MAX) is accepted".into()));
        }
    }
    if vnf {
        match needed_ids(c) {
            Some(n) if n <= MAX_FRESH => {
                let sat = candidate_id_sets(c).into_iter().any(|ids| c.clone().validate_non_fungible(&to_set(&ids)).is_ok());
                if !sat {
                    return Some(("valid-unsatisfiable:non-fungible".into(), "constraint is valid for non-fungible use but no subset of its ids extended by up to 14 fresh ids is accepted".into()));
                }
            }
            _ => {} // needs more ids than the search materialises (covered by the theorem only)
        }
    }
    None
}

/// normalisation of a valid general constraint preserves acceptance, checked on a neighbourhood of balances.
fn oracle_normalize(g: &GeneralResourceConstraint) -> Option<(String, String)> {
    let c = ManifestResourceConstraint::General(g.clone());
    let mut n = g.clone();
    n.normalize();
    if g.is_valid_for_fungible_use() {
        for a in candidate_amounts(&c) {
            if a.is_negative() {
                continue;
            }
            let (b, af) = (g.validate_fungible(a).is_ok(), n.validate_fungible(a).is_ok());
            if b != af {
                let class = if is_general_fungible_empty_allowlist_class(g) { "fungible-empty-allowlist-positive-upper" } else { "fungible" };
                return Some((format!("normalize-changes-acceptance:{}", class), format!("{} valid for fungible use; amount {} attos accepted={} before normalize, accepted={} after ({})", show_general(g), d(&a), b, af, show_general(&n))));
            }
        }
    }
    if g.is_valid_for_non_fungible_use() {
        for ids in candidate_id_sets(&c).into_iter().filter(|v| v.iter().filter(|x| **x >= FRESH).count() <= 3) {
            let s = to_set(&ids);
            let (b, af) = (g.validate_non_fungible_ids(&s).is_ok(), n.validate_non_fungible_ids(&s).is_ok());
            if b != af {
                return Some(("normalize-changes-acceptance:non-fungible".into(), format!("{} valid for non-fungible use; ids {:?} accepted={} before normalize, accepted={} after ({})", show_general(g), ids, b, af, show_general(&n))));
            }
        }
    }
    None
}

// ------------------------------------------------------------------------------------------ runner

struct R;

impl R {
    fn answer(&mut self, line: &str) -> Option<Answer> {
        let t: Vec<&str> = line.split(' ').filter(|s| !s.is_empty()).collect();
        match *t.first()? {
            "valid" => {
                let (c, rest) = parse_c(&t[1..])?;
                if !rest.is_empty() {
                    return None;
                }
                let (vf, vnf) = (c.is_valid_for_fungible_use(), c.is_valid_for_non_fungible_use());
                let ans = format!("{} {}", vf, vnf);
                // is_valid_for(address) must be the dispatch on the address kind
                if c.is_valid_for(&addr(true, 1)) != vf || c.is_valid_for(&addr(false, 1)) != vnf {
                    return Some(Answer::fail(ans, "is_valid_for-dispatch", "is_valid_for(address) differs from is_valid_for_(non_)fungible_use"));
                }
                if let Some((k, dsc)) = oracle_satisfiable(&c, vf, vnf) {
                    return Some(Answer::fail(ans, k, format!("{}: {}", line, dsc)));
                }
                Some(Answer::ok(ans))
            }
            "vf" => {
                if t.len() < 3 {
                    return None;
                }
                let a = parse_dec(t[1])?;
                let (c, rest) = parse_c(&t[2..])?;
                if !rest.is_empty() {
                    return None;
                }
                let r = c.clone().validate_fungible(a);
                let mut ans = show_res(&r);
                let mut fail = None;
                if meaning_f(&c, &big(&a)) != r.is_ok() {
                    fail = Some((format!("validate-fungible-vs-meaning:{}", t[2]), format!("{}: implementation accepted={} but the constraint's meaning says {}", line, r.is_ok(), !r.is_ok())));
                }
                if let ManifestResourceConstraint::General(g) = &c {
                    let mut n = g.clone();
                    n.normalize();
                    let rn = n.validate_fungible(a);
                    let valid = g.is_valid_for_fungible_use();
                    ans = format!("{} | {} {}", ans, valid, show_res(&rn));
                    if fail.is_none() && valid && !a.is_negative() && rn.is_ok() != r.is_ok() {
                        let class = if is_general_fungible_empty_allowlist_class(g) { "fungible-empty-allowlist-positive-upper" } else { "fungible" };
                        fail = Some((format!("normalize-changes-acceptance:{}", class), format!("{}: accepted={} before normalize, accepted={} after ({})", line, r.is_ok(), rn.is_ok(), show_general(&n))));
                    }
                }
                Some(match fail {
                    Some((k, dsc)) => Answer::fail(ans, k, dsc),
                    None => Answer::ok(ans),
                })
            }
            "vnf" => {
                if t.len() < 3 {
                    return None;
                }
                let ids = parse_ids(t[1])?;
                let (c, rest) = parse_c(&t[2..])?;
                if !rest.is_empty() {
                    return None;
                }
                let set = to_set(&ids);
                let r = c.clone().validate_non_fungible(&set);
                let mut ans = show_res(&r);
                let mut fail = None;
                if meaning_nf(&c, &ids.iter().copied().collect()) != r.is_ok() {
                    fail = Some((format!("validate-non-fungible-vs-meaning:{}", t[2]), format!("{}: implementation accepted={} but the constraint's meaning says {}", line, r.is_ok(), !r.is_ok())));
                }
                if let ManifestResourceConstraint::General(g) = &c {
                    let mut n = g.clone();
                    n.normalize();
                    let rn = n.validate_non_fungible_ids(&set);
                    let valid = g.is_valid_for_non_fungible_use();
                    ans = format!("{} | {} {}", ans, valid, show_res(&rn));
                    if fail.is_none() && valid && rn.is_ok() != r.is_ok() {
                        fail = Some(("normalize-changes-acceptance:non-fungible".into(), format!("{}: accepted={} before normalize, accepted={} after ({})", line, r.is_ok(), rn.is_ok(), show_general(&n))));
                    }
                }
                Some(match fail {
                    Some((k, dsc)) => Answer::fail(ans, k, dsc),
                    None => Answer::ok(ans),
                })
            }
            "norm" => {
                if t.len() != 5 {
                    return None;
                }
                let g = parse_general(t[1], t[2], t[3], t[4])?;
                let mut n = g.clone();
                n.normalize();
                let ans = show_general(&n);
                if let Some((k, dsc)) = oracle_normalize(&g) {
                    return Some(Answer::fail(ans, k, dsc));
                }
                // a valid constraint stays valid, and normalisation is idempotent on valid constraints
                if g.is_valid_for_non_fungible_use() {
                    if !n.is_valid_for_non_fungible_use() {
                        return Some(Answer::fail(ans, "normalize-breaks-validity", format!("{} valid for non-fungible use, normalized form is not", line)));
                    }
                    let mut nn = n.clone();
                    nn.normalize();
                    if nn != n {
                        return Some(Answer::fail(ans, "normalize-not-idempotent", format!("{}: normalize∘normalize = {}", line, show_general(&nn))));
                    }
                }
                Some(Answer::ok(ans))
            }
            "set" => {
                if t.len() < 3 {
                    return None;
                }
                let prevent = match t[1] {
                    "0" => false,
                    "1" => true,
                    _ => return None,
                };
                let k = nat_strict(t[2])?;
                let mut rest: &[&str] = &t[3..];
                let mut spec: Vec<((bool, u64), ManifestResourceConstraint)> = vec![];
                for _ in 0..k {
                    let a = parse_addr(rest.first()?)?;
                    let (c, r2) = parse_c(&rest[1..])?;
                    if spec.iter().any(|x| x.0 == a) {
                        return None;
                    }
                    spec.push((a, c));
                    rest = r2;
                }
                let nfu = nat_strict(rest.first()?)?;
                rest = &rest[1..];
                let mut fung: Vec<((bool, u64), Decimal)> = vec![];
                for _ in 0..nfu {
                    if rest.len() < 2 {
                        return None;
                    }
                    let a = parse_addr(rest[0])?;
                    let x = parse_dec(rest[1])?;
                    if !a.0 || fung.iter().any(|y| y.0 == a) {
                        return None;
                    }
                    fung.push((a, x));
                    rest = &rest[2..];
                }
                let nnf = nat_strict(rest.first()?)?;
                rest = &rest[1..];
                let mut nf: Vec<((bool, u64), Vec<u64>)> = vec![];
                for _ in 0..nnf {
                    if rest.len() < 2 {
                        return None;
                    }
                    let a = parse_addr(rest[0])?;
                    let x = parse_ids(rest[1])?;
                    if a.0 || nf.iter().any(|y| y.0 == a) {
                        return None;
                    }
                    nf.push((a, x));
                    rest = &rest[2..];
                }
                if !rest.is_empty() {
                    return None;
                }
                let mut cs = ManifestResourceConstraints::new();
                for (a, c) in &spec {
                    cs = cs.with_unchecked(addr(a.0, a.1), c.clone());
                }
                let mut bal = AggregateResourceBalances::new();
                for (a, x) in &fung {
                    bal.add_fungible(addr(a.0, a.1), *x);
                }
                for (a, x) in &nf {
                    bal.add_non_fungible(addr(a.0, a.1), to_set(x));
                }
                let r = if prevent { bal.validate_only(cs) } else { bal.validate_includes(cs) };
                let ans = match &r {
                    Ok(()) => "ok".to_string(),
                    Err(ResourceConstraintsError::UnexpectedNonZeroBalanceOfUnspecifiedResource { resource_address }) => format!("unexpected {}", show_addr(resource_address)),
                    Err(ResourceConstraintsError::ResourceConstraintFailed { resource_address, error }) => format!("failed {} {}", show_addr(resource_address), show_err(error)),
                };
                // oracle: accepted iff every specified constraint's meaning holds of the resource's balance
                // (zero / empty when absent) and, for "only", nothing unspecified has a positive balance.
                let mut expect = true;
                for (a, c) in &spec {
                    if a.0 {
                        let amt = fung.iter().find(|y| y.0 == *a).map(|y| big(&y.1)).filter(|x| x.is_positive()).unwrap_or_else(BigInt::zero);
                        expect &= meaning_f(c, &amt);
                    } else {
                        let ids: BTreeSet<u64> = nf.iter().find(|y| y.0 == *a).map(|y| y.1.iter().copied().collect()).unwrap_or_default();
                        expect &= meaning_nf(c, &ids);
                    }
                }
                if prevent {
                    for (a, x) in &fung {
                        if x.is_positive() && !spec.iter().any(|s| s.0 == *a) {
                            expect = false;
                        }
                    }
                    for (a, x) in &nf {
                        if !x.is_empty() && !spec.iter().any(|s| s.0 == *a) {
                            expect = false;
                        }
                    }
                }
                if expect != r.is_ok() {
                    return Some(Answer::fail(ans, format!("constraints-validate-vs-meaning:{}", if prevent { "only" } else { "includes" }), format!("{}: implementation accepted={} but the meaning says {}", line, r.is_ok(), expect)));
                }
                Some(Answer::ok(ans))
            }
            _ => None,
        }
    }
}

impl Runner for R {
    fn step(&mut self, line: &str) -> Answer {
        let l = line.to_string();
        match catch(|| self.answer(&l)) {
            Ok(Some(a)) => a,
            Ok(None) => Answer::ok("bad-op"),
            Err(m) => Answer::fail("panic", "panic", format!("{}: panicked: {}", line, m)),
        }
    }
}

// ------------------------------------------------------------------------------------------ generator

const UNIVERSE: u64 = 8;

fn gen_dec(rng: &mut Rng) -> String {
    let one = one();
    let max: BigInt = (BigInt::from(1) << 191usize) - 1;
    let min: BigInt = -(BigInt::from(1) << 191usize);
    let v: BigInt = match rng.below(20) {
        0..=7 => BigInt::from(rng.below(9)) * &one,
        8 => BigInt::from(rng.below(9)) * &one + 1,
        9 => BigInt::from(1 + rng.below(9)) * &one - 1,
        10 => BigInt::from(1),
        11 => &one / 2,
        12 => -BigInt::from(rng.below(3)) * &one - 1,
        13 => -BigInt::from(1 + rng.below(3)) * &one,
        14 => max.clone(),
        15 => (&max / &one) * &one,
        16 => min.clone(),
        17 => BigInt::from(rng.next() >> 20),
        18 => BigInt::from(rng.below(40)) * &one,
        _ => BigInt::from(0),
    };
    v.to_string()
}

fn gen_subset(rng: &mut Rng, from: &[u64], p_num: u64) -> Vec<u64> {
    let mut v: Vec<u64> = from.iter().copied().filter(|_| rng.chance(p_num, 10)).collect();
    // random insertion order (IndexSet order decides which id an error names)
    for i in (1..v.len()).rev() {
        let j = rng.below(i as u64 + 1) as usize;
        v.swap(i, j);
    }
    v
}
fn ids_str(v: &[u64]) -> String {
    if v.is_empty() {
        "-".into()
    } else {
        v.iter().map(|x| x.to_string()).collect::<Vec<_>>().join(",")
    }
}

/// A general constraint: mostly valid for non-fungible (or fungible) use, boundary-biased.
fn gen_general(rng: &mut Rng, fungible: bool) -> String {
    let uni: Vec<u64> = (0..UNIVERSE).collect();
    let one = one();
    if fungible && rng.chance(7, 10) {
        let lo = rng.below(6);
        let hi = lo + rng.below(4);
        let lb = match rng.below(5) {
            0 => "nz".to_string(),
            1 => format!("i{}", BigInt::from(lo) * &one + rng.below(2)),
            _ => format!("i{}", BigInt::from(lo) * &one),
        };
        let ub = match rng.below(5) {
            0 => "u".to_string(),
            1 => format!("i{}", BigInt::from(hi) * &one + rng.below(2)),
            2 => "i0".to_string(),
            _ => format!("i{}", BigInt::from(hi) * &one),
        };
        let al = match rng.below(6) {
            0 | 1 => "l-".to_string(),
            2 if rng.chance(1, 3) => format!("l{}", ids_str(&gen_subset(rng, &uni, 3))),
            _ => "any".to_string(),
        };
        let lb = if al == "l-" && rng.chance(2, 3) { "i0".to_string() } else { lb };
        let req = if rng.chance(1, 12) { ids_str(&gen_subset(rng, &uni, 2)) } else { "-".into() };
        return format!("gen {} {} {} {}", req, lb, ub, al);
    }
    let any = rng.chance(1, 3);
    let pa = 3 + rng.below(6);
    let allow = gen_subset(rng, &uni, pa);
    let pr = rng.below(11);
    let req = if any { gen_subset(rng, &uni, 3) } else { gen_subset(rng, &allow, pr) };
    let req = if !any && rng.chance(1, 10) { gen_subset(rng, &uni, 3) } else { req };
    let (rl, al) = (req.len() as u64, if any { 12 } else { allow.len() as u64 });
    // choose lower/upper around the interesting points: 0, |req|, |allow|
    let pts = [0, rl, al, rl.saturating_sub(1), rl + 1, al.saturating_sub(1), al + 1, rng.below(10)];
    let mut lo = *rng.pick(&pts);
    let mut hi = *rng.pick(&pts);
    if lo > hi && rng.chance(9, 10) {
        std::mem::swap(&mut lo, &mut hi);
    }
    let lb = match rng.below(8) {
        0 => "nz".to_string(),
        1 => format!("i{}", gen_dec(rng)),
        _ => format!("i{}", BigInt::from(lo) * &one),
    };
    let ub = match rng.below(8) {
        0 => "u".to_string(),
        1 => format!("i{}", gen_dec(rng)),
        _ => format!("i{}", BigInt::from(hi) * &one),
    };
    let al = if any { "any".to_string() } else { format!("l{}", ids_str(&allow)) };
    format!("gen {} {} {} {}", ids_str(&req), lb, ub, al)
}

fn gen_constraint(rng: &mut Rng, fungible: bool) -> String {
    let uni: Vec<u64> = (0..UNIVERSE).collect();
    match rng.below(12) {
        0 => "nz".to_string(),
        1 => format!("ex {}", gen_dec(rng)),
        2 => format!("al {}", gen_dec(rng)),
        3 => format!("exnf {}", ids_str(&gen_subset(rng, &uni, 4))),
        4 => format!("alnf {}", ids_str(&gen_subset(rng, &uni, 3))),
        _ => gen_general(rng, fungible),
    }
}

/// ids for a balance, biased towards the sets named by the constraint
fn gen_balance_ids(rng: &mut Rng, c: &str) -> Vec<u64> {
    let t: Vec<&str> = c.split(' ').collect();
    let uni: Vec<u64> = (0..UNIVERSE + 2).collect();
    let named: Vec<Vec<u64>> = match t[0] {
        "exnf" | "alnf" => vec![parse_ids(t[1]).unwrap_or_default()],
        "gen" => {
            let mut v = vec![parse_ids(t[1]).unwrap_or_default()];
            if let Some(l) = t[4].strip_prefix('l') {
                v.push(parse_ids(l).unwrap_or_default());
            }
            v
        }
        _ => vec![],
    };
    let mut base: Vec<u64> = match rng.below(10) {
        0..=4 if !named.is_empty() => rng.pick(&named).clone(),
        5 if named.len() == 2 => {
            // required plus part of the allowlist
            let mut v = named[0].clone();
            for x in &named[1] {
                if !v.contains(x) && rng.chance(1, 2) {
                    v.push(*x);
                }
            }
            v
        }
        6 => vec![],
        _ => {
            let p = 1 + rng.below(8);
            gen_subset(rng, &uni, p)
        }
    };
    match rng.below(6) {
        0 if !base.is_empty() => {
            let i = rng.below(base.len() as u64) as usize;
            base.remove(i);
        }
        1 => {
            let x = rng.below(UNIVERSE + 4);
            if !base.contains(&x) {
                base.push(x);
            }
        }
        _ => {}
    }
    for i in (1..base.len()).rev() {
        let j = rng.below(i as u64 + 1) as usize;
        base.swap(i, j);
    }
    base
}

fn gen_amount(rng: &mut Rng, c: &str) -> String {
    // amounts near the constraint's own numbers
    let nums: Vec<BigInt> = c
        .split(' ')
        .filter_map(|t| {
            let t = t.strip_prefix('i').unwrap_or(t);
            if !t.is_empty() && t.trim_start_matches('-').bytes().all(|b| b.is_ascii_digit()) && !t.trim_start_matches('-').is_empty() {
                BigInt::from_str(t).ok()
            } else {
                None
            }
        })
        .collect();
    let max: BigInt = (BigInt::from(1) << 191usize) - 1;
    if !nums.is_empty() && rng.chance(6, 10) {
        let v = rng.pick(&nums).clone() + BigInt::from(rng.range(-1, 1));
        if v >= BigInt::zero() && v <= max {
            return v.to_string();
        }
    }
    let s = gen_dec(rng);
    if s.starts_with('-') && rng.chance(9, 10) {
        // balances are non-negative in the engine; keep a few negative ones for the pure functions
        let v = BigInt::from_str(&s[1..]).unwrap();
        return if v > max { max.to_string() } else { v.to_string() };
    }
    s
}

fn gen_malformed(rng: &mut Rng) -> String {
    let pool = [
        "valid", "valid gen - nz u", "vf", "vf x nz", "vf 1 gen 1,1 nz u any", "vnf 1,1 nz", "vnf 1,,2 nz", "vnf - gen - i u any",
        "norm - nz u", "norm - nz u any extra", "vf 1 ex", "vf 1 nz nz", "valid ex +5", "valid ex 1_0", "vf 3138550867693340381917894711603833208051177722232017256448 nz",
        "vf -3138550867693340381917894711603833208051177722232017256449 nz", "set 2 0 0 0", "set 1 1 f1 nz 1 n1 5 0", "set 0 1 f1 nz 0 1 f1 1", "set 0 2 f1 nz f1 nz 0 0",
        "set 0 0 0", "frob 1 2", "valid gen - i1 i2 lx", "vnf 1 gen 1 nz u l1,1", "valid exnf", "VALID nz",
    ];
    let _ = rng;
    pool[rng.below(pool.len() as u64) as usize].to_string()
}

fn gen_set(rng: &mut Rng) -> String {
    let k = rng.below(4);
    let mut spec: Vec<(String, String)> = vec![];
    for _ in 0..k {
        let fungible = rng.chance(1, 2);
        let a = format!("{}{}", if fungible { "f" } else { "n" }, rng.below(4));
        if spec.iter().any(|s| s.0 == a) {
            continue;
        }
        let c = if rng.chance(1, 8) { gen_constraint(rng, !fungible) } else { gen_constraint(rng, fungible) };
        spec.push((a, c));
    }
    let mut fung: Vec<(String, String)> = vec![];
    let mut nf: Vec<(String, String)> = vec![];
    for i in 0..4u64 {
        let fa = format!("f{}", i);
        if rng.chance(1, 2) {
            let c = spec.iter().find(|s| s.0 == fa).map(|s| s.1.clone()).unwrap_or_else(|| "nz".into());
            let amt = if rng.chance(1, 6) { "0".to_string() } else { gen_amount(rng, &c) };
            // keep sums away from Decimal::MAX: one entry per address, so no addition happens at all
            fung.push((fa, amt));
        }
        let na = format!("n{}", i);
        if rng.chance(1, 2) {
            let c = spec.iter().find(|s| s.0 == na).map(|s| s.1.clone()).unwrap_or_else(|| "nz".into());
            let ids = if rng.chance(1, 6) { vec![] } else { gen_balance_ids(rng, &c) };
            nf.push((na, ids_str(&ids)));
        }
    }
    let mut s = format!("set {} {}", rng.below(2), spec.len());
    for (a, c) in &spec {
        s += &format!(" {} {}", a, c);
    }
    s += &format!(" {}", fung.len());
    for (a, x) in &fung {
        s += &format!(" {} {}", a, x);
    }
    s += &format!(" {}", nf.len());
    for (a, x) in &nf {
        s += &format!(" {} {}", a, x);
    }
    s
}

impl Area for A {
    fn gen(&self, rng: &mut Rng, n: usize, out: &mut dyn Write) {
        for _ in 0..n {
            let line = match rng.below(100) {
                0..=14 => {
                    let fung = rng.chance(1, 2);
                    format!("valid {}", gen_constraint(rng, fung))
                }
                15..=39 => {
                    let c = gen_constraint(rng, true);
                    format!("vf {} {}", gen_amount(rng, &c), c)
                }
                40..=71 => {
                    let c = gen_constraint(rng, false);
                    format!("vnf {} {}", ids_str(&gen_balance_ids(rng, &c)), c)
                }
                72..=83 => {
                    let fung = rng.chance(1, 3);
                    format!("norm {}", &gen_general(rng, fung)[4..])
                }
                84..=96 => gen_set(rng),
                _ => gen_malformed(rng),
            };
            writeln!(out, "{}", line).unwrap();
        }
    }
    fn runner(&self) -> Box<dyn Runner> {
        Box::new(R)
    }
}

fn main() {
    main_with(&[("c37", &A)]);
}
