//! C43 — non-fungible ids are never reused and data changes are restricted.
//!   area `c43`: engine level. Every `reset` creates a real non-fungible resource on the
//!   `LedgerSimulator` (id type, data schema with a chosen set of mutable fields, mint / burn /
//!   update roles AllowAll or absent, supply tracking on/off, optional initial supply); every other
//!   line is one real transaction: explicit mint, RUID mint, bucket burn (withdraw + burn), vault burn
//!   (`Account::burn_non_fungibles`), `update_non_fungible_data`, or a read-back.  The answer is the
//!   outcome kind + total supply + the raw `KeyValueEntrySubstate` (value, lock flag) of every id the
//!   line names, read from the substate database after the commit; it is compared with the Lean model
//!   (`RadixModel/Model/NfResource.lean`).
//!   The property oracle keeps its own history (ids ever minted according to the Mint events of the
//!   receipts, ids burned, a shadow copy of the data of live ids) and judges the implementation's
//!   observed behaviour: an id minted twice, an id of the wrong type, a data change that is not a
//!   successful update of a declared-mutable field, a tombstone that changes.
use harness::util::*;
use radix_common::prelude::*;
use radix_engine::blueprints::resource::*;
use radix_engine::errors::*;
use radix_engine::system::system_db_reader::*;
use radix_engine::system::system_substates::*;
use radix_engine::transaction::*;
use radix_engine_interface::prelude::*;
use radix_substate_store_interface::interface::*;
use radix_transactions::prelude::*;
use scrypto_test::prelude::*;
use std::collections::{BTreeMap, BTreeSet};
use std::io::Write;

pub struct A;

#[derive(ScryptoSbor, ManifestSbor, Clone, Debug)]
struct D0 {
    a: u64,
    b: u64,
    c: u64,
}
#[derive(ScryptoSbor, ManifestSbor, Clone, Debug)]
struct D1 {
    a: u64,
    b: u64,
    c: u64,
}
#[derive(ScryptoSbor, ManifestSbor, Clone, Debug)]
struct D2 {
    a: u64,
    b: u64,
    c: u64,
}
#[derive(ScryptoSbor, ManifestSbor, Clone, Debug)]
struct D3 {
    a: u64,
    b: u64,
    c: u64,
}
impl NonFungibleData for D0 {
    const MUTABLE_FIELDS: &'static [&'static str] = &[];
}
impl NonFungibleData for D1 {
    const MUTABLE_FIELDS: &'static [&'static str] = &["b"];
}
impl NonFungibleData for D2 {
    const MUTABLE_FIELDS: &'static [&'static str] = &["b", "c"];
}
impl NonFungibleData for D3 {
    const MUTABLE_FIELDS: &'static [&'static str] = &["a", "b", "c"];
}

/// the declared mutable field indices per `mutset` (the oracle's own reading of the declaration)
fn declared_mutable(mutset: u64) -> &'static [usize] {
    match mutset {
        0 => &[],
        1 => &[1],
        2 => &[1, 2],
        _ => &[0, 1, 2],
    }
}

// ------------------------------------------------------------------------------------------ parsing

type MId = (u8, u64); // (type code 0 s, 1 i, 2 b, 3 r ; number)

fn parse_nat(s: &str) -> Option<u64> {
    if s.is_empty() || s.len() > 18 || !s.chars().all(|c| c.is_ascii_digit()) {
        return None;
    }
    s.parse().ok()
}

fn type_code(c: char) -> Option<u8> {
    match c {
        's' => Some(0),
        'i' => Some(1),
        'b' => Some(2),
        'r' => Some(3),
        _ => None,
    }
}

fn parse_id(s: &str) -> Option<MId> {
    let mut cs = s.chars();
    let t = type_code(cs.next()?)?;
    let n = parse_nat(cs.as_str())?;
    Some((t, n))
}

fn show_id(id: &MId) -> String {
    format!("{}{}", ['s', 'i', 'b', 'r'][id.0 as usize], id.1)
}

fn parse_vals(s: &str) -> Option<Vec<u64>> {
    s.split(',').map(parse_nat).collect()
}

fn parse_entries(s: &str) -> Option<Vec<(MId, Vec<u64>)>> {
    if s == "-" {
        return Some(vec![]);
    }
    s.split(';')
        .map(|e| {
            let p: Vec<&str> = e.split(':').collect();
            if p.len() != 2 {
                return None;
            }
            Some((parse_id(p[0])?, parse_vals(p[1])?))
        })
        .collect()
}

fn parse_ids(s: &str) -> Option<Vec<MId>> {
    if s == "-" {
        return Some(vec![]);
    }
    s.split(';').map(parse_id).collect()
}

fn parse_val_lists(s: &str) -> Option<Vec<Vec<u64>>> {
    if s == "-" {
        return Some(vec![]);
    }
    s.split(';').map(parse_vals).collect()
}

fn nodup<T: PartialEq>(xs: &[T]) -> bool {
    (0..xs.len()).all(|i| (i + 1..xs.len()).all(|j| xs[i] != xs[j]))
}

fn parse_flags(s: &str) -> Option<(bool, bool, bool, bool)> {
    if s == "-" {
        return Some((false, false, false, false));
    }
    let cs: Vec<char> = s.chars().collect();
    if !cs.iter().all(|c| "mbut".contains(*c)) || !nodup(&cs) {
        return None;
    }
    Some((cs.contains(&'m'), cs.contains(&'b'), cs.contains(&'u'), cs.contains(&'t')))
}

fn tuple_value(vs: &[u64]) -> ManifestValue {
    ManifestValue::Tuple { fields: vs.iter().map(|v| ManifestValue::U64 { value: *v }).collect() }
}

// ------------------------------------------------------------------------------------------ generator

fn gen_vals(rng: &mut Rng) -> String {
    let n = match rng.below(25) {
        0 => 2,
        1 => 4,
        _ => 3,
    };
    (0..n).map(|_| rng.below(100).to_string()).collect::<Vec<_>>().join(",")
}

fn gen_id(rng: &mut Rng, ty: usize) -> String {
    let t = if rng.chance(1, 15) { rng.below(4) as usize } else { ty };
    let n = if rng.chance(1, 30) { 999_999_999 } else { rng.below(5) };
    format!("{}{}", ['s', 'i', 'b', 'r'][t], n)
}

fn gen_ids(rng: &mut Rng, ty: usize, max: u64) -> Vec<String> {
    let k = 1 + rng.below(max);
    let mut v: Vec<String> = vec![];
    for _ in 0..k {
        let id = gen_id(rng, ty);
        if !v.contains(&id) || rng.chance(1, 20) {
            v.push(id);
        }
    }
    v
}

impl Area for A {
    fn gen(&self, rng: &mut Rng, n: usize, out: &mut dyn Write) {
        for _ in 0..n {
            let ty = match rng.below(8) {
                0 | 1 => 0,
                2 | 3 | 4 => 1,
                5 => 2,
                _ => 3,
            } as usize;
            let mutset = rng.below(4);
            let mut flags = String::new();
            for c in ['m', 'b', 'u', 't'] {
                if rng.chance(9, 10) {
                    flags.push(c);
                }
            }
            if flags.is_empty() {
                flags.push('-');
            }
            let init = if ty == 3 {
                if rng.chance(1, 6) { "r0:1,2,3".to_string() } else { "-".to_string() }
            } else if rng.chance(1, 2) {
                "-".to_string()
            } else {
                gen_ids(rng, ty, 3).iter().map(|i| format!("{}:{},{},{}", i, rng.below(100), rng.below(100), rng.below(100))).collect::<Vec<_>>().join(";")
            };
            writeln!(out, "reset {} {} {} {}", ['s', 'i', 'b', 'r'][ty], mutset, flags, init).unwrap();
            let len = 4 + rng.below(22);
            let mut last_ids: Vec<String> = vec![];
            for _ in 0..len {
                match rng.below(100) {
                    0..=2 => {
                        match rng.below(8) {
                            0 => writeln!(out, "mint").unwrap(),
                            1 => writeln!(out, "mint s1:1,2").unwrap(),
                            2 => writeln!(out, "mint x1:1,2,3").unwrap(),
                            3 => writeln!(out, "burn i1;i1").unwrap(),
                            4 => writeln!(out, "update i1 q 5").unwrap(),
                            5 => writeln!(out, "update i1 b").unwrap(),
                            6 => writeln!(out, "mintruid -").unwrap(),
                            _ => writeln!(out, "get 17").unwrap(),
                        };
                    }
                    3..=32 => {
                        if ty == 3 && rng.chance(4, 5) {
                            let k = 1 + rng.below(3);
                            let vs: Vec<String> = (0..k).map(|_| gen_vals(rng)).collect();
                            writeln!(out, "mintruid {}", vs.join(";")).unwrap();
                            continue;
                        }
                        // re-mint attempts of ids seen before are the interesting case
                        let ids = if !last_ids.is_empty() && rng.chance(1, 2) { last_ids.clone() } else { gen_ids(rng, ty, 3) };
                        let es: Vec<String> = ids.iter().map(|i| format!("{}:{}", i, gen_vals(rng))).collect();
                        writeln!(out, "mint {}", es.join(";")).unwrap();
                        last_ids = ids;
                    }
                    33..=36 => {
                        let k = 1 + rng.below(2);
                        let vs: Vec<String> = (0..k).map(|_| gen_vals(rng)).collect();
                        writeln!(out, "mintruid {}", vs.join(";")).unwrap();
                    }
                    37..=56 => {
                        let ids = if !last_ids.is_empty() && rng.chance(1, 2) { last_ids.clone() } else { gen_ids(rng, ty, 2) };
                        writeln!(out, "{} {}", if rng.chance(1, 3) { "vburn" } else { "burn" }, ids.join(";")).unwrap();
                        last_ids = ids;
                    }
                    57..=84 => {
                        let id = if !last_ids.is_empty() && rng.chance(1, 2) { rng.pick(&last_ids).clone() } else { gen_id(rng, ty) };
                        let f = *rng.pick(&["a", "b", "b", "c", "c", "z"]);
                        writeln!(out, "update {} {} {}{}", id, f, rng.below(1000), if rng.chance(1, 12) { " bad" } else { "" }).unwrap();
                    }
                    _ => {
                        let id = if !last_ids.is_empty() && rng.chance(2, 3) { rng.pick(&last_ids).clone() } else { gen_id(rng, ty) };
                        writeln!(out, "get {}", id).unwrap();
                    }
                }
            }
        }
    }
    fn runner(&self) -> Box<dyn Runner> {
        Box::new(R::new())
    }
}

// ------------------------------------------------------------------------------------------ runner

struct Cur {
    res: ResourceAddress,
    ty: u8,
    mutset: u64,
    track: bool,
    ruids: Vec<NonFungibleLocalId>,
    // oracle history
    ever_minted: BTreeSet<NonFungibleLocalId>,
    burned: BTreeSet<NonFungibleLocalId>,
    shadow: BTreeMap<NonFungibleLocalId, Vec<u64>>,
}

struct R {
    ledger: DefaultLedgerSimulator,
    snapshot: LedgerSimulatorSnapshot,
    pk: Secp256k1PublicKey,
    account: ComponentAddress,
    cur: Option<Cur>,
}

enum Kind {
    Mint,
    Burn(Vec<NonFungibleLocalId>),
    Update(NonFungibleLocalId, usize, u64),
    Other,
}

fn id_type_of(t: u8) -> NonFungibleIdType {
    match t {
        0 => NonFungibleIdType::String,
        1 => NonFungibleIdType::Integer,
        2 => NonFungibleIdType::Bytes,
        _ => NonFungibleIdType::RUID,
    }
}

impl R {
    fn new() -> R {
        let mut ledger = LedgerSimulatorBuilder::new().build();
        let (pk, _, account) = ledger.new_account(false);
        let snapshot = ledger.create_snapshot();
        R { ledger, snapshot, pk, account, cur: None }
    }

    fn real_id(&self, id: &MId) -> NonFungibleLocalId {
        match id.0 {
            0 => NonFungibleLocalId::string(format!("s{}", id.1)).unwrap(),
            1 => NonFungibleLocalId::integer(id.1),
            2 => NonFungibleLocalId::bytes(id.1.to_be_bytes().to_vec()).unwrap(),
            _ => {
                if let Some(c) = &self.cur {
                    if let Some(r) = c.ruids.get(id.1 as usize) {
                        return r.clone();
                    }
                }
                // never handed out by the engine: a synthetic RUID
                let mut b = [0xEEu8; 32];
                b[24..].copy_from_slice(&id.1.to_be_bytes());
                NonFungibleLocalId::ruid(b)
            }
        }
    }

    /// raw data entry substate (value fields, locked) from the database
    fn cell(&self, id: &NonFungibleLocalId) -> (Option<Vec<u64>>, bool, bool) {
        let c = self.cur.as_ref().unwrap();
        let s: Option<KeyValueEntrySubstate<ScryptoValue>> = self.ledger.substate_db().get_substate(
            c.res.as_node_id(),
            MAIN_BASE_PARTITION.at_offset(PartitionOffset(1)).unwrap(),
            SubstateKey::Map(scrypto_encode(id).unwrap()),
        );
        match s {
            None => (None, false, true),
            Some(e) => {
                let locked = e.is_locked();
                let mut wellformed = true;
                let v = e.into_value().map(|v| match v {
                    ScryptoValue::Tuple { fields } => fields
                        .iter()
                        .map(|f| match f {
                            ScryptoValue::U64 { value } => *value,
                            _ => {
                                wellformed = false;
                                u64::MAX
                            }
                        })
                        .collect(),
                    _ => {
                        wellformed = false;
                        vec![]
                    }
                });
                (v, locked, wellformed)
            }
        }
    }

    fn show_cell(&self, id: &NonFungibleLocalId) -> String {
        let (v, l, _) = self.cell(id);
        format!(
            "{}/{}",
            match v {
                None => "none".to_string(),
                Some(v) => v.iter().map(|x| x.to_string()).collect::<Vec<_>>().join(","),
            },
            if l { "L" } else { "U" }
        )
    }

    fn supply(&self) -> String {
        let c = self.cur.as_ref().unwrap();
        if !c.track {
            return "-".into();
        }
        let reader = SystemDatabaseReader::new(self.ledger.substate_db());
        match reader.read_object_field(c.res.as_node_id(), ModuleId::Main, NonFungibleResourceManagerField::TotalSupply.field_index()) {
            Ok(v) => match v.as_typed::<NonFungibleResourceManagerTotalSupplyFieldPayload>() {
                Ok(p) => {
                    let d: Decimal = p.fully_update_and_into_latest_version();
                    let s = d.to_string();
                    s
                }
                Err(_) => "?".into(),
            },
            Err(_) => "?".into(),
        }
    }

    fn outcome(receipt: &TransactionReceipt) -> String {
        match &receipt.result {
            TransactionResult::Commit(c) => match &c.outcome {
                TransactionOutcome::Success(_) => "ok".to_string(),
                TransactionOutcome::Failure(e) => match e {
                    RuntimeError::SystemModuleError(SystemModuleError::AuthError(AuthError::Unauthorized(_))) => "err:denied".into(),
                    RuntimeError::SystemError(SystemError::KeyValueEntryLocked) => "err:entryLocked".into(),
                    RuntimeError::SystemError(SystemError::TypeCheckError(_)) => "err:payload".into(),
                    RuntimeError::ApplicationError(ApplicationError::NonFungibleResourceManagerError(e)) => match e {
                        NonFungibleResourceManagerError::NonFungibleAlreadyExists(_) => "err:alreadyExists".into(),
                        NonFungibleResourceManagerError::NonFungibleNotFound(_) => "err:notFound".into(),
                        NonFungibleResourceManagerError::UnknownMutableFieldName(_) => "err:unknownField".into(),
                        NonFungibleResourceManagerError::NonFungibleIdTypeDoesNotMatch(..) => "err:idTypeMismatch".into(),
                        NonFungibleResourceManagerError::InvalidNonFungibleIdType => "err:invalidIdType".into(),
                        NonFungibleResourceManagerError::NonFungibleLocalIdProvidedForRUIDType => "err:localIdForRuid".into(),
                        NonFungibleResourceManagerError::UnexpectedDecimalComputationError => "err:supplyOverflow".into(),
                        NonFungibleResourceManagerError::NotMintable | NonFungibleResourceManagerError::NotBurnable => "err:featureOff".into(),
                        other => format!("err:nfrm:{}", format!("{:?}", other).chars().filter(|c| c.is_ascii_alphanumeric()).take(40).collect::<String>()),
                    },
                    RuntimeError::ApplicationError(ApplicationError::NonFungibleVaultError(_)) => "err:notHeld".into(),
                    RuntimeError::ApplicationError(ApplicationError::AccountError(_)) => "err:notHeld".into(),
                    other => format!("err:other:{}", format!("{:?}", other).chars().filter(|c| c.is_ascii_alphanumeric()).take(60).collect::<String>()),
                },
            },
            TransactionResult::Reject(r) => format!("rejected:{}", format!("{:?}", r.reason).chars().filter(|c| c.is_ascii_alphanumeric()).take(40).collect::<String>()),
            TransactionResult::Abort(_) => "aborted".into(),
        }
    }

    /// ids of the Mint events the given resource emitted in this receipt, in order
    fn minted_in(receipt: &TransactionReceipt, res: Option<ResourceAddress>) -> Vec<(NodeId, NonFungibleLocalId)> {
        let mut out = vec![];
        if let TransactionResult::Commit(c) = &receipt.result {
            if let TransactionOutcome::Success(_) = &c.outcome {
                for (id, data) in c.application_events.iter() {
                    if let EventTypeIdentifier(Emitter::Method(node, ModuleId::Main), name) = id {
                        if name == "MintNonFungibleResourceEvent" && res.map(|r| r.as_node_id() == node).unwrap_or(true) {
                            if let Ok(ev) = scrypto_decode::<MintNonFungibleResourceEvent>(data) {
                                for i in ev.ids {
                                    out.push((*node, i));
                                }
                            }
                        }
                    }
                }
            }
        }
        out
    }

    fn reset(&mut self, t: &[&str]) -> Answer {
        if t.len() != 5 {
            return Answer::ok("bad-op");
        }
        let tc: Vec<char> = t[1].chars().collect();
        let (ty, mutset, flags, entries) = match (tc.as_slice(), parse_nat(t[2]), parse_flags(t[3]), parse_entries(t[4])) {
            ([c], Some(m), Some(f), Some(e)) if m < 4 => match type_code(*c) {
                Some(ty) => (ty, m, f, e),
                None => return Answer::ok("bad-op"),
            },
            _ => return Answer::ok("bad-op"),
        };
        let ids: Vec<MId> = entries.iter().map(|e| e.0).collect();
        if !nodup(&ids) || entries.iter().any(|e| e.1.len() != 3) {
            return Answer::ok("bad-op");
        }
        self.ledger.restore_snapshot(self.snapshot.clone());
        self.cur = None;
        let (mintable, burnable, updatable, track) = flags;
        let roles = NonFungibleResourceRoles {
            mint_roles: if mintable { mint_roles! { minter => rule!(allow_all); minter_updater => rule!(deny_all); } } else { None },
            burn_roles: if burnable { burn_roles! { burner => rule!(allow_all); burner_updater => rule!(deny_all); } } else { None },
            non_fungible_data_update_roles: if updatable {
                non_fungible_data_update_roles! { non_fungible_data_updater => rule!(allow_all); non_fungible_data_updater_updater => rule!(deny_all); }
            } else {
                None
            },
            ..Default::default()
        };
        let real_entries: Vec<(NonFungibleLocalId, (u64, u64, u64))> = entries.iter().map(|(i, v)| (self.real_id(i), (v[0], v[1], v[2]))).collect();
        let b = ManifestBuilder::new().lock_fee_from_faucet();
        macro_rules! create {
            ($D:ident) => {{
                let init: Option<Vec<(NonFungibleLocalId, $D)>> =
                    if real_entries.is_empty() { None } else { Some(real_entries.iter().map(|(i, v)| (i.clone(), $D { a: v.0, b: v.1, c: v.2 })).collect()) };
                b.create_non_fungible_resource(OwnerRole::None, id_type_of(ty), track, roles, metadata!(), init)
            }};
        }
        let b = match mutset {
            0 => create!(D0),
            1 => create!(D1),
            2 => create!(D2),
            _ => create!(D3),
        };
        let manifest = b.try_deposit_entire_worktop_or_abort(self.account, None).build();
        let receipt = self.ledger.execute_manifest(manifest, [NonFungibleGlobalId::from_public_key(&self.pk)]);
        let out = Self::outcome(&receipt);
        if out != "ok" {
            return Answer::ok(out);
        }
        let res = receipt.expect_commit(true).new_resource_addresses()[0];
        let mut cur = Cur { res, ty, mutset, track, ruids: vec![], ever_minted: BTreeSet::new(), burned: BTreeSet::new(), shadow: BTreeMap::new() };
        let minted = Self::minted_in(&receipt, Some(res));
        let mut fail: Option<(String, String)> = None;
        for (_, i) in &minted {
            if i.id_type() != id_type_of(ty) {
                fail = Some(("id-type-not-enforced:create".into(), format!("initial id {} has not the resource's id type", i)));
            }
            if !cur.ever_minted.insert(i.clone()) {
                fail = Some(("id-reminted:create".into(), format!("{} minted twice", i)));
            }
        }
        self.cur = Some(cur);
        for (_, i) in &minted {
            let (v, l, wf) = self.cell(i);
            match v {
                Some(v) if !l && wf => {
                    self.cur.as_mut().unwrap().shadow.insert(i.clone(), v);
                }
                _ => fail = Some(("minted-entry-malformed:create".into(), format!("{} minted but its entry is {}", i, self.show_cell(i)))),
            }
        }
        if minted.len() != real_entries.len() {
            fail = Some(("mint-event-mismatch:create".into(), "initial supply and Mint event differ".into()));
        }
        let mut ans = format!("ok sup={}", self.supply());
        for i in &ids {
            ans += &format!(" {}={}", show_id(i), self.show_cell(&self.real_id(i)));
        }
        match fail {
            None => Answer::ok(ans),
            Some((k, d)) => Answer::fail(ans, k, d),
        }
    }

    /// runs one transaction, then answers and judges
    fn tx(&mut self, manifest: TransactionManifestV1, kind: Kind, named: &[MId], ruid_mint: bool) -> Answer {
        let before: BTreeMap<NonFungibleLocalId, (Option<Vec<u64>>, bool, bool)> = {
            let c = self.cur.as_ref().unwrap();
            c.ever_minted.iter().map(|i| (i.clone(), self.cell(i))).collect()
        };
        let receipt = self.ledger.execute_manifest(manifest, [NonFungibleGlobalId::from_public_key(&self.pk)]);
        let out = Self::outcome(&receipt);
        let ok = out == "ok";
        let res = self.cur.as_ref().unwrap().res;
        let ty = self.cur.as_ref().unwrap().ty;
        let mutset = self.cur.as_ref().unwrap().mutset;
        let minted = Self::minted_in(&receipt, Some(res));
        let mut fail: Option<(String, String)> = None;
        let mut flag = |k: String, d: String| {
            if fail.is_none() {
                fail = Some((k, d));
            }
        };
        let kind_name = match &kind {
            Kind::Mint => if ruid_mint { "mintruid" } else { "mint" },
            Kind::Burn(_) => "burn",
            Kind::Update(..) => "update",
            Kind::Other => "other",
        };
        // ---- property oracle 1: every minted id is new (also after a burn) and has the resource's id type
        for (_, i) in &minted {
            if i.id_type() != id_type_of(ty) {
                flag(format!("id-type-not-enforced:{}", kind_name), format!("minted id {} has not the resource's id type", i));
            }
            let c = self.cur.as_mut().unwrap();
            if c.ever_minted.contains(i) {
                let how = if c.burned.contains(i) { "after-burn" } else { "live" };
                flag(format!("id-reminted:{}:{}", how, kind_name), format!("{} was minted before and is minted again", i));
            }
            c.ever_minted.insert(i.clone());
            c.burned.remove(i);
            if ruid_mint {
                c.ruids.push(i.clone());
            }
        }
        if !minted.is_empty() && !matches!(kind, Kind::Mint) {
            flag(format!("unexpected-mint:{}", kind_name), "a Mint event was emitted by a transaction that is not a mint".into());
        }
        // ---- property oracle 2: data of existing ids changes only by a successful update of a declared-mutable field
        for (i, (bv, bl, _)) in &before {
            let (av, al, wf) = self.cell(i);
            if !wf {
                flag(format!("entry-malformed:{}", kind_name), format!("{} has a non-tuple / non-u64 entry", i));
            }
            if minted.iter().any(|m| &m.1 == i) {
                continue; // re-mint, already flagged
            }
            if (&av, al) == (bv, *bl) {
                continue;
            }
            if !ok {
                flag(format!("failed-tx-changed-data:{}", kind_name), format!("{}: entry changed by a failed transaction", i));
                continue;
            }
            match &kind {
                Kind::Burn(ids) if ids.contains(i) && bv.is_some() && !bl && av.is_none() && al => {}
                Kind::Update(uid, fi, v) if uid == i && !al && !bl => {
                    let mut exp = bv.clone().unwrap_or_default();
                    if *fi < exp.len() {
                        exp[*fi] = *v;
                    }
                    if !declared_mutable(mutset).contains(fi) {
                        flag("immutable-field-updated".into(), format!("{}: field {} is not declared mutable but the update went through", i, fi));
                    } else if av.as_ref() != Some(&exp) {
                        flag("update-changed-other-fields".into(), format!("{}: {:?} -> {:?}, expected {:?}", i, bv, av, exp));
                    }
                }
                _ => {
                    if *bl {
                        flag(format!("locked-entry-changed:{}", kind_name), format!("{}: a locked (tombstoned) entry changed", i));
                    } else {
                        flag(format!("data-changed-unexpectedly:{}", kind_name), format!("{}: {:?}/{} -> {:?}/{}", i, bv, bl, av, al));
                    }
                }
            }
        }
        // bookkeeping of the oracle history
        if ok {
            if let Kind::Burn(ids) = &kind {
                for i in ids {
                    let (av, al, _) = self.cell(i);
                    if av.is_some() || !al {
                        flag("burn-left-no-tombstone".into(), format!("{} burned but its entry is not a locked empty entry", i));
                    }
                    let c = self.cur.as_mut().unwrap();
                    c.burned.insert(i.clone());
                    c.shadow.remove(i);
                }
            }
            if let Kind::Update(uid, fi, _) = &kind {
                if !declared_mutable(mutset).contains(fi) {
                    flag("immutable-field-updated".into(), format!("{}: update of undeclared field index {} succeeded", uid, fi));
                }
            }
        }
        for (_, i) in &minted {
            let (v, l, _) = self.cell(i);
            match v {
                Some(v) if !l => {
                    self.cur.as_mut().unwrap().shadow.insert(i.clone(), v);
                }
                _ => flag(format!("minted-entry-malformed:{}", kind_name), format!("{} minted but entry is {}", i, self.show_cell(i))),
            }
        }
        // ---- answer
        let mut ans = format!("{} sup={}", out, self.supply());
        if ruid_mint {
            if ok {
                let c = self.cur.as_ref().unwrap();
                let n = c.ruids.len();
                for k in (n - minted.len())..n {
                    ans += &format!(" r{}={}", k, self.show_cell(&c.ruids[k]));
                }
            }
        } else {
            for i in named {
                ans += &format!(" {}={}", show_id(i), self.show_cell(&self.real_id(i)));
            }
        }
        match fail {
            None => Answer::ok(ans),
            Some((k, d)) => Answer::fail(ans, k, d),
        }
    }
}

impl Runner for R {
    fn step(&mut self, line: &str) -> Answer {
        let t: Vec<&str> = line.split(' ').filter(|s| !s.is_empty()).collect();
        if t.is_empty() {
            return Answer::ok("bad-op");
        }
        if t[0] == "reset" {
            return self.reset(&t);
        }
        let (res, account) = match &self.cur {
            Some(c) => (c.res, self.account),
            None => return Answer::ok("bad-op"),
        };
        match t[0] {
            "mint" if t.len() == 2 => {
                let es = match parse_entries(t[1]) {
                    Some(e) if !e.is_empty() && nodup(&e.iter().map(|x| x.0).collect::<Vec<_>>()) => e,
                    _ => return Answer::ok("bad-op"),
                };
                let entries: Vec<(NonFungibleLocalId, ManifestValue)> = es.iter().map(|(i, v)| (self.real_id(i), tuple_value(v))).collect();
                let m = ManifestBuilder::new().lock_fee_from_faucet().mint_non_fungible(res, entries).try_deposit_entire_worktop_or_abort(account, None).build();
                let named: Vec<MId> = es.iter().map(|e| e.0).collect();
                self.tx(m, Kind::Mint, &named, false)
            }
            "mintruid" if t.len() == 2 => {
                let vs = match parse_val_lists(t[1]) {
                    Some(v) if !v.is_empty() => v,
                    _ => return Answer::ok("bad-op"),
                };
                let entries: Vec<ManifestValue> = vs.iter().map(|v| tuple_value(v)).collect();
                let m = ManifestBuilder::new().lock_fee_from_faucet().mint_ruid_non_fungible(res, entries).try_deposit_entire_worktop_or_abort(account, None).build();
                self.tx(m, Kind::Mint, &[], true)
            }
            "burn" | "vburn" if t.len() == 2 => {
                let ids = match parse_ids(t[1]) {
                    Some(i) if !i.is_empty() && nodup(&i) => i,
                    _ => return Answer::ok("bad-op"),
                };
                let real: Vec<NonFungibleLocalId> = ids.iter().map(|i| self.real_id(i)).collect();
                let m = if t[0] == "burn" {
                    ManifestBuilder::new()
                        .lock_fee_from_faucet()
                        .withdraw_non_fungibles_from_account(account, res, real.clone())
                        .burn_all_from_worktop(res)
                        .build()
                } else {
                    ManifestBuilder::new().lock_fee_from_faucet().burn_non_fungibles_in_account(account, res, real.clone()).build()
                };
                self.tx(m, Kind::Burn(real), &ids, false)
            }
            "get" if t.len() == 2 => match parse_id(t[1]) {
                Some(id) => Answer::ok(format!("ok sup={} {}={}", self.supply(), show_id(&id), self.show_cell(&self.real_id(&id)))),
                None => Answer::ok("bad-op"),
            },
            "update" if t.len() == 4 || (t.len() == 5 && t[4] == "bad") => {
                let (id, f, v) = match (parse_id(t[1]), t[2], parse_nat(t[3])) {
                    (Some(i), f @ ("a" | "b" | "c" | "z"), Some(v)) => (i, f, v),
                    _ => return Answer::ok("bad-op"),
                };
                let fi = match f {
                    "a" => 0,
                    "b" => 1,
                    "c" => 2,
                    _ => 9,
                };
                let real = self.real_id(&id);
                let b = ManifestBuilder::new().lock_fee_from_faucet();
                let b = if t.len() == 5 { b.update_non_fungible_data(res, real.clone(), f, format!("x{}", v)) } else { b.update_non_fungible_data(res, real.clone(), f, v) };
                self.tx(b.build(), Kind::Update(real, fi, v), &[id], false)
            }
            _ => Answer::ok("bad-op"),
        }
    }
}

fn main() {
    main_with(&[("c43", &A)]);
}
