//! C05 — the stored ledger is always well-formed.
//!
//!   area `c05`  : kernel level.  Every case drives the REAL `radix_engine::kernel::kernel::Kernel`
//!     (root call frame of `Kernel::new_no_refs`, `Track` over an empty `InMemorySubstateDatabase`, a
//!     do-nothing `KernelCallbackObject` as in radix-engine-tests/tests/kernel/kernel.rs) with a stream
//!     of `kernel_create_node / kernel_drop_node / kernel_open_substate / kernel_read_substate /
//!     kernel_write_substate / kernel_close_substate / kernel_pin_node` calls.  The answer of every
//!     line (ok / handle / value / error kind) and, on `dump`, the whole ownership graph read back
//!     from the real heap and track (device of every node, owns and references of every substate,
//!     the frame's owned nodes) are compared with the Lean model `RadixModel/Model/Ownership.lean`.
//!     A kernel error aborts the transaction: the rest of the case answers `aborted`.
//!     Property oracle (independent of the model): after every successful call the graph read from the
//!     implementation must be a forest — every internal node in the store has exactly one owner and
//!     that owner is a store substate; every heap node has exactly one owner among the frame and the
//!     heap substates; no store substate references a non-global node; no owned node is missing or on
//!     another device than its parent; global nodes are never owned; every store node is reachable
//!     from a global root (no ownership cycles).
//!   area `c05e` : engine level, oracle only.  Generated transaction histories on the real
//!     `LedgerSimulator` (accounts, resources, key-value stores and objects moved into components by
//!     a native test package, failures); after every commit the repo's `KernelDatabaseChecker`,
//!     `SystemDatabaseChecker` (+ the role-assignment application checker) run over the whole
//!     database.  Payload-vs-schema conformance and role validity are judged only here — they are not
//!     in the Lean model.
use harness::util::*;
use radix_common::prelude::*;
use radix_engine::errors::*;
use radix_engine::kernel::call_frame::*;
use radix_engine::kernel::id_allocator::IdAllocator;
use radix_engine::kernel::kernel::Kernel;
use radix_engine::kernel::kernel_api::*;
use radix_engine::kernel::kernel_callback_api::*;
use radix_engine::system::id_allocation::*;
use radix_engine::track::*;
use radix_engine_interface::prelude::*;
use scrypto_test::prelude::*;
use radix_substate_store_impls::memory_db::InMemorySubstateDatabase;
use std::collections::{BTreeMap, BTreeSet};
use std::io::Write;

#[path = "../c05e.rs"]
mod c05e;

// ------------------------------------------------------------------------------------------ callback

#[derive(Default)]
struct FrameData;
impl CallFrameReferences for FrameData {
    fn global_references(&self) -> Vec<NodeId> {
        vec![]
    }
    fn direct_access_references(&self) -> Vec<NodeId> {
        vec![]
    }
    fn stable_transient_references(&self) -> Vec<NodeId> {
        vec![]
    }
    fn len(&self) -> usize {
        0
    }
}

struct Cb;
macro_rules! noop_internal {
    ($($name:ident ( $($arg:ident : $ty:ty),* );)*) => {
        $(fn $name<Y: KernelInternalApi<System = Self>>($($arg: $ty,)* _api: &mut Y) -> Result<(), RuntimeError> { Ok(()) })*
    };
}
impl KernelCallbackObject for Cb {
    type LockData = ();
    type CallFrameData = FrameData;
    noop_internal! {
        on_pin_node(_n: &NodeId);
        on_create_node(_e: CreateNodeEvent);
        on_drop_node(_e: DropNodeEvent);
        on_move_module(_e: MoveModuleEvent);
        on_open_substate(_e: OpenSubstateEvent);
        on_close_substate(_e: CloseSubstateEvent);
        on_read_substate(_e: ReadSubstateEvent);
        on_write_substate(_e: WriteSubstateEvent);
        on_set_substate(_e: SetSubstateEvent);
        on_remove_substate(_e: RemoveSubstateEvent);
        on_scan_keys(_e: ScanKeysEvent);
        on_drain_substates(_e: DrainSubstatesEvent);
        on_scan_sorted_substates(_e: ScanSortedSubstatesEvent);
        on_execution_start();
        on_execution_finish(_m: &CallFrameMessage);
        on_allocate_node_id(_e: EntityType);
        on_mark_substate_as_transient(_n: &NodeId, _p: &PartitionNumber, _k: &SubstateKey);
        on_get_stack_id();
        on_switch_stack();
        on_send_to_stack(_v: &IndexedScryptoValue);
        on_set_call_frame_data(_d: &FrameData);
        on_get_owned_nodes();
    }
    fn before_invoke<Y: KernelApi<CallbackObject = Self>>(_i: &KernelInvocation<FrameData>, _api: &mut Y) -> Result<(), RuntimeError> {
        Ok(())
    }
    fn after_invoke<Y: KernelApi<CallbackObject = Self>>(_o: &IndexedScryptoValue, _api: &mut Y) -> Result<(), RuntimeError> {
        Ok(())
    }
    fn invoke_upstream<Y: KernelApi<CallbackObject = Self>>(args: &IndexedScryptoValue, _api: &mut Y) -> Result<IndexedScryptoValue, RuntimeError> {
        Ok(args.clone())
    }
    fn auto_drop<Y: KernelApi<CallbackObject = Self>>(_n: Vec<NodeId>, _api: &mut Y) -> Result<(), RuntimeError> {
        Ok(())
    }
    fn on_substate_lock_fault<Y: KernelApi<CallbackObject = Self>>(_n: NodeId, _p: PartitionNumber, _k: &SubstateKey, _api: &mut Y) -> Result<bool, RuntimeError> {
        Ok(false)
    }
    fn on_drop_node_mut<Y: KernelApi<CallbackObject = Self>>(_n: &NodeId, _api: &mut Y) -> Result<(), RuntimeError> {
        Ok(())
    }
}

// ------------------------------------------------------------------------------------------ environment

type Db = InMemorySubstateDatabase;
type Tr = Track<'static, Db>;
type K = Kernel<'static, Cb, Tr>;

/// One real kernel with everything it borrows (leaked boxes, freed in `Drop` in dependency order).
struct Env {
    kernel: Option<K>,
    track: *mut Tr,
    db: *mut Db,
    ida: *mut IdAllocator,
    cb: *mut Cb,
}
impl Env {
    fn new() -> Env {
        let db: *mut Db = Box::into_raw(Box::new(InMemorySubstateDatabase::standard()));
        let track: *mut Tr = Box::into_raw(Box::new(Track::new(unsafe { &*db })));
        let ida: *mut IdAllocator = Box::into_raw(Box::new(IdAllocator::new(Hash([7u8; Hash::LENGTH]))));
        let cb: *mut Cb = Box::into_raw(Box::new(Cb));
        let kernel = unsafe { Kernel::new_no_refs(&mut *track, &mut *ida, &mut *cb) };
        Env { kernel: Some(kernel), track, db, ida, cb }
    }
    fn k(&mut self) -> &mut K {
        self.kernel.as_mut().unwrap()
    }
}
impl Drop for Env {
    fn drop(&mut self) {
        self.kernel = None;
        unsafe {
            drop(Box::from_raw(self.track));
            drop(Box::from_raw(self.db));
            drop(Box::from_raw(self.ida));
            drop(Box::from_raw(self.cb));
        }
    }
}

const KEYS: u64 = 3; // substate keys 0..KEYS of partition 0
const PART: PartitionNumber = PartitionNumber(0);

#[derive(Clone, Debug, PartialEq)]
struct Val {
    owns: Vec<u64>,
    refs: Vec<u64>,
}

/// the ownership graph as read from the real heap / track
struct Graph {
    owned: Vec<u64>,
    /// id -> (device 'H' | 'S', substates key -> value)
    nodes: BTreeMap<u64, (char, BTreeMap<u64, Val>)>,
}

struct R {
    env: Env,
    dead: bool,
    ids: BTreeMap<u64, NodeId>,
    rev: BTreeMap<NodeId, u64>,
    created: BTreeSet<u64>,
    /// frame handle -> (node, key, mutable)   (bookkeeping for the generator only)
    open: BTreeMap<u32, (u64, u64, bool)>,
}

fn is_global(n: u64) -> bool {
    n >= 100
}

fn err_name(e: &RuntimeError) -> String {
    use CallFrameError as C;
    let ps = |p: &ProcessSubstateError| -> &'static str {
        match p {
            ProcessSubstateError::TakeNodeError(TakeNodeError::OwnNotFound(..)) => "OwnNotFound",
            ProcessSubstateError::TakeNodeError(TakeNodeError::SubstateBorrowed(..)) => "SubstateBorrowed",
            ProcessSubstateError::CantDropNodeInStore(..) => "CantDropNodeInStore",
            ProcessSubstateError::RefNotFound(..) => "RefNotFound",
            ProcessSubstateError::RefCantBeAddedToSubstate(..) => "RefCantBeAddedToSubstate",
            ProcessSubstateError::NonGlobalRefNotAllowed(..) => "NonGlobalRefNotAllowed",
            ProcessSubstateError::PersistNodeError(PersistNodeError::ContainsNonGlobalRef(..)) => "ContainsNonGlobalRef",
            ProcessSubstateError::PersistNodeError(PersistNodeError::NodeBorrowed(..)) => "NodeBorrowed",
            ProcessSubstateError::PersistNodeError(PersistNodeError::CannotPersistPinnedNode(..)) => "CannotPersistPinnedNode",
        }
    };
    let s: &str = match e {
        RuntimeError::KernelError(KernelError::CallFrameError(c)) => match c {
            C::CreateNodeError(CreateNodeError::ProcessSubstateError(p)) => ps(p),
            C::CreateNodeError(CreateNodeError::SubstateDiffError(SubstateDiffError::ContainsDuplicateOwns)) => "ContainsDuplicateOwns",
            C::DropNodeError(DropNodeError::TakeNodeError(TakeNodeError::OwnNotFound(..))) => "OwnNotFound",
            C::DropNodeError(DropNodeError::TakeNodeError(TakeNodeError::SubstateBorrowed(..))) => "SubstateBorrowed",
            C::DropNodeError(DropNodeError::NodeBorrowed(..)) => "NodeBorrowed",
            C::DropNodeError(DropNodeError::SubstateBorrowed(..)) => "SubstateBorrowed",
            C::DropNodeError(DropNodeError::ProcessSubstateError(p)) => ps(p),
            C::OpenSubstateError(OpenSubstateError::NodeNotVisible(..)) => "NodeNotVisible",
            C::OpenSubstateError(OpenSubstateError::SubstateFault) => "SubstateFault",
            C::OpenSubstateError(OpenSubstateError::SubstateLocked(..)) => "SubstateLocked",
            C::ReadSubstateError(ReadSubstateError::HandleNotFound(..)) => "HandleNotFound",
            C::WriteSubstateError(WriteSubstateError::HandleNotFound(..)) => "HandleNotFound",
            C::WriteSubstateError(WriteSubstateError::NoWritePermission) => "NoWritePermission",
            C::WriteSubstateError(WriteSubstateError::SubstateDiffError(SubstateDiffError::ContainsDuplicateOwns)) => "ContainsDuplicateOwns",
            C::WriteSubstateError(WriteSubstateError::ProcessSubstateError(p)) => ps(p),
            C::CloseSubstateError(CloseSubstateError::HandleNotFound(..)) => "HandleNotFound",
            C::CloseSubstateError(CloseSubstateError::SubstateBorrowed(..)) => "CloseBorrowed",
            C::PinNodeError(PinNodeError::NodeNotVisible(..)) => "NodeNotVisible",
            _ => return format!("other:{:?}", c).chars().take(60).collect(),
        },
        _ => return format!("other:{:?}", e).chars().take(60).collect(),
    };
    s.to_string()
}

fn parse_list(s: &str) -> Option<Vec<u64>> {
    if s == "-" {
        return Some(vec![]);
    }
    s.split(',').map(|w| if w.is_empty() || !w.bytes().all(|b| b.is_ascii_digit()) { None } else { w.parse().ok() }).collect()
}
fn parse_val(s: &str) -> Option<Val> {
    let p: Vec<&str> = s.split('/').collect();
    if p.len() != 2 {
        return None;
    }
    Some(Val { owns: parse_list(p[0])?, refs: parse_list(p[1])? })
}
fn parse_nat(s: &str) -> Option<u64> {
    if s.is_empty() || !s.bytes().all(|b| b.is_ascii_digit()) || s.len() > 9 {
        None
    } else {
        s.parse().ok()
    }
}
fn show_list(l: &[u64]) -> String {
    if l.is_empty() {
        "-".into()
    } else {
        l.iter().map(|x| x.to_string()).collect::<Vec<_>>().join(",")
    }
}
fn show_val(v: &Val) -> String {
    format!("{}/{}", show_list(&v.owns), show_list(&v.refs))
}

impl R {
    fn new() -> R {
        R { env: Env::new(), dead: false, ids: BTreeMap::new(), rev: BTreeMap::new(), created: BTreeSet::new(), open: BTreeMap::new() }
    }
    fn reset(&mut self) {
        *self = R::new();
    }
    /// the real node id standing for the model id `n` (allocated by the real `IdAllocator` on first use)
    fn nid(&mut self, n: u64) -> NodeId {
        if let Some(x) = self.ids.get(&n) {
            return *x;
        }
        let et = if is_global(n) { EntityType::GlobalGenericComponent } else { EntityType::InternalGenericComponent };
        let id = self.env.k().kernel_allocate_node_id(et).unwrap();
        self.ids.insert(n, id);
        self.rev.insert(id, n);
        id
    }
    fn value(&mut self, v: &Val) -> IndexedScryptoValue {
        let owns: Vec<Own> = v.owns.iter().map(|n| Own(self.nid(*n))).collect();
        let refs: Vec<Reference> = v.refs.iter().map(|n| Reference(self.nid(*n))).collect();
        IndexedScryptoValue::from_typed(&(owns, refs))
    }
    fn unvalue(&self, v: &IndexedScryptoValue) -> Val {
        let m = |x: &NodeId| *self.rev.get(x).unwrap_or(&999_999);
        Val { owns: v.owned_nodes().iter().map(m).collect(), refs: v.references().iter().map(m).collect() }
    }
    fn graph(&mut self) -> Graph {
        let mut nodes = BTreeMap::new();
        let created: Vec<u64> = self.created.iter().cloned().collect();
        for n in created {
            let id = self.nid(n);
            let mut heap_subs = BTreeMap::new();
            let mut store_subs = BTreeMap::new();
            for k in 0..KEYS {
                let key = SubstateKey::Field(k as u8);
                let hv = self.env.k().kernel_substate_io().heap.get_substate(&id, PART, &key).cloned();
                if let Some(v) = hv {
                    heap_subs.insert(k, self.unvalue(&v));
                }
                let sv = self.env.k().kernel_substate_io_mut().store.read_substate(&id, PART, &key).cloned();
                if let Some(v) = sv {
                    store_subs.insert(k, self.unvalue(&v));
                }
            }
            if !heap_subs.is_empty() && !store_subs.is_empty() {
                nodes.insert(n, ('B', heap_subs)); // in both: reported by the oracle
            } else if !heap_subs.is_empty() {
                nodes.insert(n, ('H', heap_subs));
            } else if !store_subs.is_empty() {
                nodes.insert(n, ('S', store_subs));
            }
        }
        let mut owned: Vec<u64> = self.env.k().kernel_current_frame().owned_nodes().iter().map(|x| *self.rev.get(x).unwrap_or(&999_999)).collect();
        owned.sort();
        Graph { owned, nodes }
    }
    fn dump(&mut self) -> String {
        let g = self.graph();
        let mut parts = vec![format!("owned={}", show_list(&g.owned))];
        for n in &self.created {
            match g.nodes.get(n) {
                None => parts.push(format!("{}:-", n)),
                Some((d, subs)) => {
                    let s: Vec<String> = subs.iter().map(|(k, v)| format!("{}={}", k, show_val(v))).collect();
                    parts.push(format!("{}:{}[{}]", n, d, s.join(";")));
                }
            }
        }
        parts.join(" ")
    }

    /// Property oracle on the implementation's graph. Returns (key, description) of the first violation.
    fn oracle(&mut self) -> Option<(String, String)> {
        let g = self.graph();
        // owners of every node: (parent, key) over substates, per device of the parent
        let mut owners: BTreeMap<u64, Vec<(u64, u64, char)>> = BTreeMap::new();
        for (p, (d, subs)) in &g.nodes {
            if *d == 'B' {
                return Some(("node-on-both-devices".into(), format!("node {} has substates in the heap and in the track", p)));
            }
            for (k, v) in subs {
                for o in &v.owns {
                    owners.entry(*o).or_default().push((*p, *k, *d));
                }
                if *d == 'S' {
                    if let Some(r) = v.refs.iter().find(|r| !is_global(**r)) {
                        return Some(("store-ref-non-global".into(), format!("store substate {}.{} references non-global node {}", p, k, r)));
                    }
                }
            }
        }
        for (o, ps) in &owners {
            if is_global(*o) {
                return Some(("global-owned".into(), format!("global node {} is owned by {:?}", o, ps)));
            }
            match g.nodes.get(o) {
                None => return Some(("dangling-own".into(), format!("node {} owned by {:?} does not exist", o, ps))),
                Some((d, _)) => {
                    if ps.iter().any(|p| p.2 != *d) {
                        return Some(("child-on-other-device".into(), format!("node {} on {} owned by {:?}", o, d, ps)));
                    }
                }
            }
        }
        for (n, (d, _)) in &g.nodes {
            let n_sub = owners.get(n).map(|v| v.len()).unwrap_or(0);
            let n_frame = g.owned.iter().filter(|x| *x == n).count();
            match d {
                'S' => {
                    if is_global(*n) {
                        continue;
                    }
                    if n_sub != 1 || n_frame != 0 {
                        return Some(("store-node-owners".into(), format!("stored internal node {} has {} substate owners and {} frame owners", n, n_sub, n_frame)));
                    }
                }
                _ => {
                    if is_global(*n) {
                        return Some(("global-in-heap".into(), format!("global node {} lives in the heap", n)));
                    }
                    if n_sub + n_frame != 1 {
                        return Some(("heap-node-owners".into(), format!("heap node {} has {} substate owners and {} frame owners", n, n_sub, n_frame)));
                    }
                }
            }
        }
        for n in &g.owned {
            if !matches!(g.nodes.get(n), Some(('H', _))) {
                return Some(("frame-owned-not-in-heap".into(), format!("frame-owned node {} is not a heap node", n)));
            }
        }
        // reachability of store nodes from global roots (no cycles / orphans)
        let mut reach: BTreeSet<u64> = g.nodes.iter().filter(|(n, (d, _))| is_global(**n) && *d == 'S').map(|(n, _)| *n).collect();
        let mut todo: Vec<u64> = reach.iter().cloned().collect();
        while let Some(p) = todo.pop() {
            if let Some((_, subs)) = g.nodes.get(&p) {
                for v in subs.values() {
                    for o in &v.owns {
                        if reach.insert(*o) {
                            todo.push(*o);
                        }
                    }
                }
            }
        }
        for (n, (d, _)) in &g.nodes {
            if *d == 'S' && !reach.contains(n) {
                return Some(("store-orphan".into(), format!("stored node {} is not reachable from a global node", n)));
            }
        }
        None
    }

    fn finish(&mut self, r: Result<String, RuntimeError>) -> Answer {
        match r {
            Ok(a) => match self.oracle() {
                None => Answer::ok(a),
                Some((k, d)) => Answer::fail(a, k, d),
            },
            Err(e) => {
                self.dead = true;
                Answer::ok(format!("err:{}", err_name(&e)))
            }
        }
    }
}

impl Runner for R {
    fn step(&mut self, line: &str) -> Answer {
        let t: Vec<&str> = line.split(' ').filter(|w| !w.is_empty()).collect();
        if t.is_empty() {
            return Answer::ok("bad-op");
        }
        match (t[0], t.len()) {
            ("reset", 1) => {
                self.reset();
                Answer::ok("ok")
            }
            ("create", l) if l >= 2 => {
                let n = match parse_nat(t[1]) {
                    Some(n) => n,
                    None => return Answer::ok("bad-op"),
                };
                let mut vals: Vec<(u64, Val)> = vec![];
                for w in &t[2..] {
                    let p: Vec<&str> = w.split(':').collect();
                    if p.len() != 2 {
                        return Answer::ok("bad-op");
                    }
                    match (parse_nat(p[0]), parse_val(p[1])) {
                        (Some(k), Some(v)) => vals.push((k, v)),
                        _ => return Answer::ok("bad-op"),
                    }
                }
                if self.dead {
                    return Answer::ok("aborted");
                }
                // ids come from the IdAllocator and substates from a BTreeMap: not expressible by a kernel caller
                if self.created.contains(&n) {
                    return Answer::ok("refused:IdReused");
                }
                if vals.windows(2).any(|w| w[0].0 >= w[1].0) {
                    return Answer::ok("refused:BadKeys");
                }
                if vals.is_empty() || vals.iter().any(|(k, _)| *k >= KEYS) {
                    return Answer::ok("refused:Keys");
                }
                let id = self.nid(n);
                let mut part = BTreeMap::new();
                for (k, v) in &vals {
                    let iv = self.value(v);
                    part.insert(SubstateKey::Field(*k as u8), iv);
                }
                self.created.insert(n);
                let r = catch(|| self.env.k().kernel_create_node(id, btreemap!(PART => part)));
                match r {
                    Ok(r) => self.finish(r.map(|_| "ok".to_string())),
                    Err(_) => {
                        self.dead = true;
                        Answer::ok("err:panic")
                    }
                }
            }
            ("drop", 2) | ("pin", 2) => {
                let n = match parse_nat(t[1]) {
                    Some(n) => n,
                    None => return Answer::ok("bad-op"),
                };
                if self.dead {
                    return Answer::ok("aborted");
                }
                let id = self.nid(n);
                let is_drop = t[0] == "drop";
                let r = catch(|| if is_drop { self.env.k().kernel_drop_node(&id).map(|_| ()) } else { self.env.k().kernel_pin_node(id) });
                match r {
                    Ok(r) => self.finish(r.map(|_| "ok".to_string())),
                    Err(_) => {
                        self.dead = true;
                        Answer::ok("err:panic")
                    }
                }
            }
            ("open", 4) => {
                let (n, k) = match (parse_nat(t[1]), parse_nat(t[2])) {
                    (Some(n), Some(k)) => (n, k),
                    _ => return Answer::ok("bad-op"),
                };
                if t[3] != "r" && t[3] != "w" {
                    return Answer::ok("bad-op");
                }
                if self.dead {
                    return Answer::ok("aborted");
                }
                if k >= 256 {
                    return Answer::ok("refused:Keys");
                }
                let id = self.nid(n);
                let flags = if t[3] == "w" { LockFlags::MUTABLE } else { LockFlags::read_only() };
                let r = catch(|| self.env.k().kernel_open_substate(&id, PART, &SubstateKey::Field(k as u8), flags, ()));
                match r {
                    Ok(Ok(h)) => {
                        self.open.insert(h, (n, k, t[3] == "w"));
                        self.finish(Ok(format!("ok {}", h)))
                    }
                    Ok(Err(e)) => self.finish(Err(e)),
                    Err(_) => {
                        self.dead = true;
                        Answer::ok("err:panic")
                    }
                }
            }
            ("read", 2) | ("close", 2) => {
                let h = match parse_nat(t[1]) {
                    Some(h) => h as u32,
                    None => return Answer::ok("bad-op"),
                };
                if self.dead {
                    return Answer::ok("aborted");
                }
                if t[0] == "read" {
                    let r = catch(|| self.env.k().kernel_read_substate(h).map(|v| v.clone()));
                    match r {
                        Ok(Ok(v)) => {
                            let v = self.unvalue(&v);
                            self.finish(Ok(format!("val {}", show_val(&v))))
                        }
                        Ok(Err(e)) => self.finish(Err(e)),
                        Err(_) => {
                            self.dead = true;
                            Answer::ok("err:panic")
                        }
                    }
                } else {
                    let r = catch(|| self.env.k().kernel_close_substate(h));
                    match r {
                        Ok(r) => {
                            if r.is_ok() {
                                self.open.remove(&h);
                            }
                            self.finish(r.map(|_| "ok".to_string()))
                        }
                        Err(_) => {
                            self.dead = true;
                            Answer::ok("err:panic")
                        }
                    }
                }
            }
            ("write", 3) => {
                let (h, v) = match (parse_nat(t[1]), parse_val(t[2])) {
                    (Some(h), Some(v)) => (h as u32, v),
                    _ => return Answer::ok("bad-op"),
                };
                if self.dead {
                    return Answer::ok("aborted");
                }
                let iv = self.value(&v);
                let r = catch(|| self.env.k().kernel_write_substate(h, iv));
                match r {
                    Ok(r) => self.finish(r.map(|_| "ok".to_string())),
                    Err(_) => {
                        self.dead = true;
                        Answer::ok("err:panic")
                    }
                }
            }
            ("dump", 1) => {
                if self.dead {
                    return Answer::ok("aborted");
                }
                let d = self.dump();
                self.finish(Ok(d))
            }
            _ => Answer::ok("bad-op"),
        }
    }
}

// ------------------------------------------------------------------------------------------ generator

pub struct A;

fn subset(rng: &mut Rng, xs: &[u64], p_num: u64, p_den: u64) -> Vec<u64> {
    xs.iter().filter(|_| rng.chance(p_num, p_den)).cloned().collect()
}

impl A {
    /// one op line chosen from the current state of a shadow runner (the real kernel itself);
    /// about one op in 35 is deliberately corrupted in exactly one way
    fn gen_op(rng: &mut Rng, r: &mut R) -> String {
        let g = r.graph();
        let owned = g.owned.clone();
        let globals: Vec<u64> = g.nodes.keys().filter(|n| is_global(**n)).cloned().collect();
        let fresh_internal: Vec<u64> = (0..14).filter(|n| !r.created.contains(n)).collect();
        let fresh_global: Vec<u64> = (100..104).filter(|n| !r.created.contains(n)).collect();
        let open: Vec<(u32, (u64, u64, bool))> = r.open.iter().map(|(h, x)| (*h, *x)).collect();
        // nodes visible through open substates
        let mut borrowed: Vec<u64> = vec![];
        for (_, (n, k, _)) in &open {
            if let Some((_, subs)) = g.nodes.get(n) {
                if let Some(v) = subs.get(k) {
                    borrowed.extend(v.owns.iter().cloned());
                    borrowed.extend(v.refs.iter().filter(|x| !is_global(**x)).cloned());
                }
            }
        }
        let mut visible: Vec<u64> = owned.iter().chain(globals.iter()).chain(borrowed.iter()).cloned().collect();
        visible.sort();
        visible.dedup();
        let locked: BTreeSet<u64> = open.iter().map(|(_, (n, _, _))| *n).collect();
        let free_owned: Vec<u64> = owned.iter().filter(|n| !locked.contains(n)).cloned().collect();
        // frame-owned nodes whose whole subtree has no open substate: only these are moved into the store
        // (the discipline the system layer keeps; see Props/C05.lean `kernel_alone_not_sufficient`)
        let subtree_unlocked = |root: u64| -> bool {
            let mut todo = vec![root];
            let mut seen = BTreeSet::new();
            while let Some(x) = todo.pop() {
                if !seen.insert(x) {
                    continue;
                }
                if locked.contains(&x) {
                    return false;
                }
                if let Some((_, subs)) = g.nodes.get(&x) {
                    for v in subs.values() {
                        todo.extend(v.owns.iter().cloned());
                    }
                }
            }
            true
        };
        let movable: Vec<u64> = free_owned.iter().filter(|n| subtree_unlocked(**n)).cloned().collect();
        let bad = rng.chance(1, 35);
        let bad_kind = rng.below(6);
        let any_id = |rng: &mut Rng| -> u64 {
            match rng.below(3) {
                0 => rng.below(14),
                1 => 100 + rng.below(4),
                _ => rng.below(16),
            }
        };
        // references that are visible and stay visible while the value is processed
        let mk_refs = |rng: &mut Rng, to_store: bool, excluded: &[u64]| -> Vec<u64> {
            let mut refs = vec![];
            if rng.chance(1, 2) {
                refs.extend(subset(rng, &globals, 1, 2));
            }
            if !to_store && rng.chance(1, 3) {
                refs.extend(subset(rng, &owned, 1, 3).into_iter().filter(|x| !excluded.contains(x)));
                refs.extend(subset(rng, &borrowed, 1, 3).into_iter().filter(|x| !excluded.contains(x)));
            }
            if rng.chance(1, 10) && !refs.is_empty() {
                let x = refs[0];
                refs.push(x); // duplicate reference (de-duplicated by the kernel)
            }
            refs
        };
        let corrupt = |rng: &mut Rng, v: &mut Val, to_store: bool| match bad_kind {
            0 => v.owns.push(any_id(rng)),
            1 => {
                if let Some(x) = v.owns.first().cloned() {
                    v.owns.push(x)
                } else {
                    v.owns.push(any_id(rng))
                }
            }
            2 => v.refs.push(any_id(rng)),
            3 => {
                if to_store && !owned.is_empty() {
                    let x = *rng.pick(&owned);
                    v.refs.push(x)
                } else {
                    v.refs.push(any_id(rng))
                }
            }
            4 => {
                if !owned.is_empty() {
                    let x = *rng.pick(&owned);
                    v.owns.push(x);
                    v.refs.push(x)
                }
            }
            _ => {
                if !locked.is_empty() {
                    let l: Vec<u64> = locked.iter().cloned().collect();
                    v.owns.push(*rng.pick(&l))
                }
            }
        };
        let roll = rng.below(100);
        if roll < 22 && (!fresh_internal.is_empty() || !fresh_global.is_empty()) {
            // create
            let global = !fresh_global.is_empty() && (fresh_internal.is_empty() || rng.chance(1, 4));
            let n = if global { *rng.pick(&fresh_global) } else { *rng.pick(&fresh_internal) };
            let nk = 1 + rng.below(KEYS);
            let mut keys: Vec<u64> = (0..KEYS).collect();
            while keys.len() as u64 > nk {
                let i = rng.below(keys.len() as u64) as usize;
                keys.remove(i);
            }
            let mut pool = if global { movable.clone() } else { free_owned.clone() };
            let mut vals: Vec<(u64, Val)> = vec![];
            let mut all_taken: Vec<u64> = vec![];
            for k in &keys {
                let mut owns = vec![];
                if rng.chance(1, 2) {
                    let take = subset(rng, &pool, 1, 2);
                    pool.retain(|x| !take.contains(x));
                    owns = take;
                }
                all_taken.extend(owns.iter().cloned());
                vals.push((*k, Val { owns, refs: vec![] }));
            }
            for (_, v) in vals.iter_mut() {
                v.refs = mk_refs(rng, global, &all_taken);
            }
            if bad {
                let i = rng.below(vals.len() as u64) as usize;
                corrupt(rng, &mut vals[i].1, global);
            }
            let parts: Vec<String> = vals.iter().map(|(k, v)| format!("{}:{}", k, show_val(v))).collect();
            return format!("create {} {}", n, parts.join(" "));
        }
        if roll < 42 && !visible.is_empty() {
            // open
            let n = if bad && bad_kind < 2 { any_id(rng) } else { *rng.pick(&visible) };
            let ks: Vec<u64> = g.nodes.get(&n).map(|x| x.1.keys().cloned().collect()).unwrap_or_default();
            let k = if ks.is_empty() || (bad && bad_kind == 2) { rng.below(KEYS) } else { *rng.pick(&ks) };
            let already: Vec<bool> = open.iter().filter(|(_, (n2, k2, _))| *n2 == n && *k2 == k).map(|(_, x)| x.2).collect();
            let m = if bad && bad_kind == 3 {
                "w"
            } else if already.iter().any(|w| *w) {
                return format!("read {}", open[0].0);
            } else if !already.is_empty() {
                "r"
            } else if rng.chance(3, 5) {
                "w"
            } else {
                "r"
            };
            return format!("open {} {} {}", n, k, m);
        }
        let writable: Vec<(u32, (u64, u64, bool))> = open.iter().filter(|x| x.1 .2).cloned().collect();
        if roll < 64 && (!writable.is_empty() || (bad && !open.is_empty())) {
            // write
            let (h, (n, k, _)) = if writable.is_empty() || (bad && bad_kind == 0) { *rng.pick(&open) } else { *rng.pick(&writable) };
            let h = if bad && bad_kind == 1 { h + 7 } else { h };
            let cur = g.nodes.get(&n).and_then(|x| x.1.get(&k)).cloned().unwrap_or(Val { owns: vec![], refs: vec![] });
            let to_store = g.nodes.get(&n).map(|x| x.0 == 'S').unwrap_or(false);
            // keep owned children that are not locked themselves (a heap substate may give them back to the frame)
            let mut owns: Vec<u64> = cur.owns.iter().filter(|_| to_store || rng.chance(2, 3)).cloned().collect();
            if bad && bad_kind == 2 && to_store && !owns.is_empty() {
                owns.remove(0); // CantDropNodeInStore
            }
            owns.extend(subset(rng, if to_store { &movable } else { &free_owned }, 1, 2));
            let mut refs: Vec<u64> = cur.refs.iter().filter(|_| rng.chance(2, 3)).cloned().collect();
            refs.extend(mk_refs(rng, to_store, &owns));
            let mut v = Val { owns, refs };
            if bad && bad_kind >= 3 {
                corrupt(rng, &mut v, to_store);
            }
            return format!("write {} {}", h, show_val(&v));
        }
        if roll < 76 && !open.is_empty() {
            // close: prefer handles whose owned children are not locked
            let ok: Vec<u32> = open
                .iter()
                .filter(|(_, (n, k, _))| g.nodes.get(n).and_then(|x| x.1.get(k)).map(|v| v.owns.iter().all(|o| !locked.contains(o))).unwrap_or(true))
                .map(|x| x.0)
                .collect();
            let h = if ok.is_empty() || (bad && bad_kind < 3) { rng.pick(&open).0 } else { *rng.pick(&ok) };
            let h = if bad && bad_kind >= 3 { h + 5 } else { h };
            return format!("close {}", h);
        }
        if roll < 81 && !open.is_empty() {
            let (h, _) = *rng.pick(&open);
            return format!("read {}", if bad { h + 3 } else { h });
        }
        if roll < 89 && !owned.is_empty() {
            // drop: a frame-owned node without open substates that nobody references
            let referenced: BTreeSet<u64> = g.nodes.values().flat_map(|x| x.1.values().flat_map(|v| v.refs.iter().cloned())).collect();
            let ok: Vec<u64> = free_owned.iter().filter(|n| !referenced.contains(n)).cloned().collect();
            let n = if bad { if bad_kind < 3 { any_id(rng) } else { *rng.pick(&owned) } } else if !ok.is_empty() { *rng.pick(&ok) } else { return "dump".to_string() };
            return format!("drop {}", n);
        }
        if roll < 93 && !visible.is_empty() {
            let n = if bad { any_id(rng) } else { *rng.pick(&visible) };
            return format!("pin {}", n);
        }
        if roll < 96 && !r.created.is_empty() {
            return "dump".to_string();
        }
        // fall-back: create something simple
        if let Some(n) = fresh_internal.first() {
            return format!("create {} 0:-/-", n);
        }
        "dump".to_string()
    }
}

impl Area for A {
    fn gen(&self, rng: &mut Rng, n: usize, out: &mut dyn Write) {
        let mut r = R::new();
        for i in 0..n {
            writeln!(out, "reset").unwrap();
            r.reset();
            if i % 25 == 24 {
                // malformed stream
                for l in ["create", "create x 0:-/-", "create 1 0:1/", "create 1 0:-/- 0:-/-", "create 1 1:-/- 0:-/-", "create 1", "open 1 0 x", "write 0 1,2", "write 0 1,,2/-", "drop", "close -1", "pin 1 2", "read", "frobnicate 1", "dump 1"] {
                    if rng.chance(1, 2) {
                        writeln!(out, "{}", l).unwrap();
                    }
                }
                writeln!(out, "dump").unwrap();
                continue;
            }
            let len = 4 + rng.below(40);
            for _ in 0..len {
                let op = A::gen_op(rng, &mut r);
                writeln!(out, "{}", op).unwrap();
                let _ = r.step(&op);
                if r.dead {
                    break;
                }
            }
            writeln!(out, "dump").unwrap();
        }
    }
    fn runner(&self) -> Box<dyn Runner> {
        Box::new(R::new())
    }
    fn consts(&self) -> Vec<(String, String)> {
        // blueprint -> EntityType table of system/id_allocation.rs as the compiled tree computes it
        let mut out = vec![];
        let pkgs: Vec<(&str, PackageAddress)> = vec![
            ("PACKAGE_PACKAGE", PACKAGE_PACKAGE),
            ("RESOURCE_PACKAGE", RESOURCE_PACKAGE),
            ("ACCOUNT_PACKAGE", ACCOUNT_PACKAGE),
            ("IDENTITY_PACKAGE", IDENTITY_PACKAGE),
            ("CONSENSUS_MANAGER_PACKAGE", CONSENSUS_MANAGER_PACKAGE),
            ("ACCESS_CONTROLLER_PACKAGE", ACCESS_CONTROLLER_PACKAGE),
            ("POOL_PACKAGE", POOL_PACKAGE),
            ("TRANSACTION_PROCESSOR_PACKAGE", TRANSACTION_PROCESSOR_PACKAGE),
            ("METADATA_MODULE_PACKAGE", METADATA_MODULE_PACKAGE),
            ("ROYALTY_MODULE_PACKAGE", ROYALTY_MODULE_PACKAGE),
            ("ROLE_ASSIGNMENT_MODULE_PACKAGE", ROLE_ASSIGNMENT_MODULE_PACKAGE),
            ("GENESIS_HELPER_PACKAGE", GENESIS_HELPER_PACKAGE),
            ("FAUCET_PACKAGE", FAUCET_PACKAGE),
            ("TRANSACTION_TRACKER_PACKAGE", TRANSACTION_TRACKER_PACKAGE),
            ("LOCKER_PACKAGE", LOCKER_PACKAGE),
        ];
        let names: Vec<&str> = vec![
            PACKAGE_BLUEPRINT,
            FUNGIBLE_RESOURCE_MANAGER_BLUEPRINT,
            NON_FUNGIBLE_RESOURCE_MANAGER_BLUEPRINT,
            FUNGIBLE_VAULT_BLUEPRINT,
            NON_FUNGIBLE_VAULT_BLUEPRINT,
            FUNGIBLE_BUCKET_BLUEPRINT,
            NON_FUNGIBLE_BUCKET_BLUEPRINT,
            FUNGIBLE_PROOF_BLUEPRINT,
            NON_FUNGIBLE_PROOF_BLUEPRINT,
            WORKTOP_BLUEPRINT,
            AUTH_ZONE_BLUEPRINT,
            CONSENSUS_MANAGER_BLUEPRINT,
            VALIDATOR_BLUEPRINT,
            ACCESS_CONTROLLER_BLUEPRINT,
            ACCOUNT_BLUEPRINT,
            IDENTITY_BLUEPRINT,
            "OneResourcePool",
            "TwoResourcePool",
            "MultiResourcePool",
            ACCOUNT_LOCKER_BLUEPRINT,
            "Other",
        ];
        let mut rows = vec![];
        for (pi, (_, p)) in pkgs.iter().enumerate() {
            for (bi, b) in names.iter().enumerate() {
                let bp = BlueprintId::new(p, *b);
                let g = get_global_entity_type(&bp) as u8;
                let i = get_internal_entity_type(&bp) as u8;
                rows.push(format!("({}, {}, {}, {})", pi, bi, g, i));
            }
        }
        out.push(("nPackages".to_string(), pkgs.len().to_string()));
        out.push(("nBlueprints".to_string(), names.len().to_string()));
        out.push(("packageNames".to_string(), format!("[{}]\traw\tList String", pkgs.iter().map(|p| format!("\"{}\"", p.0)).collect::<Vec<_>>().join(", "))));
        out.push(("blueprintNames".to_string(), format!("[{}]\traw\tList String", names.iter().map(|p| format!("\"{}\"", p)).collect::<Vec<_>>().join(", "))));
        out.push(("entityTable".to_string(), format!("[{}]\traw\tList (Nat × Nat × Nat × Nat)", rows.join(", "))));
        // EntityType discriminators the table refers to, and which of them are global / internal per EntityType::is_global
        let ets: Vec<(&str, EntityType)> = vec![
            ("GlobalPackage", EntityType::GlobalPackage),
            ("GlobalFungibleResourceManager", EntityType::GlobalFungibleResourceManager),
            ("GlobalNonFungibleResourceManager", EntityType::GlobalNonFungibleResourceManager),
            ("GlobalConsensusManager", EntityType::GlobalConsensusManager),
            ("GlobalValidator", EntityType::GlobalValidator),
            ("GlobalAccessController", EntityType::GlobalAccessController),
            ("GlobalAccount", EntityType::GlobalAccount),
            ("GlobalIdentity", EntityType::GlobalIdentity),
            ("GlobalGenericComponent", EntityType::GlobalGenericComponent),
            ("GlobalOneResourcePool", EntityType::GlobalOneResourcePool),
            ("GlobalTwoResourcePool", EntityType::GlobalTwoResourcePool),
            ("GlobalMultiResourcePool", EntityType::GlobalMultiResourcePool),
            ("GlobalAccountLocker", EntityType::GlobalAccountLocker),
            ("InternalFungibleVault", EntityType::InternalFungibleVault),
            ("InternalNonFungibleVault", EntityType::InternalNonFungibleVault),
            ("InternalGenericComponent", EntityType::InternalGenericComponent),
            ("InternalKeyValueStore", EntityType::InternalKeyValueStore),
        ];
        for (n, e) in &ets {
            out.push((format!("et{}", n), (*e as u8).to_string()));
        }
        let globals: Vec<String> = (0u16..256).filter(|b| EntityType::from_repr(*b as u8).map(|e| e.is_global()).unwrap_or(false)).map(|b| b.to_string()).collect();
        let internals: Vec<String> = (0u16..256).filter(|b| EntityType::from_repr(*b as u8).map(|e| e.is_internal()).unwrap_or(false)).map(|b| b.to_string()).collect();
        out.push(("globalEntityBytes".to_string(), format!("[{}]\traw\tList Nat", globals.join(", "))));
        out.push(("internalEntityBytes".to_string(), format!("[{}]\traw\tList Nat", internals.join(", "))));
        out
    }
}

fn main() {
    main_with(&[("c05", &A), ("c05e", &c05e::E)]);
}
