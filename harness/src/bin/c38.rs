//! C38 — static resource movement bounds are sound.
//!
//! Area `c38` (unit level, diffed against the Lean model `drv_c38`): op chains on the REAL abstract
//! domain (`TrackedResources` holding one resource → `TrackedResource` → `ResourceBounds`) next to a
//! concrete balance that follows the run-time meaning of each op. One chain per line:
//!
//!   ch <f|n> <z|u> <c0> <op>*        f = fungible resource (concrete balance: attos), n = non-fungible (id list)
//!                                    z = worktop known empty (c0 must be 0 / -), u = "unspecified resources may be present"
//!   ops:  add <ids> <lb> <ub> <allow> <c>   add an amount described by new_for_manifest_constraint(General{..}); c = concrete addend
//!         tka <d> | tki <ids> | tkall       take by amount / by ids / all
//!         as <constraint>                   handle an assertion (constraint syntax of area c37)
//!   answer: one item per state, " ; "-separated:  `gen … m<1|0|->`  (takes: `<remaining> m. | <taken> m.`)  or `err <Error>` (ends the chain)
//!           m1/m0 = the concrete balance is / is not accepted by the bounds (real validate_* on the wrapped
//!           GeneralResourceConstraint); m- = the concrete execution already failed.
//!
//! Oracle (the domain half of the property, on the implementation only): whenever the concrete execution is
//! alive, the concrete balance (and the concrete taken part) must lie in the reported bounds — membership is
//! decided by an independent BigInt/BTreeSet meaning function.
//!
//! Area `c38e` (engine level, oracle only): generated manifests over three accounts; every manifest the real
//! analyser (`StaticManifestInterpreter` + `StaticResourceMovementsVisitor`) accepts is executed on the
//! `LedgerSimulator` in two ledger states (a recipient that accepts / rejects deposits); for every account
//! deposit / withdraw invocation the actual vault change of that instruction (execution trace) must lie
//! within the bounds the analyser reports for it, and the per-account totals within the aggregated
//! `resolve_account_changes()` bounds.
use harness::util::*;
use num_bigint::BigInt;
use num_traits::{Signed, Zero};
use radix_common::prelude::*;
use radix_engine::transaction::*;
use radix_engine_interface::prelude::*;
use radix_transactions::manifest::static_resource_movements::*;
use radix_transactions::manifest::*;
use radix_transactions::model::*;
use radix_transactions::prelude::*;
use scrypto_test::prelude::*;
use std::collections::{BTreeMap, BTreeSet};
use std::io::Write;
use std::str::FromStr;

// ------------------------------------------------------------------------------------------ parsing (grammar of c37)

fn nat_strict(s: &str) -> Option<u64> {
    if s.is_empty() || !s.bytes().all(|b| b.is_ascii_digit()) {
        return None;
    }
    s.parse::<u64>().ok()
}

fn parse_big(s: &str) -> Option<BigInt> {
    let body = s.strip_prefix('-').unwrap_or(s);
    if body.is_empty() || !body.bytes().all(|b| b.is_ascii_digit()) {
        return None;
    }
    BigInt::from_str(s).ok()
}

fn parse_dec(s: &str) -> Option<Decimal> {
    let v = parse_big(s)?;
    let max = (BigInt::from(1) << 191usize) - 1;
    let min: BigInt = -(BigInt::from(1) << 191usize);
    if v < min || v > max {
        return None;
    }
    I192::from_str(&v.to_string()).ok().map(Decimal::from_attos)
}

fn parse_ids(s: &str) -> Option<Vec<u64>> {
    if s == "-" {
        return Some(vec![]);
    }
    let mut out = vec![];
    for t in s.split(',') {
        let n = nat_strict(t)?;
        if out.contains(&n) {
            return None;
        }
        out.push(n);
    }
    Some(out)
}

fn to_set(ids: &[u64]) -> IndexSet<NonFungibleLocalId> {
    ids.iter().map(|i| NonFungibleLocalId::integer(*i)).collect()
}

fn parse_lower(s: &str) -> Option<LowerBound> {
    if s == "nz" { Some(LowerBound::NonZero) } else { s.strip_prefix('i').and_then(parse_dec).map(LowerBound::Inclusive) }
}
fn parse_upper(s: &str) -> Option<UpperBound> {
    if s == "u" { Some(UpperBound::Unbounded) } else { s.strip_prefix('i').and_then(parse_dec).map(UpperBound::Inclusive) }
}
fn parse_allowed(s: &str) -> Option<AllowedIds> {
    if s == "any" { Some(AllowedIds::Any) } else { s.strip_prefix('l').and_then(parse_ids).map(|i| AllowedIds::Allowlist(to_set(&i))) }
}
fn parse_general(r: &str, l: &str, u: &str, a: &str) -> Option<GeneralResourceConstraint> {
    Some(GeneralResourceConstraint { required_ids: to_set(&parse_ids(r)?), lower_bound: parse_lower(l)?, upper_bound: parse_upper(u)?, allowed_ids: parse_allowed(a)? })
}
fn parse_c<'a, 'b>(t: &'a [&'b str]) -> Option<(ManifestResourceConstraint, &'a [&'b str])> {
    use ManifestResourceConstraint as C;
    match t.first().copied()? {
        "nz" => Some((C::NonZeroAmount, &t[1..])),
        "ex" if t.len() >= 2 => Some((C::ExactAmount(parse_dec(t[1])?), &t[2..])),
        "al" if t.len() >= 2 => Some((C::AtLeastAmount(parse_dec(t[1])?), &t[2..])),
        "exnf" if t.len() >= 2 => Some((C::ExactNonFungibles(to_set(&parse_ids(t[1])?)), &t[2..])),
        "alnf" if t.len() >= 2 => Some((C::AtLeastNonFungibles(to_set(&parse_ids(t[1])?)), &t[2..])),
        "gen" if t.len() >= 5 => Some((C::General(parse_general(t[1], t[2], t[3], t[4])?), &t[5..])),
        _ => None,
    }
}

fn d(x: &Decimal) -> String {
    x.attos().to_string()
}
fn id_of(x: &NonFungibleLocalId) -> u64 {
    match x {
        NonFungibleLocalId::Integer(i) => i.value(),
        _ => u64::MAX,
    }
}
fn show_ids(s: &IndexSet<NonFungibleLocalId>) -> String {
    if s.is_empty() {
        "-".into()
    } else {
        let mut v: Vec<u64> = s.iter().map(id_of).collect();
        v.sort();
        v.iter().map(|x| x.to_string()).collect::<Vec<_>>().join(",")
    }
}
fn general_of(b: &ResourceBounds) -> GeneralResourceConstraint {
    GeneralResourceConstraint { required_ids: b.required_ids().clone(), lower_bound: b.lower_bound(), upper_bound: b.upper_bound(), allowed_ids: b.allowed_ids().clone() }
}
fn show_general(g: &GeneralResourceConstraint) -> String {
    let lb = match &g.lower_bound { LowerBound::NonZero => "nz".to_string(), LowerBound::Inclusive(x) => format!("i{}", d(x)) };
    let ub = match &g.upper_bound { UpperBound::Unbounded => "u".to_string(), UpperBound::Inclusive(x) => format!("i{}", d(x)) };
    let al = match &g.allowed_ids { AllowedIds::Any => "any".to_string(), AllowedIds::Allowlist(l) => format!("l{}", show_ids(l)) };
    format!("gen {} {} {} {}", show_ids(&g.required_ids), lb, ub, al)
}
fn show_serr(e: &StaticResourceMovementsError) -> String {
    use StaticResourceMovementsError as E;
    match e {
        E::DecimalAmountIsNegative => "DecimalAmountIsNegative".into(),
        E::BoundsInvalidForResourceKind => "BoundsInvalidForResourceKind".into(),
        E::ConstraintBoundsInvalid => "ConstraintBoundsInvalid".into(),
        E::AssertionCannotBeSatisfied => "AssertionCannotBeSatisfied".into(),
        E::TakeCannotBeSatisfied => "TakeCannotBeSatisfied".into(),
        E::DecimalOverflow => "DecimalOverflow".into(),
        E::DuplicateNonFungibleId => "DuplicateNonFungibleId".into(),
        E::WorktopEndsWithKnownResourcesPresent => "WorktopEndsWithKnownResourcesPresent".into(),
        E::ManifestValidationError(_) => "ManifestValidationError".into(),
        E::NotAResourceAddress(_) => "NotAResourceAddress".into(),
        E::TypedManifestNativeInvocationError(_) => "TypedManifestNativeInvocationError".into(),
        E::AggregatedBalanceChangeWithdrawDoesNotSupportUnknownResources => "AggregatedBalanceChangeWithdrawDoesNotSupportUnknownResources".into(),
        E::UnexpectedBoundsForNetWithdraw => "UnexpectedBoundsForNetWithdraw".into(),
    }
}

// ------------------------------------------------------------------------------------------ independent meaning

fn big(x: &Decimal) -> BigInt {
    BigInt::from_str(&x.attos().to_string()).unwrap()
}
fn one() -> BigInt {
    BigInt::from(10u64).pow(18)
}
fn lower_sat(l: &LowerBound, a: &BigInt) -> bool {
    match l {
        LowerBound::NonZero => !a.is_zero(),
        LowerBound::Inclusive(x) => &big(x) <= a,
    }
}
fn upper_sat(u: &UpperBound, a: &BigInt) -> bool {
    match u {
        UpperBound::Unbounded => true,
        UpperBound::Inclusive(x) => a <= &big(x),
    }
}
fn ids_u(s: &IndexSet<NonFungibleLocalId>) -> BTreeSet<u64> {
    s.iter().map(id_of).collect()
}
/// the set of concrete balances a `ResourceBounds` stands for
fn means(g: &GeneralResourceConstraint, c: &Conc) -> bool {
    match c {
        Conc::F(a) => !a.is_negative() && lower_sat(&g.lower_bound, a) && upper_sat(&g.upper_bound, a),
        Conc::N(ids) => {
            let set: BTreeSet<u64> = ids.iter().cloned().collect();
            let a = BigInt::from(ids.len()) * one();
            lower_sat(&g.lower_bound, &a)
                && upper_sat(&g.upper_bound, &a)
                && ids_u(&g.required_ids).is_subset(&set)
                && match &g.allowed_ids {
                    AllowedIds::Any => true,
                    AllowedIds::Allowlist(l) => set.is_subset(&ids_u(l)),
                }
        }
    }
}

// ------------------------------------------------------------------------------------------ domain runner

#[derive(Clone, Debug)]
enum Conc {
    F(BigInt),
    N(Vec<u64>),
}

fn parse_conc(fungible: bool, s: &str) -> Option<Conc> {
    if fungible {
        let v = parse_big(s)?;
        if v.is_negative() || v >= (BigInt::from(1) << 100usize) {
            return None;
        }
        // canonical decimal text only (the Lean side parses digits)
        Some(Conc::F(v))
    } else {
        parse_ids(s).map(Conc::N)
    }
}

fn to_dec(a: &BigInt) -> Decimal {
    Decimal::from_attos(I192::from_str(&a.to_string()).unwrap())
}

/// membership as the implementation's own validation functions see it
fn member_impl(g: &GeneralResourceConstraint, c: &Option<Conc>) -> &'static str {
    match c {
        None => "m-",
        Some(Conc::F(a)) => if g.validate_fungible(to_dec(a)).is_ok() { "m1" } else { "m0" },
        Some(Conc::N(ids)) => if g.validate_non_fungible_ids(&to_set(ids)).is_ok() { "m1" } else { "m0" },
    }
}

enum Op {
    Add(GeneralResourceConstraint, Conc),
    TakeAmt(Decimal),
    TakeIds(Vec<u64>),
    TakeAll,
    Assert(ManifestResourceConstraint),
}

fn parse_ops(fungible: bool, mut t: &[&str]) -> Option<Vec<Op>> {
    let mut v = vec![];
    while !t.is_empty() {
        match t[0] {
            "add" if t.len() >= 6 => {
                v.push(Op::Add(parse_general(t[1], t[2], t[3], t[4])?, parse_conc(fungible, t[5])?));
                t = &t[6..];
            }
            "tka" if t.len() >= 2 => {
                v.push(Op::TakeAmt(parse_dec(t[1])?));
                t = &t[2..];
            }
            "tki" if t.len() >= 2 => {
                v.push(Op::TakeIds(parse_ids(t[1])?));
                t = &t[2..];
            }
            "tkall" => {
                v.push(Op::TakeAll);
                t = &t[1..];
            }
            "as" => {
                let (c, rest) = parse_c(&t[1..])?;
                v.push(Op::Assert(c));
                t = rest;
            }
            _ => return None,
        }
    }
    Some(v)
}

fn is_empty_allowlist_positive_upper(g: &GeneralResourceConstraint) -> bool {
    matches!(&g.allowed_ids, AllowedIds::Allowlist(l) if l.is_empty()) && g.upper_bound.equivalent_decimal().is_positive()
}

struct R;

fn cur_bounds(tr: &TrackedResources, res: &ResourceAddress) -> ResourceBounds {
    match tr.specified_resources().get(res) {
        Some(t) => t.bounds().clone(),
        None => tr.unspecified_resources().resource_bounds(),
    }
}

impl R {
    fn chain(&self, fungible: bool, start_unknown: bool, c0: Conc, ops: Vec<Op>) -> Answer {
        let res: ResourceAddress = if fungible { XRD } else { ACCOUNT_OWNER_BADGE };
        let src = ChangeSource::InitialYieldFromParent;
        let mut tr = if start_unknown { TrackedResources::new_with_possible_balance_of_unspecified_resources([src]) } else { TrackedResources::new_empty() };
        let mut conc: Option<Conc> = Some(c0);
        let mut items: Vec<String> = vec![];
        let mut fail: Option<(String, String)> = None;
        let check = |what: &str, key: String, g: &GeneralResourceConstraint, c: &Option<Conc>, fail: &mut Option<(String, String)>| {
            if let Some(cc) = c {
                let indep = means(g, cc);
                let imp = member_impl(g, c) == "m1";
                if fail.is_none() && indep != imp {
                    *fail = Some(("membership-disagree".into(), format!("{}: validate_* says {} but the meaning says {} for {:?} in {}", what, imp, indep, cc, show_general(g))));
                }
                if fail.is_none() && !indep {
                    *fail = Some((key, format!("{}: concrete balance {:?} of a live execution is outside the reported bounds {}", what, cc, show_general(g))));
                }
            }
        };
        let b0 = general_of(&cur_bounds(&tr, &res));
        items.push(format!("{} {}", show_general(&b0), member_impl(&b0, &conc)));
        check("start", "domain-unsound:start".into(), &b0, &conc, &mut fail);
        for (i, op) in ops.into_iter().enumerate() {
            match op {
                Op::Add(g, cc) => {
                    let amt = match ResourceBounds::new_for_manifest_constraint(&ManifestResourceConstraint::General(g)) {
                        Ok(b) => b,
                        Err(e) => {
                            items.push(format!("err {}", show_serr(&e)));
                            break;
                        }
                    };
                    let amt_g = general_of(&amt);
                    match tr.mut_add_resource(res, TrackedResource::general(amt, [src])) {
                        Err(e) => {
                            items.push(format!("err {}", show_serr(&e)));
                            break;
                        }
                        Ok(()) => {
                            // the addend must itself be described by the added bounds; otherwise the concrete run is not one the op describes
                            let cc_ok = member_impl(&amt_g, &Some(cc.clone())) == "m1";
                            conc = match (conc, cc, cc_ok) {
                                (Some(Conc::F(a)), Conc::F(c), true) => Some(Conc::F(a + c)),
                                (Some(Conc::N(ids)), Conc::N(c), true) => {
                                    if ids.iter().all(|x| !c.contains(x)) {
                                        let mut v = ids.clone();
                                        v.extend(c);
                                        Some(Conc::N(v))
                                    } else {
                                        None
                                    }
                                }
                                _ => None,
                            };
                            let b = general_of(&cur_bounds(&tr, &res));
                            items.push(format!("{} {}", show_general(&b), member_impl(&b, &conc)));
                            check(&format!("op {} add", i), "domain-unsound:add".into(), &b, &conc, &mut fail);
                        }
                    }
                }
                Op::TakeAmt(_) | Op::TakeIds(_) | Op::TakeAll => {
                    let (amount, ctake): (Result<ResourceTakeAmount, StaticResourceMovementsError>, (Option<Conc>, Option<Conc>)) = match &op {
                        Op::TakeAmt(dd) => {
                            let bd = big(dd);
                            let ct = match &conc {
                                Some(Conc::F(a)) => if !bd.is_negative() && &bd <= a { (Some(Conc::F(a - &bd)), Some(Conc::F(bd.clone()))) } else { (None, None) },
                                Some(Conc::N(ids)) => {
                                    let k = &bd / one();
                                    if !bd.is_negative() && (&bd % one()).is_zero() && k <= BigInt::from(ids.len()) {
                                        let k: usize = k.to_string().parse().unwrap();
                                        (Some(Conc::N(ids[k..].to_vec())), Some(Conc::N(ids[..k].to_vec())))
                                    } else {
                                        (None, None)
                                    }
                                }
                                None => (None, None),
                            };
                            (ResourceTakeAmount::exact_amount(*dd), ct)
                        }
                        Op::TakeIds(t) => {
                            let ct = match &conc {
                                Some(Conc::N(ids)) => if t.iter().all(|x| ids.contains(x)) { (Some(Conc::N(ids.iter().cloned().filter(|x| !t.contains(x)).collect())), Some(Conc::N(t.clone()))) } else { (None, None) },
                                _ => (None, None),
                            };
                            (Ok(ResourceTakeAmount::exact_non_fungibles(t.iter().map(|i| NonFungibleLocalId::integer(*i)))), ct)
                        }
                        _ => {
                            let ct = match &conc {
                                Some(Conc::F(a)) => (Some(Conc::F(BigInt::zero())), Some(Conc::F(a.clone()))),
                                Some(Conc::N(ids)) => (Some(Conc::N(vec![])), Some(Conc::N(ids.clone()))),
                                None => (None, None),
                            };
                            (Ok(ResourceTakeAmount::All), ct)
                        }
                    };
                    let taken = match amount.and_then(|a| tr.mut_take_resource(res, a, src)) {
                        Ok(t) => t,
                        Err(e) => {
                            items.push(format!("err {}", show_serr(&e)));
                            break;
                        }
                    };
                    conc = ctake.0;
                    let rem = general_of(&cur_bounds(&tr, &res));
                    let tk = general_of(taken.bounds());
                    items.push(format!("{} {} | {} {}", show_general(&rem), member_impl(&rem, &conc), show_general(&tk), member_impl(&tk, &ctake.1)));
                    check(&format!("op {} take (remaining)", i), "domain-unsound:take-remaining".into(), &rem, &conc, &mut fail);
                    check(&format!("op {} take (taken)", i), "domain-unsound:take-taken".into(), &tk, &ctake.1, &mut fail);
                }
                Op::Assert(c) => {
                    let corner = fungible && matches!(&c, ManifestResourceConstraint::General(g) if is_empty_allowlist_positive_upper(g));
                    let a = match ResourceBounds::new_for_manifest_constraint(&c) {
                        Ok(b) => b,
                        Err(e) => {
                            items.push(format!("err {}", show_serr(&e)));
                            break;
                        }
                    };
                    match tr.handle_resource_assertion(res, a, src) {
                        Err(e) => {
                            items.push(format!("err {}", show_serr(&e)));
                            break;
                        }
                        Ok(()) => {
                            // the run-time assertion: the processor calls validate_fungible / validate_non_fungible on the worktop balance
                            conc = match conc {
                                Some(Conc::F(x)) => if c.clone().validate_fungible(to_dec(&x)).is_ok() { Some(Conc::F(x)) } else { None },
                                Some(Conc::N(ids)) => if c.clone().validate_non_fungible(&to_set(&ids)).is_ok() { Some(Conc::N(ids)) } else { None },
                                None => None,
                            };
                            let b = general_of(&cur_bounds(&tr, &res));
                            items.push(format!("{} {}", show_general(&b), member_impl(&b, &conc)));
                            let key = if corner { "c37-normalize-empty-allowlist:assert-fungible".to_string() } else { "domain-unsound:assert".to_string() };
                            check(&format!("op {} assert", i), key, &b, &conc, &mut fail);
                        }
                    }
                }
            }
        }
        let ans = items.join(" ; ");
        match fail {
            None => Answer::ok(ans),
            Some((k, dsc)) => Answer::fail(ans, k, dsc),
        }
    }
}

impl Runner for R {
    fn step(&mut self, line: &str) -> Answer {
        let t: Vec<&str> = line.split(' ').filter(|x| !x.is_empty()).collect();
        if t.len() < 4 || t[0] != "ch" {
            return Answer::ok("bad-op");
        }
        let fungible = match t[1] { "f" => true, "n" => false, _ => return Answer::ok("bad-op") };
        let start_unknown = match t[2] { "z" => false, "u" => true, _ => return Answer::ok("bad-op") };
        let c0 = match parse_conc(fungible, t[3]) { Some(c) => c, None => return Answer::ok("bad-op") };
        let ops = match parse_ops(fungible, &t[4..]) { Some(o) => o, None => return Answer::ok("bad-op") };
        if !start_unknown {
            let empty = match &c0 { Conc::F(a) => a.is_zero(), Conc::N(i) => i.is_empty() };
            if !empty {
                return Answer::ok("bad-op");
            }
        }
        match catch(|| self.chain(fungible, start_unknown, c0, ops)) {
            Ok(a) => a,
            Err(p) => Answer::fail("panic", "domain-panic", p),
        }
    }
}

// ------------------------------------------------------------------------------------------ domain generator

pub struct A;

const U: i128 = 1_000_000_000_000_000_000;

fn gen_amount(rng: &mut Rng, fungible: bool) -> i128 {
    if fungible {
        match rng.below(8) {
            0 => 0,
            1 => 1,
            2 => U,
            3 => rng.below(5) as i128 * U + rng.below(3) as i128,
            4 => rng.below(1000) as i128,
            _ => rng.below(6) as i128 * U,
        }
    } else {
        match rng.below(8) {
            0 => rng.below(4) as i128 * U + 1, // fractional: invalid for non-fungible use
            _ => rng.below(5) as i128 * U,
        }
    }
}

fn gen_idset(rng: &mut Rng, max: u64) -> Vec<u64> {
    let n = rng.below(max + 1);
    let mut v = vec![];
    for _ in 0..n {
        let x = 1 + rng.below(7);
        if !v.contains(&x) {
            v.push(x);
        }
    }
    v
}
fn ids_s(v: &[u64]) -> String {
    if v.is_empty() { "-".into() } else { v.iter().map(|x| x.to_string()).collect::<Vec<_>>().join(",") }
}

/// a general constraint (mostly valid) and a concrete balance mostly inside it
fn gen_general(rng: &mut Rng, fungible: bool) -> (String, String) {
    if fungible {
        let lo = gen_amount(rng, true);
        let lb = match rng.below(5) { 0 => "nz".to_string(), 1 => "i0".to_string(), _ => format!("i{}", lo) };
        let (ub, hi) = match rng.below(4) {
            0 => ("u".to_string(), lo + gen_amount(rng, true)),
            1 => (format!("i{}", lo), lo),
            _ => {
                let h = lo + gen_amount(rng, true);
                (format!("i{}", h), h)
            }
        };
        let allow = match rng.below(12) { 0 => "l-", 1 => "l1", _ => "any" };
        let req = if rng.chance(1, 15) { "1" } else { "-" };
        let lo_eff = if lb == "nz" { 1 } else if lb == "i0" { 0 } else { lo };
        let c = match rng.below(6) {
            0 => gen_amount(rng, true),
            1 => hi,
            _ => if hi > lo_eff { lo_eff + (rng.below(1000) as i128 % (hi - lo_eff + 1)) } else { lo_eff },
        };
        (format!("{} {} {} {}", req, lb, ub, allow), c.max(0).to_string())
    } else {
        let allow_ids = gen_idset(rng, 5);
        let use_allow = rng.chance(1, 2);
        let req: Vec<u64> = if use_allow && rng.chance(9, 10) { allow_ids.iter().cloned().filter(|_| rng.chance(1, 2)).collect() } else { gen_idset(rng, 3) };
        let rl = req.len() as i128;
        let lo = match rng.below(4) { 0 => 0, 1 => rl, _ => rl + rng.below(2) as i128 };
        let lb = match rng.below(6) { 0 => "nz".to_string(), 1 => format!("i{}", lo * U + 1), _ => format!("i{}", lo * U) };
        let hi = lo.max(rl) + rng.below(3) as i128;
        let ub = match rng.below(4) { 0 => "u".to_string(), _ => format!("i{}", hi * U) };
        let allow = if use_allow { format!("l{}", ids_s(&allow_ids)) } else { "any".to_string() };
        // concrete: required + some more (from the allowlist when there is one)
        let mut c = req.clone();
        let extra = rng.below(3);
        for _ in 0..extra {
            let x = if use_allow && !allow_ids.is_empty() { *rng.pick(&allow_ids) } else { 8 + rng.below(8) };
            if !c.contains(&x) {
                c.push(x);
            }
        }
        (format!("{} {} {} {}", ids_s(&req), lb, ub, allow), ids_s(&c))
    }
}

fn gen_constraint(rng: &mut Rng, fungible: bool) -> String {
    match rng.below(10) {
        0 => "nz".to_string(),
        1 => format!("ex {}", gen_amount(rng, fungible)),
        2 => format!("al {}", gen_amount(rng, fungible)),
        3 => format!("al {}", -(rng.below(3) as i128)),
        4 => format!("exnf {}", ids_s(&gen_idset(rng, 4))),
        5 => format!("alnf {}", ids_s(&gen_idset(rng, 3))),
        _ => format!("gen {}", gen_general(rng, fungible).0),
    }
}

fn gen_chain(rng: &mut Rng) -> String {
    let fungible = rng.chance(1, 2);
    let unknown = rng.chance(1, 3);
    let c0 = if !unknown {
        if fungible { "0".to_string() } else { "-".to_string() }
    } else if fungible {
        gen_amount(rng, true).to_string()
    } else {
        // ids 20.. never collide with generated addends
        ids_s(&(0..rng.below(4)).map(|i| 20 + i).collect::<Vec<_>>())
    };
    let mut s = format!("ch {} {} {}", if fungible { "f" } else { "n" }, if unknown { "u" } else { "z" }, c0);
    let len = 1 + rng.below(7);
    for i in 0..len {
        match rng.below(10) {
            0..=3 => {
                let (g, c) = gen_general(rng, fungible);
                s.push_str(&format!(" add {} {}", g, c));
            }
            4..=5 => s.push_str(&format!(" tka {}", if rng.chance(1, 12) { -1 } else { gen_amount(rng, fungible) })),
            6 => {
                if fungible && rng.chance(4, 5) {
                    s.push_str(&format!(" tka {}", gen_amount(rng, true)));
                } else {
                    s.push_str(&format!(" tki {}", ids_s(&gen_idset(rng, 3))));
                }
            }
            7 => s.push_str(if i > 0 { " tkall" } else { " tka 0" }),
            _ => s.push_str(&format!(" as {}", gen_constraint(rng, fungible))),
        }
    }
    s
}

impl Area for A {
    fn gen(&self, rng: &mut Rng, n: usize, out: &mut dyn Write) {
        for i in 0..n {
            if i % 60 == 59 {
                let bad = ["ch f z 1 tka 0", "ch x z 0", "ch f z 0 add - i0 u any", "ch n z - tki 1,1", "ch f u -1", "ch f z 0 as gen - i0 u", "zz", "ch n u 1,2 add - i0 u any 2x"];
                writeln!(out, "{}", rng.pick(&bad)).unwrap();
            } else {
                writeln!(out, "{}", gen_chain(rng)).unwrap();
            }
        }
    }
    fn runner(&self) -> Box<dyn Runner> {
        Box::new(R)
    }
}

// ========================================================================================== engine area

pub struct E;

struct World {
    sim: DefaultLedgerSimulator,
    pk: Secp256k1PublicKey,
    acc: [ComponentAddress; 3], // A (funded), B, C
    res: [ResourceAddress; 3],  // 0 = XRD, 1 = fungible div 18, 2 = non-fungible (ids 1..=6 in A)
}

fn build_world(c_rejects: bool) -> World {
    let mut sim = LedgerSimulatorBuilder::new().without_kernel_trace().build();
    let (pk, _sk, a) = sim.new_allocated_account();
    let owner = OwnerRole::Fixed(rule!(require(signature(&pk))));
    let b = sim.new_account_advanced(owner.clone());
    let c = sim.new_account_advanced(owner.clone());
    let f = sim.create_fungible_resource(dec!(1000), 18, a);
    let nf = sim.create_non_fungible_resource_advanced(NonFungibleResourceRoles::default(), a, 6);
    if c_rejects {
        let m = ManifestBuilder::new()
            .lock_fee_from_faucet()
            .call_method(c, "set_default_deposit_rule", manifest_args!(DefaultDepositRule::Reject))
            .build();
        sim.execute_manifest(m, vec![NonFungibleGlobalId::from_public_key(&pk)]).expect_commit_success();
    }
    World { sim, pk, acc: [a, b, c], res: [XRD, f, nf] }
}

#[derive(Clone, Debug)]
enum MOp {
    Withdraw(usize, usize, Decimal),     // acc, res (0|1), amount
    WithdrawNf(usize, Vec<u64>),
    Take(usize, Decimal),                // res, amount  (res 2: amount-based NF take)
    TakeAll(usize),
    TakeNf(Vec<u64>),
    Return(u32),
    AssertAny(usize),
    AssertAmt(usize, Decimal),
    AssertNf(Vec<u64>),
    AssertSet(bool, Vec<(usize, ManifestResourceConstraint)>, String), // only?, constraints
    AssertNext(bool, Vec<(usize, ManifestResourceConstraint)>, String),
    AssertBucket(u32, ManifestResourceConstraint, String),
    Deposit(usize, u32),
    DepositBatch(usize),
    TryAbort(usize, u32),
    TryRefund(usize, u32),
    TryRefundBatch(usize),
    Faucet,
}

fn p_dec_units(s: &str) -> Option<Decimal> {
    Decimal::from_str(s).ok()
}

fn parse_mops(line: &str) -> Option<Vec<MOp>> {
    let t: Vec<&str> = line.split(' ').filter(|x| !x.is_empty()).collect();
    if t.first() != Some(&"x") {
        return None;
    }
    let mut v = vec![];
    let mut i = 1;
    let us = |s: &str| -> Option<usize> { s.parse::<usize>().ok() };
    while i < t.len() {
        let rest = &t[i..];
        let parse_set = |rest: &[&str]| -> Option<(Vec<(usize, ManifestResourceConstraint)>, usize, String)> {
            // <k> {<res> <c>}^k
            let k = us(rest.get(0)?)?;
            let mut cur = &rest[1..];
            let mut out = vec![];
            let mut used = 1;
            let mut txt = String::new();
            for _ in 0..k {
                let r = us(cur.get(0)?)?;
                if r > 2 {
                    return None;
                }
                let (c, after) = parse_c(&cur[1..])?;
                let n = cur.len() - after.len();
                txt.push_str(&cur[..n].join(" "));
                txt.push(' ');
                used += n;
                cur = after;
                out.push((r, c));
            }
            Some((out, used, txt))
        };
        let (op, n): (MOp, usize) = match rest[0] {
            "w" => (MOp::Withdraw(us(rest.get(1)?)?, us(rest.get(2)?)?, p_dec_units(rest.get(3)?)?), 4),
            "wn" => (MOp::WithdrawNf(us(rest.get(1)?)?, parse_ids(rest.get(2)?)?), 3),
            "t" => (MOp::Take(us(rest.get(1)?)?, p_dec_units(rest.get(2)?)?), 3),
            "ta" => (MOp::TakeAll(us(rest.get(1)?)?), 2),
            "tn" => (MOp::TakeNf(parse_ids(rest.get(1)?)?), 2),
            "r" => (MOp::Return(us(rest.get(1)?)? as u32), 2),
            "aany" => (MOp::AssertAny(us(rest.get(1)?)?), 2),
            "aamt" => (MOp::AssertAmt(us(rest.get(1)?)?, p_dec_units(rest.get(2)?)?), 3),
            "anf" => (MOp::AssertNf(parse_ids(rest.get(1)?)?), 2),
            "aonly" | "aincl" => {
                let (cs, used, txt) = parse_set(&rest[1..])?;
                (MOp::AssertSet(rest[0] == "aonly", cs, txt), 1 + used)
            }
            "nonly" | "nincl" => {
                let (cs, used, txt) = parse_set(&rest[1..])?;
                (MOp::AssertNext(rest[0] == "nonly", cs, txt), 1 + used)
            }
            "ab" => {
                let b = us(rest.get(1)?)? as u32;
                let (c, after) = parse_c(&rest[2..])?;
                let used = rest.len() - after.len();
                (MOp::AssertBucket(b, c, rest[2..used].join(" ")), used)
            }
            "d" => (MOp::Deposit(us(rest.get(1)?)?, us(rest.get(2)?)? as u32), 3),
            "db" => (MOp::DepositBatch(us(rest.get(1)?)?), 2),
            "tda" => (MOp::TryAbort(us(rest.get(1)?)?, us(rest.get(2)?)? as u32), 3),
            "tdr" => (MOp::TryRefund(us(rest.get(1)?)?, us(rest.get(2)?)? as u32), 3),
            "tdrb" => (MOp::TryRefundBatch(us(rest.get(1)?)?), 2),
            "fau" => (MOp::Faucet, 1),
            _ => return None,
        };
        // index sanity
        match &op {
            MOp::Withdraw(a, r, _) if *a > 2 || *r > 1 => return None,
            MOp::WithdrawNf(a, _) | MOp::Deposit(a, _) | MOp::DepositBatch(a) | MOp::TryAbort(a, _) | MOp::TryRefund(a, _) | MOp::TryRefundBatch(a) if *a > 2 => return None,
            MOp::Take(r, _) | MOp::TakeAll(r) | MOp::AssertAny(r) | MOp::AssertAmt(r, _) if *r > 2 => return None,
            _ => {}
        }
        v.push(op);
        i += n;
    }
    Some(v)
}

fn build_manifest(w: &World, ops: &[MOp]) -> TransactionManifestV2 {
    use InstructionV2 as I;
    let call = |acc: usize, m: &str, args: ManifestValue| I::CallMethod(CallMethod { address: ManifestGlobalAddress::Static(w.acc[acc].into()), method_name: m.to_string(), args });
    let mut ins = vec![call(0, "lock_fee", manifest_args!(dec!(500)).into())];
    let set_of = |cs: &Vec<(usize, ManifestResourceConstraint)>| {
        let mut s = ManifestResourceConstraints::new();
        for (r, c) in cs {
            if !s.specified_resources().contains_key(&w.res[*r]) {
                s = s.with_unchecked(w.res[*r], c.clone());
            }
        }
        s
    };
    let none_badge: Option<ResourceOrNonFungible> = None;
    for op in ops {
        ins.push(match op {
            MOp::Withdraw(a, r, amt) => call(*a, "withdraw", manifest_args!(w.res[*r], *amt).into()),
            MOp::WithdrawNf(a, ids) => call(*a, "withdraw_non_fungibles", manifest_args!(w.res[2], to_set(ids)).into()),
            MOp::Take(r, amt) => I::TakeFromWorktop(TakeFromWorktop { resource_address: w.res[*r], amount: *amt }),
            MOp::TakeAll(r) => I::TakeAllFromWorktop(TakeAllFromWorktop { resource_address: w.res[*r] }),
            MOp::TakeNf(ids) => I::TakeNonFungiblesFromWorktop(TakeNonFungiblesFromWorktop { resource_address: w.res[2], ids: ids.iter().map(|i| NonFungibleLocalId::integer(*i)).collect() }),
            MOp::Return(b) => I::ReturnToWorktop(ReturnToWorktop { bucket_id: ManifestBucket(*b) }),
            MOp::AssertAny(r) => I::AssertWorktopContainsAny(AssertWorktopContainsAny { resource_address: w.res[*r] }),
            MOp::AssertAmt(r, amt) => I::AssertWorktopContains(AssertWorktopContains { resource_address: w.res[*r], amount: *amt }),
            MOp::AssertNf(ids) => I::AssertWorktopContainsNonFungibles(AssertWorktopContainsNonFungibles { resource_address: w.res[2], ids: ids.iter().map(|i| NonFungibleLocalId::integer(*i)).collect() }),
            MOp::AssertSet(only, cs, _) => {
                if *only {
                    I::AssertWorktopResourcesOnly(AssertWorktopResourcesOnly { constraints: set_of(cs) })
                } else {
                    I::AssertWorktopResourcesInclude(AssertWorktopResourcesInclude { constraints: set_of(cs) })
                }
            }
            MOp::AssertNext(only, cs, _) => {
                if *only {
                    I::AssertNextCallReturnsOnly(AssertNextCallReturnsOnly { constraints: set_of(cs) })
                } else {
                    I::AssertNextCallReturnsInclude(AssertNextCallReturnsInclude { constraints: set_of(cs) })
                }
            }
            MOp::AssertBucket(b, c, _) => I::AssertBucketContents(AssertBucketContents { bucket_id: ManifestBucket(*b), constraint: c.clone() }),
            MOp::Deposit(a, b) => call(*a, "deposit", manifest_args!(ManifestBucket(*b)).into()),
            MOp::DepositBatch(a) => call(*a, "deposit_batch", manifest_args!(ManifestExpression::EntireWorktop).into()),
            MOp::TryAbort(a, b) => call(*a, "try_deposit_or_abort", manifest_args!(ManifestBucket(*b), none_badge.clone()).into()),
            MOp::TryRefund(a, b) => call(*a, "try_deposit_or_refund", manifest_args!(ManifestBucket(*b), none_badge.clone()).into()),
            MOp::TryRefundBatch(a) => call(*a, "try_deposit_batch_or_refund", manifest_args!(ManifestExpression::EntireWorktop, none_badge.clone()).into()),
            MOp::Faucet => I::CallMethod(CallMethod { address: ManifestGlobalAddress::Static(FAUCET.into()), method_name: "free".into(), args: manifest_args!().into() }),
        });
    }
    TransactionManifestV2 { instructions: ins, blobs: Default::default(), children: Default::default(), object_names: Default::default() }
}

fn has_empty_allowlist_corner(w: &World, ops: &[MOp]) -> bool {
    let chk = |r: usize, c: &ManifestResourceConstraint| w.res[r].is_fungible() && matches!(c, ManifestResourceConstraint::General(g) if is_empty_allowlist_positive_upper(g));
    ops.iter().any(|op| match op {
        MOp::AssertSet(_, cs, _) | MOp::AssertNext(_, cs, _) => cs.iter().any(|(r, c)| chk(*r, c)),
        // the bucket's resource is not known here: any general/empty-allowlist bucket assertion counts
        MOp::AssertBucket(_, c, _) => matches!(c, ManifestResourceConstraint::General(g) if is_empty_allowlist_positive_upper(g)),
        _ => false,
    })
}

struct ER {
    worlds: Vec<World>,
}

fn bounds_of(tr: &TrackedResources, res: &ResourceAddress) -> ResourceBounds {
    match tr.specified_resources().get(res) {
        Some(t) => t.bounds().clone(),
        None => tr.unspecified_resources().resource_bounds(),
    }
}

fn numeric_ok(b: &ResourceBounds, amount: &Decimal) -> bool {
    let a = big(amount);
    lower_sat(&b.lower_bound(), &a) && upper_sat(&b.upper_bound(), &a)
}

const DEPOSITS: [&str; 6] = ["deposit", "deposit_batch", "try_deposit_or_abort", "try_deposit_batch_or_abort", "try_deposit_or_refund", "try_deposit_batch_or_refund"];
const WITHDRAWS: [&str; 4] = ["withdraw", "lock_fee_and_withdraw", "withdraw_non_fungibles", "lock_fee_and_withdraw_non_fungibles"];

impl Runner for ER {
    fn step(&mut self, line: &str) -> Answer {
        let ops = match parse_mops(line) {
            Some(o) => o,
            None => return Answer::ok("bad-op"),
        };
        if self.worlds.is_empty() {
            self.worlds.push(build_world(true));
            self.worlds.push(build_world(false));
        }
        let mut parts: Vec<String> = vec![];
        let mut fail: Option<(String, String)> = None;
        for (wi, w) in self.worlds.iter_mut().enumerate() {
            let manifest = build_manifest(w, &ops);
            // ---- the real analyser
            let analysed = catch(|| {
                let interpreter = StaticManifestInterpreter::new(ValidationRuleset::all(), &manifest);
                let mut visitor = StaticResourceMovementsVisitor::new(false);
                interpreter.validate_and_apply_visitor(&mut visitor)?;
                let output = visitor.output();
                let changes = output.resolve_account_changes()?;
                Ok::<_, StaticResourceMovementsError>((output, changes))
            });
            let (output, (net_w, net_d)) = match analysed {
                Err(p) => {
                    if fail.is_none() {
                        fail = Some(("analyser-panic".into(), p));
                    }
                    parts.push("panic".into());
                    continue;
                }
                Ok(Err(e)) => {
                    parts.push(format!("rejected:{}", show_serr(&e)));
                    continue;
                }
                Ok(Ok(x)) => x,
            };
            // ---- execution (never committed)
            let nonce = w.sim.next_transaction_nonce();
            let proofs: BTreeSet<NonFungibleGlobalId> = [NonFungibleGlobalId::from_public_key(&w.pk)].into_iter().collect();
            let tx = TestTransaction::new_v2_builder(nonce).finish_with_root_intent(manifest, proofs);
            let mut cfg = ExecutionConfig::for_test_transaction();
            cfg.execution_trace = Some(MAX_EXECUTION_TRACE_DEPTH);
            let receipt = w.sim.execute_transaction_no_commit(tx, cfg);
            let commit = match &receipt.result {
                TransactionResult::Commit(c) if matches!(c.outcome, TransactionOutcome::Success(_)) => c,
                TransactionResult::Commit(_) => {
                    parts.push("accepted:exec-failed".into());
                    continue;
                }
                _ => {
                    parts.push("accepted:exec-rejected".into());
                    continue;
                }
            };
            parts.push("accepted:success".into());
            let trace = match &commit.execution_trace {
                Some(t) => t,
                None => {
                    if fail.is_none() {
                        fail = Some(("no-execution-trace".into(), "execution trace missing".into()));
                    }
                    continue;
                }
            };
            // actual change per (instruction, account, resource)
            let mut actual: BTreeMap<(usize, ComponentAddress, ResourceAddress), Decimal> = BTreeMap::new();
            for (idx, changes) in trace.resource_changes.iter() {
                for ch in changes {
                    if let Ok(acc) = ComponentAddress::try_from(ch.node_id.0.as_slice()) {
                        let e = actual.entry((*idx, acc, ch.resource_address)).or_insert(Decimal::ZERO);
                        *e = e.checked_add(ch.amount).unwrap();
                    }
                }
            }
            let corner = has_empty_allowlist_corner(w, &ops);
            let mut total_dep: BTreeMap<(ComponentAddress, ResourceAddress), Decimal> = BTreeMap::new();
            let mut total_wd: BTreeMap<(ComponentAddress, ResourceAddress), Decimal> = BTreeMap::new();
            for (idx, info) in output.invocation_static_information.iter() {
                let Some((acc, method)) = info.as_account_method() else { continue };
                let is_dep = DEPOSITS.contains(&method);
                let is_wd = WITHDRAWS.contains(&method);
                if !is_dep && !is_wd {
                    continue;
                }
                let refund_method = method.contains("refund");
                // every resource of the world plus anything that actually moved
                let mut resources: BTreeSet<ResourceAddress> = w.res.iter().cloned().collect();
                for ((i, a, r), _) in actual.iter() {
                    if i == idx && *a == acc {
                        resources.insert(*r);
                    }
                }
                for r in resources {
                    let delta = actual.get(&(*idx, acc, r)).cloned().unwrap_or(Decimal::ZERO);
                    if r == XRD && *idx == 0 {
                        continue; // lock_fee
                    }
                    let (moved, tracked) = if is_dep { (delta, &info.input) } else { (-delta, &info.output) };
                    if is_dep {
                        *total_dep.entry((acc, r)).or_insert(Decimal::ZERO) += moved;
                    } else {
                        *total_wd.entry((acc, r)).or_insert(Decimal::ZERO) += moved;
                    }
                    let b = bounds_of(tracked, &r);
                    if !numeric_ok(&b, &moved) && fail.is_none() {
                        let rname = w.res.iter().position(|x| *x == r).map(|i| i.to_string()).unwrap_or("?".into());
                        let key = if corner {
                            "c37-normalize-empty-allowlist:engine".to_string()
                        } else if refund_method && moved.is_zero() {
                            "try-deposit-or-refund-reported-as-deposit".to_string()
                        } else {
                            format!("engine-bounds-violated:{}", method)
                        };
                        fail = Some((key, format!("world {} instruction {} {}({}): resource {} actually moved {} but the analyser reports {} ({})", wi, idx, method, w.acc.iter().position(|x| *x == acc).unwrap_or(9), rname, moved, show_general(&general_of(&b)), line)));
                    }
                }
            }
            // aggregated per-account bounds
            for ((acc, r), moved) in total_dep.iter() {
                // the aggregated view cancels known non-fungible ids that are withdrawn and deposited back
                // (`AggregatedBalanceChange::revise`), so gross totals are only comparable for fungibles
                if !r.is_fungible() {
                    continue;
                }
                let b = match net_d.get(acc) {
                    Some(nd) => nd.bounds_for(*r),
                    None => ResourceBounds::zero(),
                };
                if !numeric_ok(&b, moved) && fail.is_none() {
                    let key = if corner { "c37-normalize-empty-allowlist:engine-net".to_string() } else { "engine-net-deposit-bounds-violated".to_string() };
                    fail = Some((key, format!("world {}: account {} resource total deposited {} outside net bounds {} ({})", wi, w.acc.iter().position(|x| x == acc).unwrap_or(9), moved, show_general(&general_of(&b)), line)));
                }
            }
            // per-account withdraw list: the reported amounts / id counts must add up to what left the account
            let wds = output.resolve_account_withdraws();
            for ((acc, r), moved) in total_wd.iter() {
                let mut reported = Decimal::ZERO;
                if let Some(list) = wds.get(acc) {
                    for wd in list {
                        match wd {
                            AccountWithdraw::Amount(rr, amt) if rr == r => reported += *amt,
                            AccountWithdraw::Ids(rr, ids) if rr == r => reported += Decimal::from(ids.len()),
                            _ => {}
                        }
                    }
                }
                if reported != *moved && fail.is_none() {
                    fail = Some(("engine-withdraw-mismatch".into(), format!("world {}: account {} withdrew {} in total but the analyser reports {} ({})", wi, w.acc.iter().position(|x| x == acc).unwrap_or(9), moved, reported, line)));
                }
            }
            let _ = &net_w;
        }
        let ans = parts.join(" ");
        match fail {
            None => Answer::ok(ans),
            Some((k, dsc)) => Answer::fail(ans, k, dsc),
        }
    }
}

// ------------------------------------------------------------------------------------------ engine generator

fn units(rng: &mut Rng) -> String {
    match rng.below(6) {
        0 => "1".into(),
        1 => "2.5".into(),
        2 => "10".into(),
        3 => "0.000000000000000001".into(),
        4 => "7".into(),
        _ => format!("{}", 1 + rng.below(20)),
    }
}

fn gen_econstraint(rng: &mut Rng, res: usize, corner_ok: bool) -> String {
    if res == 2 {
        match rng.below(6) {
            0 => "nz".into(),
            1 => format!("al {}", (rng.below(3) as i128) * U),
            2 => format!("alnf {}", ids_s(&gen_idset(rng, 2).into_iter().map(|x| 1 + x % 6).collect::<BTreeSet<_>>().into_iter().collect::<Vec<_>>())),
            3 => format!("gen - i0 i{} any", (1 + rng.below(6) as i128) * U),
            4 => "gen - i0 u l1,2,3,4,5,6".to_string(),
            _ => format!("gen - i{} u any", (rng.below(3) as i128) * U),
        }
    } else {
        match rng.below(8) {
            0 => "nz".into(),
            1 => format!("al {}", (rng.below(5) as i128) * U),
            2 => format!("gen - i0 i{} any", (5 + rng.below(30) as i128) * U),
            3 => format!("gen - i{} u any", (rng.below(4) as i128) * U),
            4 => "gen - nz u any".into(),
            // the C37 corner: empty allowlist with a positive / unbounded upper bound on a fungible resource
            5 if corner_ok => "gen - i0 u l-".into(),
            6 if corner_ok => format!("gen - i0 i{} l-", (1 + rng.below(50) as i128) * U),
            _ => format!("al {}", (rng.below(3) as i128) * U),
        }
    }
}

fn gen_ecase(rng: &mut Rng) -> String {
    let mut s = String::from("x");
    let mut nb = 0u32;
    let mut live: Vec<u32> = vec![];
    let mut on_worktop = [false; 3];
    let corner_ok = rng.chance(1, 4);
    let nw = 1 + rng.below(3);
    let mut nf_taken: Vec<u64> = vec![];
    for _ in 0..nw {
        match rng.below(5) {
            0 | 1 => {
                s.push_str(&format!(" w 0 0 {}", units(rng)));
                on_worktop[0] = true;
            }
            2 => {
                s.push_str(&format!(" w 0 1 {}", units(rng)));
                on_worktop[1] = true;
            }
            3 => {
                let ids: Vec<u64> = (1..=6u64).filter(|i| !nf_taken.contains(i) && rng.chance(1, 3)).collect();
                if !ids.is_empty() {
                    nf_taken.extend(ids.iter());
                    s.push_str(&format!(" wn 0 {}", ids_s(&ids)));
                    on_worktop[2] = true;
                }
            }
            _ => {
                if rng.chance(1, 2) {
                    if rng.chance(1, 3) {
                        let k = *rng.pick(&["nonly", "nincl"]);
                        let c = gen_econstraint(rng, 0, corner_ok);
                        s.push_str(&format!(" {} 1 0 {}", k, c));
                    }
                    s.push_str(" fau");
                    on_worktop[0] = true;
                }
            }
        }
    }
    let steps = rng.below(7);
    for _ in 0..steps {
        let avail: Vec<usize> = (0..3).filter(|r| on_worktop[*r]).collect();
        match rng.below(14) {
            0..=2 if !avail.is_empty() => {
                let r = *rng.pick(&avail);
                if r == 2 && rng.chance(1, 2) && !nf_taken.is_empty() {
                    let ids: Vec<u64> = nf_taken.iter().cloned().filter(|_| rng.chance(1, 2)).collect();
                    s.push_str(&format!(" tn {}", ids_s(&ids)));
                } else if rng.chance(1, 2) {
                    s.push_str(&format!(" ta {}", r));
                    on_worktop[r] = false;
                } else {
                    s.push_str(&format!(" t {} {}", r, if r == 2 { "1".to_string() } else { units(rng) }));
                }
                live.push(nb);
                nb += 1;
            }
            3 if !live.is_empty() => {
                let b = *rng.pick(&live);
                live.retain(|x| *x != b);
                s.push_str(&format!(" r {}", b));
            }
            4 if !avail.is_empty() => {
                let r = *rng.pick(&avail);
                match rng.below(3) {
                    0 => s.push_str(&format!(" aany {}", r)),
                    1 => s.push_str(&format!(" aamt {} {}", r, if r == 2 { "1".to_string() } else { units(rng) })),
                    _ => {
                        if r == 2 && !nf_taken.is_empty() {
                            s.push_str(&format!(" anf {}", ids_s(&nf_taken[..1])));
                        } else {
                            s.push_str(&format!(" aany {}", r));
                        }
                    }
                }
            }
            5 | 6 => {
                let r = if avail.is_empty() { rng.below(3) as usize } else { *rng.pick(&avail) };
                let k = *rng.pick(&["aincl", "aincl", "aonly"]);
                let c = gen_econstraint(rng, r, corner_ok);
                s.push_str(&format!(" {} 1 {} {}", k, r, c));
            }
            7 if !live.is_empty() => {
                let b = *rng.pick(&live);
                let rr = rng.below(2) as usize;
                let c = gen_econstraint(rng, rr, corner_ok);
                s.push_str(&format!(" ab {} {}", b, c));
            }
            8..=10 if !live.is_empty() => {
                let b = *rng.pick(&live);
                live.retain(|x| *x != b);
                let acc = 1 + rng.below(2);
                let k = *rng.pick(&["d", "tda", "tdr", "tdr"]);
                s.push_str(&format!(" {} {} {}", k, acc, b));
            }
            11 => {
                let acc = 1 + rng.below(2);
                let k = *rng.pick(&["db", "tdrb"]);
                s.push_str(&format!(" {} {}", k, acc));
                if rng.chance(1, 2) {
                    on_worktop = [false; 3];
                }
            }
            _ => {}
        }
    }
    for b in live {
        let k = *rng.pick(&["d", "tdr", "d"]);
        let acc = rng.below(3);
        s.push_str(&format!(" {} {} {}", k, acc, b));
    }
    s.push_str(" db 0");
    s
}

impl Area for E {
    fn gen(&self, rng: &mut Rng, n: usize, out: &mut dyn Write) {
        for _ in 0..n {
            writeln!(out, "{}", gen_ecase(rng)).unwrap();
        }
    }
    fn runner(&self) -> Box<dyn Runner> {
        Box::new(ER { worlds: vec![] })
    }
}

fn main() {
    main_with(&[("c38", &A), ("c38e", &E)]);
}
