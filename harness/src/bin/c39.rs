//! C39 — account deposit rules are enforced exactly.
//!   area `c39`: engine level. A real (virtual / pre-allocated) account `A` on the `LedgerSimulator`;
//!   every op line is ONE real transaction: an owner configuration call (default deposit rule,
//!   resource preference, authorized depositor), an owner deposit / withdrawal (resource history), or a
//!   guarded deposit `try_deposit[_batch]_or_{refund,abort}` made by a *stranger* (source account `S`,
//!   never `A`'s owner key) with a chosen set of proofs in the auth zone. Whatever is left on the
//!   worktop afterwards (the returned buckets) is deposited back into `S`, so the returned amounts are
//!   observable as balance differences. Two ledgers: `latest` (all protocol updates) and `babylon`
//!   (genesis up to anemone: the `..._or_refund` exports still run the v1 code).
//!   Answer = outcome class + the account's Deposit/RejectedDeposit events + returned value shape and
//!   amounts + the account's full state read back from the substate database; compared with the Lean
//!   model. The property oracle judges the same observations by the property statement evaluated on
//!   the *observed pre-state* (independent of the model).
use harness::util::*;
use radix_common::prelude::*;
use radix_engine::blueprints::account::*;
use radix_engine::errors::*;
use radix_engine::system::system_db_reader::*;
use radix_engine::transaction::*;
use radix_engine::updates::ProtocolVersion;
use radix_engine::blueprints::package::*;
use radix_engine_interface::blueprints::account::*;
use radix_engine_interface::prelude::*;
use radix_transactions::prelude::*;
use scrypto_test::prelude::*;
use std::io::Write;

const NR: usize = 5; // resources 0..4: 0 = XRD, 1..3 fungible, 4 non-fungible
const NG: usize = 5; // badges 0..4
const MAXAMT: u64 = 1000;

pub struct A;

// ---------------------------------------------------------------- generator

fn gen_buckets(rng: &mut Rng, len: usize) -> String {
    if len == 0 {
        return "-".into();
    }
    // sometimes a batch over one or two resources only (duplicates), sometimes spread
    let pool: Vec<u64> = match rng.below(4) {
        0 => vec![rng.below(NR as u64)],
        1 => vec![rng.below(NR as u64), rng.below(NR as u64)],
        _ => (0..NR as u64).collect(),
    };
    (0..len)
        .map(|_| {
            let r = *rng.pick(&pool);
            let a = if rng.chance(1, 8) { 0 } else { 1 + rng.below(4) };
            format!("{}:{}", r, a)
        })
        .collect::<Vec<_>>()
        .join(",")
}

impl Area for A {
    fn gen(&self, rng: &mut Rng, n: usize, out: &mut dyn Write) {
        for case in 0..n {
            // malformed stream: one case in 25
            if case % 25 == 24 {
                writeln!(out, "reset latest").unwrap();
                let bad = [
                    "rule q", "rule", "pref 9 a", "pref 1 x", "pref a a", "dep 7 +", "dep 1 *", "odep 1:1,9:2", "odep 1:",
                    "wd 9 1", "wd 1", "wd 1 1001", "try r - 0 1:1,2:2", "try a - 0 -", "try x - 0 1:1", "try br 9 0 1:1",
                    "try br - 16 1:1", "try br - 0 1:1001", "try ba - 0 1;1", "try", "reset", "reset foo", "hello", "try r 0 0 5:1", "!rule q", "!try r - 0 1:1", "!odep 9:1", "!",
                ];
                for _ in 0..4 {
                    writeln!(out, "{}", rng.pick(&bad)).unwrap();
                }
                writeln!(out, "try br - 0 1:1,2:2").unwrap();
                continue;
            }
            writeln!(out, "reset {}", if rng.chance(1, 4) { "babylon" } else { "latest" }).unwrap();
            let len = 4 + rng.below(10);
            let mut listed = [false; NG];
            let mut used: Vec<u64> = vec![]; // resources that appeared in earlier deposits of this case
            // most cases leave the default rule Accept early
            if rng.chance(4, 5) {
                writeln!(out, "rule {}", rng.pick(&["r", "e", "e"])).unwrap();
            }
            for _ in 0..len {
                match rng.below(21) {
                    20 => {
                        let l = match rng.below(5) {
                            0 => format!("!rule {}", rng.pick(&["a", "r", "e"])),
                            1 => format!("!pref {} {}", rng.below(NR as u64), rng.pick(&["a", "d", "n"])),
                            2 => format!("!dep {} {}", rng.below(NG as u64), rng.pick(&["+", "-"])),
                            3 => {
                                let l = 1 + rng.below(2) as usize;
                                format!("!odep {}", gen_buckets(rng, l))
                            }
                            _ => format!("!wd {} {}", if !used.is_empty() { *rng.pick(&used) } else { 0 }, rng.below(3)),
                        };
                        writeln!(out, "{}", l).unwrap()
                    }
                    0..=1 => writeln!(out, "rule {}", rng.pick(&["a", "r", "e", "e"])).unwrap(),
                    2..=4 => writeln!(out, "pref {} {}", rng.below(NR as u64), rng.pick(&["a", "d", "d", "n"])).unwrap(),
                    5..=7 => {
                        let g = rng.below(NG as u64) as usize;
                        let add = rng.chance(3, 4);
                        listed[g] = add;
                        writeln!(out, "dep {} {}", g, if add { "+" } else { "-" }).unwrap()
                    }
                    8 => {
                        let l = 1 + rng.below(3) as usize;
                        let bs = gen_buckets(rng, l);
                        used.extend(bs.split(',').filter_map(|w| w.split(':').next().and_then(|r| r.parse::<u64>().ok())));
                        writeln!(out, "odep {}", bs).unwrap()
                    }
                    9 => {
                        let r = if !used.is_empty() && rng.chance(4, 5) { *rng.pick(&used) } else { rng.below(NR as u64) };
                        writeln!(out, "wd {} {}", r, *rng.pick(&[0u64, 1, 1, 2, 3, 5, 9])).unwrap()
                    }
                    _ => {
                        let v = *rng.pick(&["r", "br", "br", "a", "ba", "ba"]);
                        let badge: Option<usize> = if rng.chance(1, 3) {
                            None
                        } else if rng.chance(2, 3) && listed.iter().any(|x| *x) {
                            let ls: Vec<usize> = (0..NG).filter(|g| listed[*g]).collect();
                            Some(*rng.pick(&ls))
                        } else {
                            Some(rng.below(NG as u64) as usize)
                        };
                        let mut mask = match rng.below(4) {
                            0 => 0,
                            1 => rng.below(16),
                            _ => match badge {
                                Some(0) => 1,
                                Some(1) => *rng.pick(&[2u64, 4, 6]),
                                Some(2) => 2,
                                Some(3) => 4,
                                Some(4) => 8,
                                _ => rng.below(16),
                            },
                        };
                        if rng.chance(1, 6) {
                            mask ^= 1 << rng.below(4); // a proof of another badge / the proof missing
                        }
                        let len = if v == "r" || v == "a" { 1 } else { *rng.pick(&[0usize, 1, 2, 2, 3, 3, 4, 6]) };
                        let b = badge.map(|g| g.to_string()).unwrap_or("-".into());
                        let bs = gen_buckets(rng, len);
                        used.extend(bs.split(',').filter_map(|w| w.split(':').next().and_then(|r| r.parse::<u64>().ok())));
                        writeln!(out, "try {} {} {} {}", v, b, mask, bs).unwrap()
                    }
                }
            }
        }
    }
    fn runner(&self) -> Box<dyn Runner> {
        Box::new(R { worlds: [None, None], cur: 0, obs: None })
    }
    /// Declarative facts of the Account blueprint as the CURRENT tree installs them on a ledger with all protocol
    /// updates applied (read back from the package substates of a freshly bootstrapped ledger):
    /// the method -> accessibility table and the native code id behind the deposit exports.
    fn consts(&self) -> Vec<(String, String)> {
        let ledger = LedgerSimulatorBuilder::new().build();
        let reader = SystemDatabaseReader::new(ledger.substate_db());
        let code = |name: &str| METHODS.iter().position(|m| *m == name).unwrap_or(999);
        let key = BlueprintVersionKey { blueprint: ACCOUNT_BLUEPRINT.to_string(), version: Default::default() };
        let auth = reader
            .read_object_collection_entry::<_, PackageBlueprintVersionAuthConfigEntryPayload>(
                ACCOUNT_PACKAGE.as_node_id(),
                ModuleId::Main,
                ObjectCollectionKey::KeyValue(PackageCollection::BlueprintVersionAuthConfigKeyValue.collection_index(), &key),
            )
            .unwrap()
            .unwrap()
            .fully_update_and_into_latest_version();
        let mut rows: Vec<(usize, u64)> = vec![];
        match &auth.method_auth {
            MethodAuthTemplate::StaticRoleDefinition(sd) => {
                for (k, v) in sd.methods.iter() {
                    let acc = match v {
                        MethodAccessibility::Public => 0,
                        MethodAccessibility::RoleProtected(l) if l.list.len() == 1 && l.list[0].key == OWNER_ROLE => 1,
                        _ => 2,
                    };
                    rows.push((code(k.ident.as_str()), acc));
                }
            }
            MethodAuthTemplate::AllowAll => rows.push((998, 0)),
        }
        rows.sort();
        let def = reader.get_blueprint_definition(&BlueprintId::new(&ACCOUNT_PACKAGE, ACCOUNT_BLUEPRINT)).unwrap();
        let mut exports: Vec<(usize, u64)> = vec![];
        for m in &METHODS[0..6] {
            let id = match def.function_exports.get(*m) {
                Some(e) => [NativeCodeId::AccountCode1 as u64, NativeCodeId::AccountCode2 as u64, NativeCodeId::AccountCode3 as u64]
                    .into_iter()
                    .find(|c| CodeHash::from_hash(hash(c.to_be_bytes())) == e.code_hash)
                    .unwrap_or(0),
                None => 999,
            };
            exports.push((code(m), id));
        }
        let show = |v: &[(usize, u64)]| format!("[{}]", v.iter().map(|(a, b)| format!("({}, {})", a, b)).collect::<Vec<_>>().join(", "));
        vec![
            ("methodNames".into(), format!("[{}]\traw\tList String", METHODS.iter().map(|m| format!("{:?}", m)).collect::<Vec<_>>().join(", "))),
            ("methodAuth".into(), format!("{}\traw\tList (Nat × Nat)", show(&rows))),
            ("exportCode".into(), format!("{}\traw\tList (Nat × Nat)", show(&exports))),
            ("accountCode1".into(), format!("{}", NativeCodeId::AccountCode1 as u64)),
            ("accountCode2".into(), format!("{}", NativeCodeId::AccountCode2 as u64)),
        ]
    }
}

/// account method names; index = method code in `Generated/C39.lean` (`methodAuth`, `exportCode`)
const METHODS: [&str; 25] = [
    "try_deposit_or_refund",
    "try_deposit_batch_or_refund",
    "try_deposit_or_abort",
    "try_deposit_batch_or_abort",
    "deposit",
    "deposit_batch",
    "set_default_deposit_rule",
    "set_resource_preference",
    "remove_resource_preference",
    "add_authorized_depositor",
    "remove_authorized_depositor",
    "withdraw",
    "withdraw_non_fungibles",
    "lock_fee",
    "lock_contingent_fee",
    "lock_fee_and_withdraw",
    "lock_fee_and_withdraw_non_fungibles",
    "create_proof_of_amount",
    "create_proof_of_non_fungibles",
    "burn",
    "burn_non_fungibles",
    "securify",
    "balance",
    "non_fungible_local_ids",
    "has_non_fungible",
];

// ---------------------------------------------------------------- runner

struct World {
    babylon: bool,
    ledger: DefaultLedgerSimulator,
    snapshot: LedgerSimulatorSnapshot,
    pk_s: Secp256k1PublicKey,
    s: ComponentAddress,
    pk_a: Secp256k1PublicKey,
    a: ComponentAddress,
    pk_x: Secp256k1PublicKey,
    z: ComponentAddress,
    res: [ResourceAddress; NR],
    bf: ResourceAddress,
    bnf: ResourceAddress,
    badges: [ResourceOrNonFungible; NG],
}

#[derive(Clone, PartialEq, Debug)]
struct Obs {
    rule: char,
    prefs: [char; NR],
    deps: [bool; NG],
    vaults: [Option<u64>; NR],
    /// number of entries (with a value) in the three collections — catches entries outside the universe
    n_prefs: usize,
    n_deps: usize,
    n_vaults: usize,
    s_bal: [u64; NR],
    z_bal: [u64; NR],
}

struct R {
    worlds: [Option<World>; 2],
    cur: usize,
    obs: Option<Obs>,
}

fn units(d: Decimal) -> u64 {
    d.to_string().parse::<u64>().unwrap_or(u64::MAX)
}

fn proven_tbl(mask: u64, g: usize) -> bool {
    match g {
        0 => mask & 1 != 0,
        1 => mask & 2 != 0 || mask & 4 != 0,
        2 => mask & 2 != 0,
        3 => mask & 4 != 0,
        4 => mask & 8 != 0,
        _ => false,
    }
}

impl World {
    fn new(babylon: bool) -> World {
        let mut ledger = if babylon {
            LedgerSimulatorBuilder::new().with_custom_protocol(|b| b.from_bootstrap_to(ProtocolVersion::Anemone)).build()
        } else {
            LedgerSimulatorBuilder::new().build()
        };
        let (pk_s, _, s) = ledger.new_account(false);
        let (_, _, z) = ledger.new_account(false);
        let (pk_a, _) = ledger.new_key_pair();
        let (pk_x, _) = ledger.new_key_pair();
        let a = ComponentAddress::preallocated_account_from_public_key(&pk_a);
        let r1 = ledger.create_fungible_resource(100000.into(), 18, s);
        let r2 = ledger.create_fungible_resource(100000.into(), 18, s);
        let r3 = ledger.create_fungible_resource(100000.into(), 0, s);
        let r4 = ledger.create_non_fungible_resource_advanced(NonFungibleResourceRoles::default(), s, 120);
        let bf = ledger.create_fungible_resource(10.into(), 0, s);
        let bnf = ledger.create_non_fungible_resource(s);
        // the bystander holds something of r1
        let m = ManifestBuilder::new()
            .lock_fee_from_faucet()
            .withdraw_from_account(s, r1, 7)
            .try_deposit_entire_worktop_or_abort(z, None)
            .build();
        ledger.execute_manifest(m, [NonFungibleGlobalId::from_public_key(&pk_s)]).expect_commit_success();
        let badges = [
            ResourceOrNonFungible::Resource(bf),
            ResourceOrNonFungible::Resource(bnf),
            ResourceOrNonFungible::NonFungible(NonFungibleGlobalId::new(bnf, NonFungibleLocalId::integer(1))),
            ResourceOrNonFungible::NonFungible(NonFungibleGlobalId::new(bnf, NonFungibleLocalId::integer(2))),
            ResourceOrNonFungible::NonFungible(NonFungibleGlobalId::from_public_key(&pk_x)),
        ];
        let snapshot = ledger.create_snapshot();
        World { babylon, ledger, snapshot, pk_s, s, pk_a, a, pk_x, z, res: [XRD, r1, r2, r3, r4], bf, bnf, badges }
    }

    fn observe(&mut self) -> Obs {
        let mut o = Obs {
            rule: 'a',
            prefs: ['-'; NR],
            deps: [false; NG],
            vaults: [None; NR],
            n_prefs: 0,
            n_deps: 0,
            n_vaults: 0,
            s_bal: [0; NR],
            z_bal: [0; NR],
        };
        let node = *self.a.as_node_id();
        let mut vault_nodes: Vec<(usize, NodeId)> = vec![];
        {
            let reader = SystemDatabaseReader::new(self.ledger.substate_db());
            let exists = reader.get_blueprint_id(&node, ModuleId::Main).is_ok();
            if exists {
                let rule = reader
                    .read_typed_object_field::<AccountDepositRuleFieldPayload>(&node, ModuleId::Main, AccountField::DepositRule.field_index())
                    .unwrap()
                    .fully_update_and_into_latest_version()
                    .default_deposit_rule;
                o.rule = match rule {
                    DefaultDepositRule::Accept => 'a',
                    DefaultDepositRule::Reject => 'r',
                    DefaultDepositRule::AllowExisting => 'e',
                };
                for r in 0..NR {
                    let p = reader
                        .read_object_collection_entry::<_, AccountResourcePreferenceEntryPayload>(
                            &node,
                            ModuleId::Main,
                            ObjectCollectionKey::KeyValue(AccountCollection::ResourcePreferenceKeyValue.collection_index(), &self.res[r]),
                        )
                        .unwrap()
                        .map(|p| p.fully_update_and_into_latest_version());
                    o.prefs[r] = match p {
                        Some(ResourcePreference::Allowed) => 'a',
                        Some(ResourcePreference::Disallowed) => 'd',
                        None => '-',
                    };
                    let v = reader
                        .read_object_collection_entry::<_, AccountResourceVaultEntryPayload>(
                            &node,
                            ModuleId::Main,
                            ObjectCollectionKey::KeyValue(AccountCollection::ResourceVaultKeyValue.collection_index(), &self.res[r]),
                        )
                        .unwrap()
                        .map(|p| p.fully_update_and_into_latest_version());
                    if let Some(v) = v {
                        vault_nodes.push((r, *v.0.as_node_id()));
                    }
                }
                for g in 0..NG {
                    let d = reader
                        .read_object_collection_entry::<_, AccountAuthorizedDepositorEntryPayload>(
                            &node,
                            ModuleId::Main,
                            ObjectCollectionKey::KeyValue(AccountCollection::AuthorizedDepositorKeyValue.collection_index(), &self.badges[g]),
                        )
                        .unwrap();
                    o.deps[g] = d.is_some();
                }
                let cnt = |c: AccountCollection| reader.collection_iter(&node, ModuleId::Main, c.collection_index()).map(|i| i.count()).unwrap_or(usize::MAX);
                o.n_prefs = cnt(AccountCollection::ResourcePreferenceKeyValue);
                o.n_deps = cnt(AccountCollection::AuthorizedDepositorKeyValue);
                o.n_vaults = cnt(AccountCollection::ResourceVaultKeyValue);
            }
        }
        for (r, vn) in vault_nodes {
            o.vaults[r] = Some(self.ledger.inspect_vault_balance(vn).map(units).unwrap_or(u64::MAX));
        }
        for r in 0..NR {
            o.s_bal[r] = units(self.ledger.get_component_balance(self.s, self.res[r]));
            o.z_bal[r] = units(self.ledger.get_component_balance(self.z, self.res[r]));
        }
        o
    }
}

fn show_state(o: &Obs) -> String {
    let prefs: String = o.prefs.iter().collect();
    let deps: String = o.deps.iter().map(|d| if *d { '1' } else { '0' }).collect();
    let vaults: Vec<String> = o.vaults.iter().map(|v| v.map(|x| x.to_string()).unwrap_or("-".into())).collect();
    format!("{};{};{};{}", o.rule, prefs, deps, vaults.join(","))
}

fn parse_nat(s: &str) -> Option<u64> {
    if s.is_empty() || s.len() > 9 || !s.bytes().all(|b| b.is_ascii_digit()) {
        return None;
    }
    s.parse().ok()
}

fn parse_buckets(s: &str) -> Option<Vec<(usize, u64)>> {
    if s == "-" {
        return Some(vec![]);
    }
    s.split(',')
        .map(|w| {
            let p: Vec<&str> = w.split(':').collect();
            if p.len() != 2 {
                return None;
            }
            let (r, a) = (parse_nat(p[0])?, parse_nat(p[1])?);
            if (r as usize) < NR && a <= MAXAMT {
                Some((r as usize, a))
            } else {
                None
            }
        })
        .collect()
}

fn classify(e: &RuntimeError) -> String {
    match e {
        RuntimeError::ApplicationError(ApplicationError::AccountError(ae)) => match ae {
            AccountError::NotAnAuthorizedDepositor { .. } => "err:not-depositor".into(),
            AccountError::DepositIsDisallowed { .. } => "err:disallowed".into(),
            AccountError::NotAllBucketsCouldBeDeposited => "err:not-all".into(),
            AccountError::VaultDoesNotExist { .. } => "err:no-vault".into(),
            #[allow(unreachable_patterns)]
            _ => "err:account-other".into(),
        },
        RuntimeError::SystemError(SystemError::AssertAccessRuleFailed) => "err:badge-absent".into(),
        RuntimeError::SystemModuleError(SystemModuleError::AuthError(_)) => "err:auth".into(),
        other => {
            let s = format!("{:?}", other);
            if s.contains("InsufficientBalance") || s.contains("ResourceError") || s.contains("VaultError") {
                "err:insufficient".into()
            } else {
                format!("err:other:{}", s.chars().filter(|c| c.is_ascii_alphanumeric()).take(60).collect::<String>())
            }
        }
    }
}

struct TxObs {
    outcome: String,
    /// Deposit / RejectedDeposit events emitted by A: ('D'|'R', resource index (NR = unknown), units)
    events: Vec<(char, usize, u64)>,
    /// decoded return value of the guarded call: None = not decoded, Some(None) = `None`, Some(Some(n)) = `Some` with n buckets
    ret: Option<Option<usize>>,
    /// vaults whose balance changed, by owner: (of A, resource idx) — taken from the receipt
    a_vault_changes: usize,
}

impl R {
    fn w(&mut self) -> &mut World {
        self.worlds[self.cur].as_mut().unwrap()
    }

    fn execute(&mut self, manifest: TransactionManifestV1, signers: Vec<Secp256k1PublicKey>, batch: Option<bool>) -> TxObs {
        let w = self.w();
        // index of the guarded call (for the output)
        let call_idx = manifest.instructions.iter().position(|i| match i {
            InstructionV1::CallMethod(c) => c.method_name.starts_with("try_deposit"),
            _ => false,
        });
        let receipt = w.ledger.execute_manifest(manifest, signers.iter().map(NonFungibleGlobalId::from_public_key).collect::<Vec<_>>());
        let mut t = TxObs { outcome: String::new(), events: vec![], ret: None, a_vault_changes: 0 };
        match &receipt.result {
            TransactionResult::Commit(c) => {
                match &c.outcome {
                    TransactionOutcome::Success(outs) => {
                        t.outcome = "ok".into();
                        if let (Some(i), Some(batch)) = (call_idx, batch) {
                            if let Some(InstructionOutput::CallReturn(bytes)) = outs.get(i) {
                                if batch {
                                    if let Ok(v) = scrypto_decode::<Option<Vec<Own>>>(bytes) {
                                        t.ret = Some(v.map(|x| x.len()));
                                    }
                                } else if let Ok(v) = scrypto_decode::<Option<Own>>(bytes) {
                                    t.ret = Some(v.map(|_| 1));
                                }
                            }
                        }
                    }
                    TransactionOutcome::Failure(e) => t.outcome = classify(e),
                }
                for (id, data) in c.application_events.iter() {
                    let from_a = match &id.0 {
                        Emitter::Method(n, ModuleId::Main) => n == w.a.as_node_id(),
                        _ => false,
                    };
                    if !from_a {
                        continue;
                    }
                    let idx = |r: &ResourceAddress| w.res.iter().position(|x| x == r).unwrap_or(NR);
                    if id.1 == "DepositEvent" {
                        match scrypto_decode::<DepositEvent>(data) {
                            Ok(DepositEvent::Fungible(r, a)) => t.events.push(('D', idx(&r), units(a))),
                            Ok(DepositEvent::NonFungible(r, ids)) => t.events.push(('D', idx(&r), ids.len() as u64)),
                            Err(_) => t.events.push(('D', NR, u64::MAX)),
                        }
                    } else if id.1 == "RejectedDepositEvent" {
                        match scrypto_decode::<RejectedDepositEvent>(data) {
                            Ok(RejectedDepositEvent::Fungible(r, a)) => t.events.push(('R', idx(&r), units(a))),
                            Ok(RejectedDepositEvent::NonFungible(r, ids)) => t.events.push(('R', idx(&r), ids.len() as u64)),
                            Err(_) => t.events.push(('R', NR, u64::MAX)),
                        }
                    }
                }
                // vaults (anywhere in the ledger) whose balance changed and that belong to A
                let changed: Vec<NodeId> = c.vault_balance_changes().keys().cloned().collect();
                let mut a_vaults: Vec<NodeId> = vec![];
                let a_exists = SystemDatabaseReader::new(w.ledger.substate_db()).get_blueprint_id(w.a.as_node_id(), ModuleId::Main).is_ok();
                for r in 0..(if a_exists { NR } else { 0 }) {
                    let ra = w.res[r];
                    a_vaults.extend(w.ledger.get_component_vaults(w.a, ra));
                }
                t.a_vault_changes = changed.iter().filter(|n| a_vaults.contains(n)).count();
            }
            TransactionResult::Reject(r) => {
                t.outcome = format!("rejected:{}", format!("{:?}", r.reason).chars().filter(|c| c.is_ascii_alphanumeric()).take(60).collect::<String>())
            }
            TransactionResult::Abort(_) => t.outcome = "aborted".into(),
        }
        t
    }

    fn show_events(ev: &[(char, usize, u64)]) -> String {
        if ev.is_empty() {
            "-".into()
        } else {
            ev.iter().map(|(k, r, a)| format!("{}{}:{}", k, r, a)).collect::<Vec<_>>().join(",")
        }
    }

    /// owner configuration / deposit / withdraw calls
    fn owner_op(&mut self, t0: &[&str]) -> Answer {
        // `!op` = the same call without the owner's signature
        let stranger = t0[0].starts_with('!');
        let mut tv: Vec<&str> = t0.to_vec();
        tv[0] = tv[0].trim_start_matches('!');
        let t: &[&str] = &tv;
        let before = self.obs.clone().unwrap();
        let w = self.w();
        let (a, s, pk_a, pk_s) = (w.a, w.s, w.pk_a, w.pk_s);
        let b = ManifestBuilder::new().lock_fee_from_faucet();
        // expected state after (property-level frame of the owner ops, for the oracle)
        let mut exp = before.clone();
        let mut exp_events: Vec<(char, usize, u64)> = vec![];
        let mut may_fail = false;
        let (manifest, signers) = match (t[0], t.len()) {
            ("rule", 2) => {
                let (d, c) = match t[1] {
                    "a" => (DefaultDepositRule::Accept, 'a'),
                    "r" => (DefaultDepositRule::Reject, 'r'),
                    "e" => (DefaultDepositRule::AllowExisting, 'e'),
                    _ => return Answer::ok("bad-op"),
                };
                exp.rule = c;
                (b.call_method(a, ACCOUNT_SET_DEFAULT_DEPOSIT_RULE_IDENT, AccountSetDefaultDepositRuleInput { default: d }).build(), vec![pk_a])
            }
            ("pref", 3) => {
                let r = match parse_nat(t[1]) {
                    Some(r) if (r as usize) < NR => r as usize,
                    _ => return Answer::ok("bad-op"),
                };
                let ra = w.res[r];
                let m = match t[2] {
                    "a" | "d" => {
                        let p = if t[2] == "a" { ResourcePreference::Allowed } else { ResourcePreference::Disallowed };
                        if before.prefs[r] == '-' {
                            exp.n_prefs += 1;
                        }
                        exp.prefs[r] = t[2].chars().next().unwrap();
                        b.call_method(a, ACCOUNT_SET_RESOURCE_PREFERENCE_IDENT, AccountSetResourcePreferenceInput { resource_address: ra, resource_preference: p })
                    }
                    "n" => {
                        if before.prefs[r] != '-' {
                            exp.n_prefs -= 1;
                        }
                        exp.prefs[r] = '-';
                        b.call_method(a, ACCOUNT_REMOVE_RESOURCE_PREFERENCE_IDENT, AccountRemoveResourcePreferenceInput { resource_address: ra })
                    }
                    _ => return Answer::ok("bad-op"),
                };
                (m.build(), vec![pk_a])
            }
            ("dep", 3) => {
                let g = match parse_nat(t[1]) {
                    Some(g) if (g as usize) < NG => g as usize,
                    _ => return Answer::ok("bad-op"),
                };
                let badge = w.badges[g].clone();
                let m = match t[2] {
                    "+" => {
                        if !before.deps[g] {
                            exp.n_deps += 1;
                        }
                        exp.deps[g] = true;
                        b.call_method(a, ACCOUNT_ADD_AUTHORIZED_DEPOSITOR_IDENT, AccountAddAuthorizedDepositorInput { badge })
                    }
                    "-" => {
                        if before.deps[g] {
                            exp.n_deps -= 1;
                        }
                        exp.deps[g] = false;
                        b.call_method(a, ACCOUNT_REMOVE_AUTHORIZED_DEPOSITOR_IDENT, AccountRemoveAuthorizedDepositorInput { badge })
                    }
                    _ => return Answer::ok("bad-op"),
                };
                (m.build(), vec![pk_a])
            }
            ("odep", 2) => {
                let bs = match parse_buckets(t[1]) {
                    Some(bs) => bs,
                    None => return Answer::ok("bad-op"),
                };
                let mut b = b;
                for r in 0..NR {
                    let tot: u64 = bs.iter().filter(|x| x.0 == r).map(|x| x.1).sum();
                    if bs.iter().any(|x| x.0 == r) {
                        b = b.withdraw_from_account(s, w.res[r], tot);
                        if exp.vaults[r].is_none() {
                            exp.n_vaults += 1;
                        }
                        exp.vaults[r] = Some(exp.vaults[r].unwrap_or(0) + tot);
                        exp.s_bal[r] -= tot;
                    }
                }
                let mut names = vec![];
                for (i, (r, amt)) in bs.iter().enumerate() {
                    let name = format!("b{}", i);
                    b = b.take_from_worktop(w.res[*r], *amt, name.clone());
                    names.push(name);
                    exp_events.push(('D', *r, *amt));
                }
                (b.deposit_batch(a, names).build(), vec![pk_a, pk_s])
            }
            ("wd", 3) => {
                let (r, amt) = match (parse_nat(t[1]), parse_nat(t[2])) {
                    (Some(r), Some(x)) if (r as usize) < NR && x <= MAXAMT => (r as usize, x),
                    _ => return Answer::ok("bad-op"),
                };
                match before.vaults[r] {
                    Some(x) if x >= amt => {
                        exp.vaults[r] = Some(x - amt);
                        exp.s_bal[r] += amt;
                    }
                    _ => may_fail = true,
                }
                (b.withdraw_from_account(a, w.res[r], amt).deposit_entire_worktop(s).build(), vec![pk_a, pk_s])
            }
            _ => return Answer::ok("bad-op"),
        };
        let signers: Vec<Secp256k1PublicKey> = if stranger { signers.into_iter().filter(|k| *k != pk_a).chain([pk_s]).collect() } else { signers };
        let tx = self.execute(manifest, signers, None);
        let after = self.w().observe();
        self.obs = Some(after.clone());
        let ok = tx.outcome == "ok";
        let ans = if ok {
            format!("ok ev={} ret=- st={}", Self::show_events(&tx.events), show_state(&after))
        } else {
            format!("{} ev=- ret=- st={}", tx.outcome, show_state(&after))
        };
        if stranger {
            // oracle: the deposit rules cannot be edited or bypassed without the owner role
            if ok {
                return Answer::fail(ans, format!("c39:{}:owner-method-without-owner", t[0]), "an owner-role method succeeded without the owner's signature");
            }
            if after != before {
                return Answer::fail(ans, format!("c39:{}:failed-call-changed-state", t[0]), format!("before {:?} after {:?}", before, after));
            }
            return Answer::ok(ans);
        }
        // oracle: owner calls change exactly what they name
        if may_fail {
            if ok {
                return Answer::fail(ans, format!("c39:{}:overdraw-succeeded", t[0]), "withdrawal beyond the vault balance / without a vault succeeded");
            }
            if after != before {
                return Answer::fail(ans, format!("c39:{}:failed-call-changed-state", t[0]), format!("before {:?} after {:?}", before, after));
            }
            return Answer::ok(ans);
        }
        if !ok {
            return Answer::fail(ans, format!("c39:{}:owner-call-failed", t[0]), format!("owner call with owner signature failed: {}", tx.outcome));
        }
        if after != exp {
            return Answer::fail(ans, format!("c39:{}:owner-call-effect", t[0]), format!("expected {:?} got {:?}", exp, after));
        }
        if tx.events != exp_events {
            return Answer::fail(ans, format!("c39:{}:owner-call-events", t[0]), format!("expected {:?} got {:?}", exp_events, tx.events));
        }
        Answer::ok(ans)
    }

    fn try_op(&mut self, t: &[&str]) -> Answer {
        if t.len() != 5 {
            return Answer::ok("bad-op");
        }
        let v = t[1];
        if !["r", "br", "a", "ba"].contains(&v) {
            return Answer::ok("bad-op");
        }
        let badge: Option<usize> = match t[2] {
            "-" => None,
            x => match parse_nat(x) {
                Some(g) if (g as usize) < NG => Some(g as usize),
                _ => return Answer::ok("bad-op"),
            },
        };
        let mask = match parse_nat(t[3]) {
            Some(m) if m < 16 => m,
            _ => return Answer::ok("bad-op"),
        };
        let bs = match parse_buckets(t[4]) {
            Some(bs) => bs,
            None => return Answer::ok("bad-op"),
        };
        let single = v == "r" || v == "a";
        let refund = v == "r" || v == "br";
        if single && bs.len() != 1 {
            return Answer::ok("bad-op");
        }
        let before = self.obs.clone().unwrap();
        let w = self.w();
        let babylon = w.babylon;
        let (a, s, pk_s, pk_x) = (w.a, w.s, w.pk_s, w.pk_x);
        let badge_val = badge.map(|g| w.badges[g].clone());
        let mut b = ManifestBuilder::new().lock_fee_from_faucet();
        if mask & 1 != 0 {
            b = b.create_proof_from_account_of_amount(s, w.bf, 1);
        }
        if mask & 2 != 0 {
            b = b.create_proof_from_account_of_non_fungibles(s, w.bnf, [NonFungibleLocalId::integer(1)]);
        }
        if mask & 4 != 0 {
            b = b.create_proof_from_account_of_non_fungibles(s, w.bnf, [NonFungibleLocalId::integer(2)]);
        }
        let mut sums = [0u64; NR];
        let mut present = [false; NR];
        for (r, amt) in bs.iter() {
            sums[*r] += *amt;
            present[*r] = true;
        }
        for r in 0..NR {
            if present[r] {
                b = b.withdraw_from_account(s, w.res[r], sums[r]);
            }
        }
        let mut names = vec![];
        for (i, (r, amt)) in bs.iter().enumerate() {
            let name = format!("b{}", i);
            b = b.take_from_worktop(w.res[*r], *amt, name.clone());
            names.push(name);
        }
        b = match v {
            "r" => b.try_deposit_or_refund(a, badge_val, names[0].clone()),
            "a" => b.try_deposit_or_abort(a, badge_val, names[0].clone()),
            "br" => b.try_deposit_batch_or_refund(a, names, badge_val),
            _ => b.try_deposit_batch_or_abort(a, names, badge_val),
        };
        let manifest = b.deposit_entire_worktop(s).build();
        let mut signers = vec![pk_s]; // NEVER A's owner key: the guarded methods are public
        if mask & 8 != 0 {
            signers.push(pk_x);
        }
        let tx = self.execute(manifest, signers, if refund { Some(!single) } else { None });
        let after = self.w().observe();
        self.obs = Some(after.clone());
        let ok = tx.outcome == "ok";

        // ---- canonical answer (compared with the Lean model)
        let ret_s = if !ok {
            "-".to_string()
        } else if !refund {
            "unit".to_string()
        } else {
            match tx.ret {
                Some(None) => "none".to_string(),
                Some(Some(n)) => {
                    // returned amounts = what came back to S
                    let parts: Vec<String> = (0..NR)
                        .filter_map(|r| {
                            let back = (after.s_bal[r] + sums[r]).wrapping_sub(before.s_bal[r]);
                            if back > 0 {
                                Some(format!("{}={}", r, back))
                            } else {
                                None
                            }
                        })
                        .collect();
                    format!("some:{}:{}", n, if parts.is_empty() { "-".to_string() } else { parts.join(",") })
                }
                None => "undecodable".to_string(),
            }
        };
        let ans = if ok {
            format!("ok ev={} ret={} st={}", Self::show_events(&tx.events), ret_s, show_state(&after))
        } else {
            format!("{} ev=- ret=- st={}", tx.outcome, show_state(&after))
        };

        // ---- property oracle, evaluated on the observed pre-state (independent of the Lean model)
        let allowed = |r: usize| match before.prefs[r] {
            'a' => true,
            'd' => false,
            _ => match before.rule {
                'a' => true,
                'r' => false,
                _ => r == 0 || before.vaults[r].is_some(),
            },
        };
        let all = bs.iter().all(|b| allowed(b.0));
        let listed = badge.map(|g| before.deps[g]).unwrap_or(false);
        let proven = badge.map(|g| proven_tbl(mask, g)).unwrap_or(false);
        let exp = if all || (listed && proven) {
            "deposit"
        } else if listed {
            "fail" // listed badge named but not proven, some bucket refused
        } else if !refund {
            "fail" // abort variants
        } else if babylon && badge.is_some() {
            "fail" // pre-bottlenose code: a named unlisted badge fails the call (repaired by the bottlenose update)
        } else {
            "refund"
        };
        let cls = format!(
            "c39:{}:{}:{}:{}:{}",
            v,
            if babylon { "babylon" } else { "latest" },
            before.rule,
            if all { "all-allowed" } else { "some-refused" },
            match (badge.is_some(), listed, proven) {
                (false, _, _) => "no-badge",
                (true, false, false) => "unlisted",
                (true, false, true) => "unlisted-proven",
                (true, true, false) => "listed-unproven",
                (true, true, true) => "listed-proven",
            }
        );
        if std::env::var("C39_CLS").is_ok() {
            eprintln!("{} -> {}", cls, exp); // input-class coverage statistics (debugging aid)
        }
        let fail = |what: &str, d: String| Answer::fail(ans.clone(), format!("{}:{}", cls, what), d);
        // config and bystander never change, in any outcome
        if (after.rule, after.prefs, after.deps, after.n_prefs, after.n_deps) != (before.rule, before.prefs, before.deps, before.n_prefs, before.n_deps) {
            return fail("config-changed", format!("before {:?} after {:?}", before, after));
        }
        if after.z_bal != before.z_bal {
            return fail("bystander-changed", format!("before {:?} after {:?}", before.z_bal, after.z_bal));
        }
        // nothing is created or destroyed between A and S (fees come from the faucet)
        for r in 0..NR {
            let tot_b = before.vaults[r].unwrap_or(0) + before.s_bal[r];
            let tot_a = after.vaults[r].unwrap_or(0) + after.s_bal[r];
            if tot_a != tot_b {
                return fail("not-conserved", format!("resource {} total {} -> {}", r, tot_b, tot_a));
            }
        }
        match exp {
            "deposit" => {
                if !ok {
                    return fail("should-deposit", format!("outcome {}", tx.outcome));
                }
                if refund && tx.ret != Some(None) {
                    return fail("should-return-none", format!("returned {:?}", tx.ret));
                }
                let mut n_new = 0;
                for r in 0..NR {
                    let want = if present[r] { Some(before.vaults[r].unwrap_or(0) + sums[r]) } else { before.vaults[r] };
                    if present[r] && before.vaults[r].is_none() {
                        n_new += 1;
                    }
                    if after.vaults[r] != want {
                        return fail("vault-effect", format!("resource {} vault {:?} expected {:?}", r, after.vaults[r], want));
                    }
                    if after.s_bal[r] + sums[r] != before.s_bal[r] {
                        return fail("something-returned", format!("resource {} came back to the sender", r));
                    }
                }
                if after.n_vaults != before.n_vaults + n_new {
                    return fail("foreign-vault", "a vault outside the deposited resources appeared".into());
                }
                let want_ev: Vec<(char, usize, u64)> = bs.iter().map(|b| ('D', b.0, b.1)).collect();
                if tx.events != want_ev {
                    return fail("events", format!("expected {:?} got {:?}", want_ev, tx.events));
                }
                let touched = (0..NR).filter(|r| present[*r] && sums[*r] > 0).count();
                if tx.a_vault_changes != touched {
                    return fail("vault-changes", format!("{} vaults of the account changed balance, {} resources deposited", tx.a_vault_changes, touched));
                }
            }
            "fail" => {
                if ok {
                    return fail("should-fail", "call succeeded".into());
                }
                if !tx.outcome.starts_with("err:") {
                    return fail("not-a-call-failure", tx.outcome.clone());
                }
                if after != before {
                    return fail("failed-call-changed-state", format!("before {:?} after {:?}", before, after));
                }
            }
            _ => {
                if !ok {
                    return fail("should-refund", format!("outcome {}", tx.outcome));
                }
                if tx.ret != Some(Some(bs.len())) {
                    return fail("should-return-all-buckets", format!("returned {:?}, {} buckets passed", tx.ret, bs.len()));
                }
                if after != before {
                    return fail("refund-changed-state", format!("before {:?} after {:?}", before, after));
                }
                let want_ev: Vec<(char, usize, u64)> = bs.iter().filter(|b| !allowed(b.0)).map(|b| ('R', b.0, b.1)).collect();
                if tx.events != want_ev {
                    return fail("events", format!("expected {:?} got {:?}", want_ev, tx.events));
                }
                if tx.a_vault_changes != 0 {
                    return fail("vault-changes", "a vault of the account changed on a refund".into());
                }
            }
        }
        Answer::ok(ans)
    }
}

impl Runner for R {
    fn step(&mut self, line: &str) -> Answer {
        let t: Vec<&str> = line.split(' ').filter(|x| !x.is_empty()).collect();
        if t.is_empty() {
            return Answer::ok("bad-op");
        }
        match t[0] {
            "reset" => {
                if t.len() != 2 || (t[1] != "latest" && t[1] != "babylon") {
                    return Answer::ok("bad-op");
                }
                self.cur = if t[1] == "babylon" { 1 } else { 0 };
                if self.worlds[self.cur].is_none() {
                    self.worlds[self.cur] = Some(World::new(self.cur == 1));
                }
                let w = self.w();
                w.ledger.restore_snapshot(w.snapshot.clone());
                let o = w.observe();
                let ans = format!("ok {}", show_state(&o));
                let fresh = o.rule == 'a' && o.n_prefs == 0 && o.n_deps == 0 && o.n_vaults == 0;
                self.obs = Some(o);
                if !fresh {
                    return Answer::fail(ans, "c39:reset:not-fresh", "the untouched virtual account is not in the default state");
                }
                Answer::ok(ans)
            }
            _ if self.obs.is_none() => Answer::ok("bad-op"),
            "rule" | "pref" | "dep" | "odep" | "wd" | "!rule" | "!pref" | "!dep" | "!odep" | "!wd" => self.owner_op(&t),
            "try" => self.try_op(&t),
            _ => Answer::ok("bad-op"),
        }
    }
}

fn main() {
    main_with(&[("c39", &A)]);
}
