//! C12 — the real `radix_engine::track::Track` over `InMemorySubstateDatabase` with
//! `SpreadPrefixKeyMapper`, driven by op streams; plus the property oracle (an independent
//! "database overlaid with own writes" map kept by the harness).
//!
//! Line protocol (sort keys are the hex `DbSortKey`s produced by the real key mapper):
//!   reset | base n p k v | create n p:k=v,k=v;p:- | get n p k | set n p k v | remove n p k
//!   scankeys n p limit | drain n p limit | scansorted n p limit | fw n p k | delpart n p
//!   revert | finalize
use harness::util::*;
use radix_common::prelude::*;
use radix_engine::track::interface::{CommitableSubstateStore, IOAccess};
use radix_engine::track::Track;
use radix_engine_interface::types::IndexedScryptoValue;
use radix_substate_store_impls::memory_db::InMemorySubstateDatabase;
use radix_substate_store_interface::db_key_mapper::{DatabaseKeyMapper, SpreadPrefixKeyMapper};
use radix_substate_store_interface::interface::*;
use std::collections::{BTreeMap, BTreeSet};
use std::io::Write;

pub struct A;

const NODES: u64 = 4; // nodes 0,1 may exist in the base database; 2,3 are fresh (creatable)
const PARTS: u64 = 6; // kind = p % 3: 0 Field, 1 Map, 2 Sorted

fn node(n: u64) -> NodeId {
    NodeId([n as u8; 30])
}

fn alphabet(kind: u64) -> Vec<SubstateKey> {
    match kind {
        0 => (0u8..5).map(SubstateKey::Field).collect(),
        1 => vec![
            SubstateKey::Map(vec![]),
            SubstateKey::Map(vec![0]),
            SubstateKey::Map(vec![1]),
            SubstateKey::Map(vec![1, 0]),
            SubstateKey::Map(vec![2, 255, 7]),
            SubstateKey::Map(vec![9; 12]),
        ],
        _ => vec![
            SubstateKey::Sorted(([0, 0], vec![])),
            SubstateKey::Sorted(([0, 1], vec![5])),
            SubstateKey::Sorted(([0, 1], vec![6])),
            SubstateKey::Sorted(([1, 0], vec![5])),
            SubstateKey::Sorted(([255, 255], vec![1, 2, 3])),
            SubstateKey::Sorted(([0, 255], vec![0])),
        ],
    }
}

fn sk_hex(k: &SubstateKey) -> String {
    hex(&SpreadPrefixKeyMapper::to_db_sort_key(k).0)
}

/// hex DbSortKey (of the kind of partition `p`) -> SubstateKey; None if it is not in the alphabet
fn parse_key(p: u64, s: &str) -> Option<SubstateKey> {
    let bytes = unhex(s)?;
    alphabet(p % 3).into_iter().find(|k| SpreadPrefixKeyMapper::to_db_sort_key(k).0 == bytes)
}

fn val(v: u64) -> IndexedScryptoValue {
    IndexedScryptoValue::from_typed(&v)
}
fn unval(v: &IndexedScryptoValue) -> u64 {
    v.as_typed::<u64>().unwrap()
}
fn raw(v: u64) -> Vec<u8> {
    scrypto_encode(&v).unwrap()
}

fn no_io() -> impl FnMut(IOAccess) -> Result<(), ()> {
    |_| Ok(())
}

impl Area for A {
    fn gen(&self, rng: &mut Rng, n: usize, out: &mut dyn Write) {
        for case in 0..n {
            writeln!(out, "reset").unwrap();
            // a few cases concentrate on one partition to force collisions between tracked / db keys
            let focus = if rng.chance(1, 2) { Some((rng.below(NODES), rng.below(PARTS))) } else { None };
            let pick_np = |rng: &mut Rng| -> (u64, u64) {
                match focus {
                    Some(f) if rng.chance(4, 5) => f,
                    _ => (rng.below(NODES), rng.below(PARTS)),
                }
            };
            let pick_key = |rng: &mut Rng, p: u64| -> String { sk_hex(rng.pick(&alphabet(p % 3))) };
            let nbase = rng.below(16);
            for _ in 0..nbase {
                let (mut nn, p) = pick_np(rng);
                nn %= 2; // only nodes 0,1 exist in the database
                writeln!(out, "base {} {} {} {}", nn, p, pick_key(rng, p), rng.below(1000)).unwrap();
            }
            let len = 1 + rng.below(40);
            let mut used: Vec<(u64, u64, String)> = vec![];
            let revert_at = if rng.chance(1, 4) { Some(rng.below(len)) } else { None };
            for i in 0..len {
                if Some(i) == revert_at {
                    writeln!(out, "revert").unwrap();
                    continue;
                }
                let (nn, p) = pick_np(rng);
                match rng.below(100) {
                    0..=19 => {
                        let k = pick_key(rng, p);
                        used.push((nn, p, k.clone()));
                        writeln!(out, "get {} {} {}", nn, p, k).unwrap()
                    }
                    20..=39 => {
                        let k = pick_key(rng, p);
                        used.push((nn, p, k.clone()));
                        writeln!(out, "set {} {} {} {}", nn, p, k, rng.below(1000)).unwrap()
                    }
                    40..=51 => {
                        let k = pick_key(rng, p);
                        used.push((nn, p, k.clone()));
                        writeln!(out, "remove {} {} {}", nn, p, k).unwrap()
                    }
                    52..=59 => {
                        // create a fresh node (2 or 3) with 0..3 partitions
                        let cn = 2 + rng.below(2);
                        let mut ps: Vec<u64> = (0..PARTS).filter(|_| rng.chance(1, 3)).collect();
                        if let Some((_, fp)) = focus {
                            if !ps.contains(&fp) && rng.chance(1, 2) {
                                ps.push(fp);
                                ps.sort();
                            }
                        }
                        let mut spec = vec![];
                        for pp in ps {
                            let keys: Vec<SubstateKey> = alphabet(pp % 3).into_iter().filter(|_| rng.chance(1, 2)).collect();
                            let kvs: Vec<String> = keys.iter().map(|k| format!("{}={}", sk_hex(k), rng.below(1000))).collect();
                            spec.push(format!("{}:{}", pp, if kvs.is_empty() { "-".to_string() } else { kvs.join(",") }));
                        }
                        writeln!(out, "create {} {}", cn, if spec.is_empty() { "-".to_string() } else { spec.join(";") }).unwrap();
                    }
                    60..=69 => writeln!(out, "scankeys {} {} {}", nn, p, rng.below(8)).unwrap(),
                    70..=79 => writeln!(out, "drain {} {} {}", nn, p, rng.below(8)).unwrap(),
                    80..=91 => {
                        let sp = if p % 3 == 2 { p } else { 2 + 3 * rng.below(2) };
                        writeln!(out, "scansorted {} {} {}", nn, sp, rng.below(8)).unwrap()
                    }
                    92..=96 => {
                        // mostly on substates the transaction has accessed (anything else panics)
                        if !used.is_empty() && rng.chance(19, 20) {
                            let (un, up, uk) = rng.pick(&used).clone();
                            writeln!(out, "fw {} {} {}", un, up, uk).unwrap()
                        } else if rng.chance(1, 4) {
                            writeln!(out, "fw {} {} {}", nn, p, pick_key(rng, p)).unwrap()
                        } else {
                            let k = pick_key(rng, p);
                            used.push((nn, p, k.clone()));
                            writeln!(out, "get {} {} {}", nn, p, k).unwrap()
                        }
                    }
                    97 => writeln!(out, "delpart {} {}", nn, p).unwrap(),
                    _ => {
                        // malformed stream
                        let bad = ["get 1", "set 0 0 zz 1", "frobnicate", "get 0 0 0g", "scankeys 0 x 1", "create 2 0:01=1,01=2", "drain 1 1", "set 0 0 00 -3"];
                        writeln!(out, "{}", rng.pick(&bad)).unwrap()
                    }
                }
            }
            if case % 10 != 9 {
                writeln!(out, "finalize").unwrap();
            }
        }
    }
    fn runner(&self) -> Box<dyn Runner> {
        Box::new(R::new())
    }
}

type K3 = (u64, u64, Vec<u8>);

enum Phase {
    Building,
    Running(Track<'static, InMemorySubstateDatabase>),
    Poisoned,
    Finalized,
}

struct R {
    phase: Phase,
    base_db: InMemorySubstateDatabase,
    // ---- oracle state (independent of the implementation) ----
    /// content of the base database
    base: BTreeMap<K3, u64>,
    /// the database overlaid with this transaction's creations, writes and removals
    cur: BTreeMap<K3, u64>,
    /// first access of the key in this transaction was a write
    blind: BTreeSet<K3>,
    touched: BTreeSet<K3>,
    /// force-written substates: value at force-write time
    fw: BTreeMap<K3, Option<u64>>,
    created: Vec<u64>,
    deleted_parts: BTreeSet<(u64, u64)>,
    /// keys whose reads are unspecified (blind write reverted, see checks/C12.json)
    unspec: BTreeSet<K3>,
}

impl R {
    fn new() -> R {
        R {
            phase: Phase::Building,
            base_db: InMemorySubstateDatabase::standard(),
            base: BTreeMap::new(),
            cur: BTreeMap::new(),
            blind: BTreeSet::new(),
            touched: BTreeSet::new(),
            fw: BTreeMap::new(),
            created: vec![],
            deleted_parts: BTreeSet::new(),
            unspec: BTreeSet::new(),
        }
    }
    fn track(&mut self) -> &mut Track<'static, InMemorySubstateDatabase> {
        if let Phase::Building = self.phase {
            let db: &'static InMemorySubstateDatabase = Box::leak(Box::new(self.base_db.clone()));
            self.phase = Phase::Running(Track::new(db));
        }
        match &mut self.phase {
            Phase::Running(t) => t,
            _ => unreachable!(),
        }
    }
    fn touch(&mut self, k: &K3, write: bool) {
        if self.touched.insert(k.clone()) && write {
            self.blind.insert(k.clone());
        }
    }
    fn present(&self, n: u64, p: u64) -> Vec<(Vec<u8>, u64)> {
        self.cur.iter().filter(|(k, _)| k.0 == n && k.1 == p).map(|(k, v)| (k.2.clone(), *v)).collect()
    }
    fn tainted(&self, n: u64, p: u64) -> bool {
        self.unspec.iter().any(|k| k.0 == n && k.1 == p)
    }
}

fn show_opt(o: Option<u64>) -> String {
    match o {
        Some(v) => format!("some {}", v),
        None => "none".to_string(),
    }
}

fn num(s: &str) -> Option<u64> {
    if s.is_empty() || !s.bytes().all(|b| b.is_ascii_digit()) {
        return None;
    }
    s.parse().ok()
}

enum Op {
    Get(u64, u64, SubstateKey),
    Set(u64, u64, SubstateKey, u64),
    Remove(u64, u64, SubstateKey),
    Create(u64, Vec<(u64, Vec<(SubstateKey, u64)>)>),
    ScanKeys(u64, u64, u64),
    Drain(u64, u64, u64),
    ScanSorted(u64, u64, u64),
    Fw(u64, u64, SubstateKey),
    DelPart(u64, u64),
    Revert,
}

fn parse_subs(s: &str) -> Option<Vec<(u64, Vec<(SubstateKey, u64)>)>> {
    if s == "-" {
        return Some(vec![]);
    }
    let mut out: Vec<(u64, Vec<(SubstateKey, u64)>)> = vec![];
    for ps in s.split(';') {
        let t: Vec<&str> = ps.split(':').collect();
        if t.len() != 2 {
            return None;
        }
        let p = num(t[0])?;
        let mut kvs = vec![];
        if t[1] != "-" {
            for kv in t[1].split(',') {
                let u: Vec<&str> = kv.split('=').collect();
                if u.len() != 2 {
                    return None;
                }
                let k = parse_key(p, u[0])?;
                let v = num(u[1])?;
                if kvs.iter().any(|(k2, _)| *k2 == k) {
                    return None;
                }
                kvs.push((k, v));
            }
        }
        if out.iter().any(|(p2, _)| *p2 == p) {
            return None;
        }
        out.push((p, kvs));
    }
    Some(out)
}

fn parse_op(t: &[&str]) -> Option<Op> {
    match (t[0], t.len()) {
        ("get", 4) => Some(Op::Get(num(t[1])?, num(t[2])?, parse_key(num(t[2])?, t[3])?)),
        ("set", 5) => Some(Op::Set(num(t[1])?, num(t[2])?, parse_key(num(t[2])?, t[3])?, num(t[4])?)),
        ("remove", 4) => Some(Op::Remove(num(t[1])?, num(t[2])?, parse_key(num(t[2])?, t[3])?)),
        ("create", 3) => Some(Op::Create(num(t[1])?, parse_subs(t[2])?)),
        ("scankeys", 4) => Some(Op::ScanKeys(num(t[1])?, num(t[2])?, num(t[3])?)),
        ("drain", 4) => Some(Op::Drain(num(t[1])?, num(t[2])?, num(t[3])?)),
        ("scansorted", 4) => Some(Op::ScanSorted(num(t[1])?, num(t[2])?, num(t[3])?)),
        ("fw", 4) => Some(Op::Fw(num(t[1])?, num(t[2])?, parse_key(num(t[2])?, t[3])?)),
        ("delpart", 3) => Some(Op::DelPart(num(t[1])?, num(t[2])?)),
        ("revert", 1) => Some(Op::Revert),
        _ => None,
    }
}

fn dbk(k: &SubstateKey) -> Vec<u8> {
    SpreadPrefixKeyMapper::to_db_sort_key(k).0
}

fn scan_keys_kind(t: &mut Track<'static, InMemorySubstateDatabase>, n: u64, p: u64, limit: u32) -> Vec<SubstateKey> {
    match p % 3 {
        0 => t.scan_keys::<FieldKey, (), _>(&node(n), PartitionNumber(p as u8), limit, &mut no_io()).unwrap(),
        1 => t.scan_keys::<MapKey, (), _>(&node(n), PartitionNumber(p as u8), limit, &mut no_io()).unwrap(),
        _ => t.scan_keys::<SortedKey, (), _>(&node(n), PartitionNumber(p as u8), limit, &mut no_io()).unwrap(),
    }
}

fn drain_kind(t: &mut Track<'static, InMemorySubstateDatabase>, n: u64, p: u64, limit: u32) -> Vec<(SubstateKey, IndexedScryptoValue)> {
    match p % 3 {
        0 => t.drain_substates::<FieldKey, (), _>(&node(n), PartitionNumber(p as u8), limit, &mut no_io()).unwrap(),
        1 => t.drain_substates::<MapKey, (), _>(&node(n), PartitionNumber(p as u8), limit, &mut no_io()).unwrap(),
        _ => t.drain_substates::<SortedKey, (), _>(&node(n), PartitionNumber(p as u8), limit, &mut no_io()).unwrap(),
    }
}

fn show_entries(es: &[(Vec<u8>, u64)]) -> String {
    format!("[{}]", es.iter().map(|(k, v)| format!("{}={}", hex(k), v)).collect::<Vec<_>>().join(","))
}

impl Runner for R {
    fn step(&mut self, line: &str) -> Answer {
        let t: Vec<&str> = line.split(' ').filter(|s| !s.is_empty()).collect();
        if t.is_empty() {
            return Answer::ok("bad-op");
        }
        if t == ["reset"] {
            *self = R::new();
            return Answer::ok("ok");
        }
        if t[0] == "base" && t.len() == 5 {
            let parsed = (|| Some((num(t[1])?, num(t[2])?, parse_key(num(t[2])?, t[3])?, num(t[4])?)))();
            return match parsed {
                None => Answer::ok("bad-op"),
                Some((n, p, k, v)) => {
                    if let Phase::Building = self.phase {
                        let mut m = indexmap!();
                        m.insert(SpreadPrefixKeyMapper::to_db_partition_key(&node(n), PartitionNumber(p as u8)), indexmap!(SpreadPrefixKeyMapper::to_db_sort_key(&k) => DatabaseUpdate::Set(raw(v))));
                        self.base_db.commit(&DatabaseUpdates::from_delta_maps(m));
                        self.base.insert((n, p, dbk(&k)), v);
                        self.cur.insert((n, p, dbk(&k)), v);
                        Answer::ok("ok")
                    } else {
                        Answer::ok("late-base")
                    }
                }
            };
        }
        if t == ["finalize"] {
            match self.phase {
                Phase::Poisoned => return Answer::ok("poisoned"),
                Phase::Finalized => return Answer::ok("finalized"),
                _ => {}
            }
            self.track();
            let track = match std::mem::replace(&mut self.phase, Phase::Finalized) {
                Phase::Running(t) => t,
                _ => unreachable!(),
            };
            let (tracked, _db) = match track.finalize() {
                Ok(x) => x,
                Err(_) => return Answer::fail("finalize-error", "finalize-error", "finalize failed without transient substates"),
            };
            let (new_nodes, su) = tracked.to_state_updates();
            let mut parts_out = vec![];
            for (nid, nu) in &su.by_node {
                let NodeStateUpdates::Delta { by_partition } = nu;
                let mut ps = vec![];
                for (pn, pu) in by_partition {
                    let s = match pu {
                        PartitionStateUpdates::Delta { by_substate } => format!(
                            "D[{}]",
                            by_substate
                                .iter()
                                .map(|(k, u)| format!("{}={}", sk_hex(k), match u {
                                    DatabaseUpdate::Set(v) => scrypto_decode::<u64>(v).unwrap().to_string(),
                                    DatabaseUpdate::Delete => "-".to_string(),
                                }))
                                .collect::<Vec<_>>()
                                .join(",")
                        ),
                        PartitionStateUpdates::Batch(BatchPartitionStateUpdate::Reset { new_substate_values }) => format!(
                            "R[{}]",
                            new_substate_values.iter().map(|(k, v)| format!("{}={}", sk_hex(k), scrypto_decode::<u64>(v).unwrap())).collect::<Vec<_>>().join(",")
                        ),
                    };
                    ps.push(format!("{}:{}", pn.0, s));
                }
                parts_out.push(format!("{}{{{}}}", nid.0[0], ps.join(";")));
            }
            let ans = format!("new=[{}] su=[{}]", new_nodes.iter().map(|n| n.0[0].to_string()).collect::<Vec<_>>().join(","), parts_out.join(";"));
            // ---- oracle: the state updates applied to the base database give exactly the overlaid state
            let mut db2 = self.base_db.clone();
            db2.commit(&su.create_database_updates());
            for n in 0..NODES {
                for p in 0..PARTS {
                    if self.deleted_parts.contains(&(n, p)) || self.tainted(n, p) {
                        continue;
                    }
                    let got: Vec<(Vec<u8>, u64)> = db2
                        .list_raw_values_from_db_key(&SpreadPrefixKeyMapper::to_db_partition_key(&node(n), PartitionNumber(p as u8)), None)
                        .map(|(k, v)| (k.0, scrypto_decode::<u64>(&v).unwrap()))
                        .collect();
                    let exp = self.present(n, p);
                    if got != exp {
                        return Answer::fail(ans, format!("state-updates-not-diff:{}:{}", n, p), format!("base+state_updates has {} but the overlaid state is {}", show_entries(&got), show_entries(&exp)));
                    }
                }
            }
            let mut exp_new: Vec<u64> = self.created.clone();
            exp_new.sort();
            let mut got_new: Vec<u64> = new_nodes.iter().map(|n| n.0[0] as u64).collect();
            got_new.sort();
            if exp_new != got_new {
                return Answer::fail(ans, "new-nodes", format!("new nodes {:?}, created {:?}", got_new, exp_new));
            }
            return Answer::ok(ans);
        }
        let op = match parse_op(&t) {
            Some(op) => op,
            None => return Answer::ok("bad-op"),
        };
        match self.phase {
            Phase::Poisoned => return Answer::ok("poisoned"),
            Phase::Finalized => return Answer::ok("finalized"),
            _ => {}
        }
        self.track();
        match op {
            Op::Get(n, p, k) => {
                let key = (n, p, dbk(&k));
                let r = self.track().get_substate(&node(n), PartitionNumber(p as u8), &k, &mut no_io()).unwrap().map(unval);
                self.touch(&key, false);
                let ans = show_opt(r);
                if !self.unspec.contains(&key) && r != self.cur.get(&key).copied() {
                    return Answer::fail(ans, "read-own-writes:get", format!("get returned {:?}, overlaid state has {:?}", r, self.cur.get(&key)));
                }
                Answer::ok(ans)
            }
            Op::Set(n, p, k, v) => {
                let key = (n, p, dbk(&k));
                self.track().set_substate(node(n), PartitionNumber(p as u8), k, val(v), &mut no_io()).unwrap();
                self.touch(&key, true);
                self.unspec.remove(&key);
                self.cur.insert(key, v);
                Answer::ok("ok")
            }
            Op::Remove(n, p, k) => {
                let key = (n, p, dbk(&k));
                let r = self.track().remove_substate(&node(n), PartitionNumber(p as u8), &k, &mut no_io()).unwrap().map(|v| unval(&v));
                self.touch(&key, false);
                let ans = show_opt(r);
                let exp = self.cur.remove(&key);
                if !self.unspec.contains(&key) && r != exp {
                    return Answer::fail(ans, "read-own-writes:remove", format!("remove returned {:?}, overlaid state had {:?}", r, exp));
                }
                Answer::ok(ans)
            }
            Op::Create(n, subs) => {
                let mut ns: BTreeMap<PartitionNumber, BTreeMap<SubstateKey, IndexedScryptoValue>> = BTreeMap::new();
                for (p, kvs) in &subs {
                    let e = ns.entry(PartitionNumber(*p as u8)).or_default();
                    for (k, v) in kvs {
                        e.insert(k.clone(), val(*v));
                    }
                }
                let r = catch(|| self.track().create_node(node(n), ns, &mut no_io()).unwrap());
                if r.is_err() {
                    self.phase = Phase::Poisoned;
                    return Answer::ok("panic");
                }
                let stale: Vec<K3> = self.cur.keys().filter(|k| k.0 == n).cloned().collect();
                for k in stale {
                    self.cur.remove(&k);
                }
                self.unspec.retain(|k| k.0 != n);
                for (p, kvs) in &subs {
                    for (k, v) in kvs {
                        let key = (n, *p, dbk(k));
                        self.touch(&key, true);
                        self.cur.insert(key, *v);
                    }
                }
                if !self.created.contains(&n) {
                    self.created.push(n);
                }
                Answer::ok("ok")
            }
            Op::ScanKeys(n, p, limit) => {
                let ks = scan_keys_kind(self.track(), n, p, limit as u32);
                let ans = format!("[{}]", ks.iter().map(sk_hex).collect::<Vec<_>>().join(","));
                if self.tainted(n, p) {
                    return Answer::ok(ans);
                }
                let present = self.present(n, p);
                let set: BTreeSet<Vec<u8>> = ks.iter().map(dbk).collect();
                if set.len() != ks.len() {
                    return Answer::fail(ans, "scan-keys:duplicate", "scan_keys returned a key twice");
                }
                if let Some(k) = set.iter().find(|k| !present.iter().any(|(pk, _)| pk == *k)) {
                    return Answer::fail(ans, "scan-keys:absent-key", format!("scan_keys returned absent key {}", hex(k)));
                }
                let want = std::cmp::min(limit as usize, present.len());
                if ks.len() != want {
                    return Answer::fail(ans, "scan-keys:count", format!("scan_keys returned {} keys, limit {} present {}", ks.len(), limit, present.len()));
                }
                Answer::ok(ans)
            }
            Op::Drain(n, p, limit) => {
                let es: Vec<(Vec<u8>, u64)> = drain_kind(self.track(), n, p, limit as u32).iter().map(|(k, v)| (dbk(k), unval(v))).collect();
                let ans = show_entries(&es);
                let present = self.present(n, p);
                for (k, _) in &es {
                    let key = (n, p, k.clone());
                    self.touch(&key, false);
                    self.cur.remove(&key);
                }
                if self.tainted(n, p) {
                    return Answer::ok(ans);
                }
                let set: BTreeSet<Vec<u8>> = es.iter().map(|e| e.0.clone()).collect();
                if set.len() != es.len() {
                    return Answer::fail(ans, "drain:duplicate", "drain returned a key twice");
                }
                if let Some(e) = es.iter().find(|e| !present.contains(e)) {
                    return Answer::fail(ans, "drain:absent-entry", format!("drain returned {}={} which is not in the overlaid state", hex(&e.0), e.1));
                }
                let want = std::cmp::min(limit as usize, present.len());
                if es.len() != want {
                    return Answer::fail(ans, "drain:count", format!("drain returned {} entries, limit {} present {}", es.len(), limit, present.len()));
                }
                Answer::ok(ans)
            }
            Op::ScanSorted(n, p, limit) => {
                let r = catch(|| self.track().scan_sorted_substates(&node(n), PartitionNumber(p as u8), limit as u32, &mut no_io()).unwrap());
                let es: Vec<(Vec<u8>, u64)> = match r {
                    Ok(es) => es.iter().map(|(k, v)| (dbk(&SubstateKey::Sorted(k.clone())), unval(v))).collect(),
                    Err(_) => {
                        self.phase = Phase::Poisoned;
                        return if p % 3 == 2 { Answer::fail("panic", "scan-sorted:panic", "scan_sorted_substates panicked on a sorted partition") } else { Answer::ok("panic") };
                    }
                };
                let ans = show_entries(&es);
                if self.tainted(n, p) {
                    return Answer::ok(ans);
                }
                let exp: Vec<(Vec<u8>, u64)> = self.present(n, p).into_iter().take(limit as usize).collect();
                if es != exp {
                    return Answer::fail(ans, "scan-sorted:order", format!("scan_sorted returned {} but the first present entries are {}", show_entries(&es), show_entries(&exp)));
                }
                Answer::ok(ans)
            }
            Op::Fw(n, p, k) => {
                let key = (n, p, dbk(&k));
                let r = catch(|| self.track().force_write(&node(n), &PartitionNumber(p as u8), &k));
                match r {
                    Ok(()) => {
                        if !self.unspec.contains(&key) {
                            self.fw.insert(key.clone(), self.cur.get(&key).copied());
                        } else {
                            self.fw.remove(&key);
                        }
                        Answer::ok("ok")
                    }
                    Err(_) => {
                        self.phase = Phase::Poisoned;
                        if self.touched.contains(&key) && !self.created.contains(&n) {
                            return Answer::fail("panic", "force-write:panic", "force_write panicked on a substate the transaction had accessed");
                        }
                        Answer::ok("panic")
                    }
                }
            }
            Op::DelPart(n, p) => {
                self.track().delete_partition(&node(n), PartitionNumber(p as u8));
                self.deleted_parts.insert((n, p));
                Answer::ok("ok")
            }
            Op::Revert => {
                let r = catch(|| self.track().revert_non_force_write_changes());
                match r {
                    Ok(()) => {
                        // only the force-written substates are kept
                        let mut next = self.base.clone();
                        for (k, v) in &self.fw {
                            match v {
                                Some(v) => next.insert(k.clone(), *v),
                                None => next.remove(k),
                            };
                        }
                        // reads of reverted blind writes on existing nodes are unspecified (Garbage state)
                        let mut unspec: BTreeSet<K3> = self.unspec.clone();
                        for k in &self.blind {
                            if !self.created.contains(&k.0) && !self.fw.contains_key(k) {
                                unspec.insert(k.clone());
                            }
                        }
                        self.unspec = unspec;
                        self.cur = next;
                        self.fw.clear();
                        self.created.clear();
                        self.blind.clear();
                        self.touched.clear();
                        Answer::ok("ok")
                    }
                    Err(_) => {
                        self.phase = Phase::Poisoned;
                        if !self.fw.keys().any(|k| self.created.contains(&k.0)) {
                            return Answer::fail("panic", "revert:panic", "revert panicked although no force-written substate belongs to a created node");
                        }
                        Answer::ok("panic")
                    }
                }
            }
        }
    }
}

fn main() {
    main_with(&[("c12", &A)]);
}
