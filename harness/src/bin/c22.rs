//! C22 / C23 — SBOR schemas: payload validation against a schema (typed traverser + validator),
//! typed codecs of real `#[derive(ScryptoSbor)]` types vs their generated schemas, and the schema
//! comparison kernel. Areas `c22` and `c23` (see Driver/C22.lean, Driver/C23.lean for the protocol).
#![allow(clippy::all)]
use harness::util::*;
use num_bigint::BigUint;
use radix_common::prelude::*;
use radix_engine_interface::prelude::*;
use sbor::traversal::*;
use sbor::*;
use std::io::Write;
use std::marker::PhantomData;

type Sch = SchemaV1<ScryptoCustomSchema>;
type Kind = ScryptoLocalTypeKind;
type Val = TypeValidation<ScryptoCustomTypeValidation>;

// ------------------------------------------------------------------------------------------------
// token form of schemas (grammar in lean/RadixModel/Model/SborSchema.lean)

fn name_nat(s: &str) -> String {
    let mut b = vec![1u8];
    b.extend(s.as_bytes());
    BigUint::from_bytes_be(&b).to_string()
}
fn pkg_nat(p: &Option<PackageAddress>) -> String {
    match p {
        None => "0".to_string(),
        Some(a) => {
            let mut b = vec![1u8];
            b.extend(a.to_vec());
            BigUint::from_bytes_be(&b).to_string()
        }
    }
}
fn tid_toks(t: &LocalTypeId, o: &mut Vec<String>) {
    match t {
        LocalTypeId::WellKnown(w) => {
            o.push("0".into());
            o.push(w.as_index().to_string());
        }
        LocalTypeId::SchemaLocalIndex(i) => {
            o.push("1".into());
            o.push(i.to_string());
        }
    }
}
fn kind_toks(k: &Kind, o: &mut Vec<String>) {
    let mut p = |s: &str| o.push(s.to_string());
    match k {
        TypeKind::Any => p("0"),
        TypeKind::Bool => p("1"),
        TypeKind::I8 => { p("2"); p("0") }
        TypeKind::I16 => { p("2"); p("1") }
        TypeKind::I32 => { p("2"); p("2") }
        TypeKind::I64 => { p("2"); p("3") }
        TypeKind::I128 => { p("2"); p("4") }
        TypeKind::U8 => { p("2"); p("5") }
        TypeKind::U16 => { p("2"); p("6") }
        TypeKind::U32 => { p("2"); p("7") }
        TypeKind::U64 => { p("2"); p("8") }
        TypeKind::U128 => { p("2"); p("9") }
        TypeKind::String => p("3"),
        TypeKind::Array { element_type } => {
            p("4");
            tid_toks(element_type, o);
        }
        TypeKind::Tuple { field_types } => {
            p("5");
            o.push(field_types.len().to_string());
            for t in field_types {
                tid_toks(t, o);
            }
        }
        TypeKind::Enum { variants } => {
            p("6");
            o.push(variants.len().to_string());
            for (d, fs) in variants.iter() {
                o.push(d.to_string());
                o.push(fs.len().to_string());
                for t in fs {
                    tid_toks(t, o);
                }
            }
        }
        TypeKind::Map { key_type, value_type } => {
            p("7");
            tid_toks(key_type, o);
            tid_toks(value_type, o);
        }
        TypeKind::Custom(c) => {
            p("8");
            o.push(
                match c {
                    ScryptoCustomTypeKind::Reference => "0",
                    ScryptoCustomTypeKind::Own => "1",
                    ScryptoCustomTypeKind::Decimal => "2",
                    ScryptoCustomTypeKind::PreciseDecimal => "3",
                    ScryptoCustomTypeKind::NonFungibleLocalId => "4",
                }
                .to_string(),
            );
        }
    }
}
fn optname_toks(n: Option<&str>, o: &mut Vec<String>) {
    match n {
        None => o.push("0".into()),
        Some(s) => {
            o.push("1".into());
            o.push(name_nat(s));
        }
    }
}
fn meta_toks(m: &TypeMetadata, o: &mut Vec<String>) {
    optname_toks(m.type_name.as_deref(), o);
    match &m.child_names {
        None => o.push("0".into()),
        Some(ChildNames::NamedFields(ns)) => {
            o.push("1".into());
            o.push(ns.len().to_string());
            for n in ns {
                o.push(name_nat(n));
            }
        }
        Some(ChildNames::EnumVariants(vs)) => {
            o.push("2".into());
            o.push(vs.len().to_string());
            for (d, vm) in vs.iter() {
                o.push(d.to_string());
                optname_toks(vm.type_name.as_deref(), o);
                match &vm.child_names {
                    Some(ChildNames::NamedFields(ns)) => {
                        o.push("1".into());
                        o.push(ns.len().to_string());
                        for n in ns {
                            o.push(name_nat(n));
                        }
                    }
                    _ => o.push("0".into()),
                }
            }
        }
    }
}
fn optint_toks(neg: bool, abs: Option<String>, o: &mut Vec<String>) {
    match abs {
        None => o.push("0".into()),
        Some(a) => {
            o.push("1".into());
            o.push(if neg { "1" } else { "0" }.into());
            o.push(a);
        }
    }
}
macro_rules! num_toks {
    ($o:expr, $k:expr, $nv:expr) => {{
        $o.push("1".to_string());
        $o.push($k.to_string());
        let f = |x: i128| (x < 0, x.unsigned_abs().to_string());
        match $nv.min { None => optint_toks(false, None, $o), Some(x) => { let (n, a) = f(x as i128); optint_toks(n, Some(a), $o) } }
        match $nv.max { None => optint_toks(false, None, $o), Some(x) => { let (n, a) = f(x as i128); optint_toks(n, Some(a), $o) } }
    }};
}
fn len_toks(tag: &str, l: &LengthValidation, o: &mut Vec<String>) {
    o.push(tag.into());
    optint_toks(false, l.min.map(|x| x.to_string()), o);
    optint_toks(false, l.max.map(|x| x.to_string()), o);
}
fn val_toks(v: &Val, o: &mut Vec<String>) {
    match v {
        TypeValidation::None => o.push("0".into()),
        TypeValidation::I8(n) => num_toks!(o, 0, n),
        TypeValidation::I16(n) => num_toks!(o, 1, n),
        TypeValidation::I32(n) => num_toks!(o, 2, n),
        TypeValidation::I64(n) => num_toks!(o, 3, n),
        TypeValidation::I128(n) => num_toks!(o, 4, n),
        TypeValidation::U8(n) => num_toks!(o, 5, n),
        TypeValidation::U16(n) => num_toks!(o, 6, n),
        TypeValidation::U32(n) => num_toks!(o, 7, n),
        TypeValidation::U64(n) => num_toks!(o, 8, n),
        TypeValidation::U128(n) => {
            o.push("1".into());
            o.push("9".into());
            optint_toks(false, n.min.map(|x| x.to_string()), o);
            optint_toks(false, n.max.map(|x| x.to_string()), o);
        }
        TypeValidation::String(l) => len_toks("2", l, o),
        TypeValidation::Array(l) => len_toks("3", l, o),
        TypeValidation::Map(l) => len_toks("4", l, o),
        TypeValidation::Custom(ScryptoCustomTypeValidation::Reference(r)) => {
            o.push("5".into());
            match r {
                ReferenceValidation::IsGlobal => o.push("0".into()),
                ReferenceValidation::IsGlobalPackage => o.push("1".into()),
                ReferenceValidation::IsGlobalComponent => o.push("2".into()),
                ReferenceValidation::IsGlobalResourceManager => o.push("3".into()),
                ReferenceValidation::IsGlobalTyped(p, n) => {
                    o.push("4".into());
                    o.push(pkg_nat(p));
                    o.push(name_nat(n));
                }
                ReferenceValidation::IsInternal => o.push("5".into()),
                ReferenceValidation::IsInternalTyped(p, n) => {
                    o.push("6".into());
                    o.push(pkg_nat(p));
                    o.push(name_nat(n));
                }
            }
        }
        TypeValidation::Custom(ScryptoCustomTypeValidation::Own(w)) => {
            o.push("6".into());
            match w {
                OwnValidation::IsBucket => o.push("0".into()),
                OwnValidation::IsProof => o.push("1".into()),
                OwnValidation::IsVault => o.push("2".into()),
                OwnValidation::IsKeyValueStore => o.push("3".into()),
                OwnValidation::IsGlobalAddressReservation => o.push("4".into()),
                OwnValidation::IsTypedObject(p, n) => {
                    o.push("5".into());
                    o.push(pkg_nat(p));
                    o.push(name_nat(n));
                }
            }
        }
    }
}
fn schema_toks(s: &Sch) -> Vec<String> {
    let mut o = vec![];
    o.push(s.type_kinds.len().to_string());
    for k in &s.type_kinds {
        kind_toks(k, &mut o);
    }
    o.push(s.type_metadata.len().to_string());
    for m in &s.type_metadata {
        meta_toks(m, &mut o);
    }
    o.push(s.type_validations.len().to_string());
    for v in &s.type_validations {
        val_toks(v, &mut o);
    }
    o
}
fn schema_line(op: &str, s: &Sch) -> String {
    let v = VersionedScryptoSchema::from_latest_version(s.clone());
    format!("{} {} {}", op, hex(&scrypto_encode(&v).unwrap()), schema_toks(s).join(" "))
}
fn parse_schema_line(t: &[&str]) -> Option<Sch> {
    // t = [op, hex, tokens…]; the tokens must be exactly the token form of the decoded schema
    let bytes = unhex(t.get(1)?)?;
    let v: VersionedScryptoSchema = scrypto_decode(&bytes).ok()?;
    let s = v.fully_update_and_into_latest_version();
    let toks = schema_toks(&s);
    if toks.len() != t.len() - 2 || toks.iter().zip(t[2..].iter()).any(|(a, b)| a != b) {
        return None;
    }
    Some(s)
}
fn tid_str(t: &LocalTypeId) -> String {
    let mut o = vec![];
    tid_toks(t, &mut o);
    o.join(" ")
}
fn parse_tid(tag: &str, n: &str) -> Option<LocalTypeId> {
    let n: usize = n.parse().ok()?;
    match tag {
        "0" if n < 256 => Some(LocalTypeId::WellKnown(WellKnownTypeId::of(n as u8))),
        "1" => Some(LocalTypeId::SchemaLocalIndex(n)),
        _ => None,
    }
}

// ------------------------------------------------------------------------------------------------
// constants of the compiled tree

fn consts_common() -> Vec<(String, String)> {
    let mut out = vec![];
    out.push(("ANY_TYPE".to_string(), basic_well_known_types::ANY_TYPE.as_index().to_string()));
    let mut wk = vec![];
    for id in 0..=255u8 {
        if let Some(td) = ScryptoCustomSchema::resolve_well_known_type(WellKnownTypeId::of(id)) {
            let mut o = vec![];
            kind_toks(&td.kind, &mut o);
            meta_toks(&td.metadata, &mut o);
            val_toks(&td.validation, &mut o);
            wk.push(format!("({}, [{}])", id, o.join(", ")));
        }
    }
    out.push(("WELL_KNOWN".to_string(), format!("[{}]\traw\tList (Nat × List Nat)", wk.join(", "))));
    let cls = |f: &dyn Fn(&NodeId) -> bool| -> String {
        let v: Vec<String> = (0..=255u8).filter(|b| f(&NodeId([*b; 30]))).map(|b| b.to_string()).collect();
        format!("[{}]\traw\tList Nat", v.join(", "))
    };
    out.push(("ENT_GLOBAL".to_string(), cls(&|n| n.is_global())));
    out.push(("ENT_GLOBAL_PACKAGE".to_string(), cls(&|n| n.is_global_package())));
    out.push(("ENT_GLOBAL_COMPONENT".to_string(), cls(&|n| n.is_global_component())));
    out.push(("ENT_GLOBAL_RESOURCE_MANAGER".to_string(), cls(&|n| n.is_global_resource_manager())));
    out.push(("ENT_INTERNAL".to_string(), cls(&|n| n.is_internal())));
    out.push(("ENT_INTERNAL_VAULT".to_string(), cls(&|n| n.is_internal_vault())));
    out.push(("ENT_INTERNAL_KV_STORE".to_string(), cls(&|n| n.is_internal_kv_store())));
    out
}

// ------------------------------------------------------------------------------------------------
// the real validator, canonicalised

/// "ok" | "undecodable" | "invalid <class>"; second component: the validator accepted.
fn real_validate(s: &Sch, tid: LocalTypeId, depth: usize, payload: &[u8]) -> (String, bool, Option<(String, String)>) {
    let r = catch(|| {
        validate_payload_against_schema::<ScryptoCustomExtension, ()>(payload, s, tid, &(), depth)
            .map_err(|e| e.error)
    });
    let decodable = catch(|| scrypto_decode_with_depth_limit::<ScryptoValue>(payload, depth).is_ok()).unwrap_or(false);
    match r {
        Err(_) => ("invalid panic".to_string(), false, None),
        Ok(Ok(())) => {
            if !decodable {
                return (
                    "ok".to_string(),
                    true,
                    Some(("valid-but-undecodable".to_string(), "the validator accepted a payload that the value decoder rejects".to_string())),
                );
            }
            ("ok".to_string(), true, None)
        }
        Ok(Err(e)) => {
            if !decodable {
                return ("undecodable".to_string(), false, None);
            }
            let cls = match e {
                PayloadValidationError::TraversalError(TypedTraversalError::TypeIdNotFound(_)) => "TypeIdNotFound".to_string(),
                PayloadValidationError::TraversalError(TypedTraversalError::DecodeError(d)) => format!("DecodeError:{:?}", d).replace(' ', ""),
                PayloadValidationError::TraversalError(TypedTraversalError::ValueMismatchWithType(m)) => match m {
                    TypeMismatchError::MismatchingType { .. } => "MismatchingType",
                    TypeMismatchError::MismatchingChildElementType { .. } => "MismatchingChildElementType",
                    TypeMismatchError::MismatchingChildKeyType { .. } => "MismatchingChildKeyType",
                    TypeMismatchError::MismatchingChildValueType { .. } => "MismatchingChildValueType",
                    TypeMismatchError::MismatchingTupleLength { .. } => "MismatchingTupleLength",
                    TypeMismatchError::MismatchingEnumVariantLength { .. } => "MismatchingEnumVariantLength",
                    TypeMismatchError::UnknownEnumVariant { .. } => "UnknownEnumVariant",
                }
                .to_string(),
                PayloadValidationError::ValidationError(v) => match v {
                    ValidationError::LengthValidationError { .. } => "LengthValidationError",
                    ValidationError::CustomError(_) => "CustomError",
                    _ => "NumericValidationError",
                }
                .to_string(),
                PayloadValidationError::SchemaInconsistency => "SchemaInconsistency".to_string(),
            };
            (format!("invalid {}", cls), false, None)
        }
    }
}

/// Error class for oracle keys. `CustomError` is reserved for the Own-wrapper entity-type case
/// (known finding); a failing Reference validation is reported as `CustomErrorReference`.
fn err_class(s: &Sch, tid: LocalTypeId, depth: usize, payload: &[u8], ans: &str) -> String {
    let cls = ans.replace("invalid ", "").replace(' ', "-");
    if cls == "CustomError" {
        let r = catch(|| validate_payload_against_schema::<ScryptoCustomExtension, ()>(payload, s, tid, &(), depth).map_err(|e| e.error));
        if let Ok(Err(PayloadValidationError::ValidationError(ValidationError::CustomError(m)))) = r {
            if m.starts_with("Expected = Own<") {
                return "CustomError".to_string();
            }
            if m.starts_with("Expected = Reference<") {
                return "CustomErrorReference".to_string();
            }
        }
        return "CustomErrorOther".to_string();
    }
    cls
}

// ------------------------------------------------------------------------------------------------
// real SBOR-derived types

trait TypedCase {
    fn name(&self) -> String;
    fn schema(&self) -> (LocalTypeId, Sch);
    /// typed decode; Some((re-encoding of the decoded value, decode(re-encoding) == value))
    fn try_decode(&self, payload: &[u8]) -> Option<(Vec<u8>, bool)>;
}
struct Case<T>(&'static str, PhantomData<T>);
impl<T: ScryptoSbor + PartialEq + 'static> TypedCase for Case<T> {
    fn name(&self) -> String {
        self.0.replace(' ', "")
    }
    fn schema(&self) -> (LocalTypeId, Sch) {
        let (t, s) = generate_full_schema_from_single_type::<T, ScryptoCustomSchema>();
        (t, s.fully_update_and_into_latest_version())
    }
    fn try_decode(&self, payload: &[u8]) -> Option<(Vec<u8>, bool)> {
        match catch(|| scrypto_decode::<T>(payload)) {
            Ok(Ok(x)) => {
                let re = scrypto_encode(&x).ok()?;
                let same = matches!(scrypto_decode::<T>(&re), Ok(y) if y == x);
                Some((re, same))
            }
            _ => None,
        }
    }
}
macro_rules! cases {
    ($($t:ty),* $(,)?) => { vec![$(Box::new(Case::<$t>(stringify!($t), PhantomData)) as Box<dyn TypedCase>),*] };
}

// purpose-built types exercising the derive options
#[derive(ScryptoSbor, PartialEq, Eq, Debug, Clone)]
struct TUnit;
#[derive(ScryptoSbor, PartialEq, Eq, Debug, Clone)]
struct TNamed {
    a: u8,
    b: String,
    c: Option<Vec<u16>>,
}
#[derive(ScryptoSbor, PartialEq, Eq, Debug, Clone)]
struct TTuple(i64, bool, (u8, u8));
#[derive(ScryptoSbor, PartialEq, Eq, Debug, Clone)]
#[sbor(transparent)]
struct TTransparent(Vec<u8>);
#[derive(ScryptoSbor, PartialEq, Eq, Debug, Clone)]
#[sbor(transparent)]
struct TTransparentNamed {
    inner: BTreeMap<String, TNamed>,
}
#[derive(ScryptoSbor, PartialEq, Eq, Debug, Clone)]
enum TEnum {
    #[sbor(discriminator(0))]
    A,
    #[sbor(discriminator(5))]
    B(u32),
    #[sbor(discriminator(6))]
    C { x: String, y: TTuple },
    #[sbor(discriminator(77))]
    D(Box<TEnum>),
}
#[derive(ScryptoSbor, PartialEq, Eq, Debug, Clone)]
#[sbor(categorize_types = "T")]
struct TGeneric<T> {
    one: T,
    many: Vec<T>,
    map: BTreeMap<u8, T>,
}
#[derive(ScryptoSbor, PartialEq, Eq, Debug, Clone)]
struct TSkip {
    keep: u16,
    #[sbor(skip)]
    skipped: u32,
    also: [u8; 3],
}
#[derive(ScryptoSbor, PartialEq, Eq, Debug, Clone)]
enum TFlatten {
    #[sbor(flatten)]
    One(TNamed),
    Two(Decimal, PreciseDecimal),
}
#[derive(ScryptoSbor, PartialEq, Eq, Debug)]
struct TCustom {
    comp: ComponentAddress,
    res: ResourceAddress,
    pkg: PackageAddress,
    glob: GlobalAddress,
    int: InternalAddress,
    id: NonFungibleLocalId,
    own: Own,
    bucket: Bucket,
    vault: Vault,
}
#[derive(ScryptoSbor, PartialEq, Eq, Debug, Clone)]
struct TNested(Option<Vec<BTreeMap<u8, Option<Result<String, (u8, TEnum)>>>>>);

fn registry() -> Vec<Box<dyn TypedCase>> {
    use radix_engine::blueprints::consensus_manager::*;
    use radix_engine::blueprints::resource::*;
    use radix_engine::system::type_info::TypeInfoSubstate;
    use radix_engine::transaction::*;
    cases![
        u8, i64, u128, bool, String, (), (u8, String), Vec<u8>, Vec<u32>, Option<String>, Result<u8, String>,
        BTreeMap<String, u32>, [u8; 4], [u16; 2], Vec<(u32, bool)>, BTreeSet<u16>,
        TUnit, TNamed, TTuple, TTransparent, TTransparentNamed, TEnum, TGeneric<u32>, TGeneric<TEnum>, TSkip, TFlatten, TCustom, TNested,
        Decimal, PreciseDecimal, NonFungibleLocalId, ComponentAddress, ResourceAddress, PackageAddress, GlobalAddress,
        InternalAddress, NonFungibleGlobalId, Hash, Epoch, Round, Instant, Own, Reference, Bucket, Proof, Vault,
        Secp256k1PublicKey, Ed25519PublicKey, PublicKey, PublicKeyHash,
        ResourceOrNonFungible, AccessRule, CompositeRequirement, BasicRequirement, RoleKey, OwnerRole, MetadataValue, BlueprintId,
        ResourceType, LiquidFungibleResource, LockedFungibleResource, LiquidNonFungibleVault,
        VaultCreationEvent, MintFungibleResourceEvent, BurnFungibleResourceEvent, EpochChangeEvent, RoundChangeEvent,
        ConsensusManagerSubstate, Validator, ActiveValidatorSet, ValidatorSubstate, TypeInfoSubstate,
        CostingParameters, TransactionFeeSummary, FeeLocks, EventTypeIdentifier,
    ]
}

// ------------------------------------------------------------------------------------------------
// random schemas

const NAMES: &[&str] = &["Alpha", "Beta", "Gamma", "Delta", "Eps", "field_a", "field_b", "field_c", "x", "y"];

fn wk(i: u8) -> LocalTypeId {
    LocalTypeId::WellKnown(WellKnownTypeId::of(i))
}
fn known_wk_ids() -> Vec<u8> {
    (0..=255u8).filter(|i| ScryptoCustomSchema::resolve_well_known_type(WellKnownTypeId::of(*i)).is_some()).collect()
}
fn gen_tid(rng: &mut Rng, n: usize, wks: &[u8]) -> LocalTypeId {
    match rng.below(20) {
        0..=9 => LocalTypeId::SchemaLocalIndex(rng.below(n as u64) as usize),
        10..=15 => wk(*rng.pick(&[1u8, 2, 5, 7, 7, 9, 11, 12, 0x40, 0x41, 0x42])),
        16..=18 => wk(*rng.pick(wks)),
        _ => {
            if rng.chance(1, 2) { LocalTypeId::SchemaLocalIndex(n + rng.below(2) as usize) } else { wk(rng.below(256) as u8) }
        }
    }
}
fn gen_len_validation(rng: &mut Rng) -> LengthValidation {
    let a = rng.below(5) as u32;
    let b = rng.below(6) as u32;
    LengthValidation {
        min: if rng.chance(1, 2) { Some(a) } else { None },
        max: if rng.chance(1, 2) { Some(if rng.chance(9, 10) { a + b } else { b }) } else { None },
    }
}
macro_rules! gen_num_validation {
    ($rng:expr, $ty:ty) => {{
        let lo: $ty = match $rng.below(4) { 0 => <$ty>::MIN, 1 => 0 as $ty, 2 => ($rng.below(100) as $ty), _ => ($rng.next() as $ty) };
        let span: $ty = match $rng.below(3) { 0 => 0 as $ty, 1 => ($rng.below(50) as $ty), _ => <$ty>::MAX };
        let hi = lo.checked_add(span).unwrap_or(<$ty>::MAX);
        NumericValidation::<$ty> {
            min: if $rng.chance(2, 3) { Some(lo) } else { None },
            max: if $rng.chance(2, 3) { Some(if $rng.chance(19, 20) { hi } else { lo.wrapping_sub(1) }) } else { None },
        }
    }};
}
fn gen_ref_validation(rng: &mut Rng) -> ReferenceValidation {
    match rng.below(7) {
        0 => ReferenceValidation::IsGlobal,
        1 => ReferenceValidation::IsGlobalPackage,
        2 => ReferenceValidation::IsGlobalComponent,
        3 => ReferenceValidation::IsGlobalResourceManager,
        4 => ReferenceValidation::IsGlobalTyped(if rng.chance(1, 2) { Some(RESOURCE_PACKAGE) } else { None }, rng.pick(NAMES).to_string()),
        5 => ReferenceValidation::IsInternal,
        _ => ReferenceValidation::IsInternalTyped(if rng.chance(1, 2) { Some(ACCOUNT_PACKAGE) } else { None }, rng.pick(NAMES).to_string()),
    }
}
fn gen_own_validation(rng: &mut Rng) -> OwnValidation {
    match rng.below(6) {
        0 => OwnValidation::IsBucket,
        1 => OwnValidation::IsProof,
        2 => OwnValidation::IsVault,
        3 => OwnValidation::IsKeyValueStore,
        4 => OwnValidation::IsGlobalAddressReservation,
        _ => OwnValidation::IsTypedObject(if rng.chance(1, 2) { Some(RESOURCE_PACKAGE) } else { None }, rng.pick(NAMES).to_string()),
    }
}
fn natural_validation(rng: &mut Rng, k: &Kind) -> Val {
    if rng.chance(1, 2) {
        return TypeValidation::None;
    }
    match k {
        TypeKind::I8 => TypeValidation::I8(gen_num_validation!(rng, i8)),
        TypeKind::I16 => TypeValidation::I16(gen_num_validation!(rng, i16)),
        TypeKind::I32 => TypeValidation::I32(gen_num_validation!(rng, i32)),
        TypeKind::I64 => TypeValidation::I64(gen_num_validation!(rng, i64)),
        TypeKind::I128 => TypeValidation::I128(gen_num_validation!(rng, i128)),
        TypeKind::U8 => TypeValidation::U8(gen_num_validation!(rng, u8)),
        TypeKind::U16 => TypeValidation::U16(gen_num_validation!(rng, u16)),
        TypeKind::U32 => TypeValidation::U32(gen_num_validation!(rng, u32)),
        TypeKind::U64 => TypeValidation::U64(gen_num_validation!(rng, u64)),
        TypeKind::U128 => TypeValidation::U128(gen_num_validation!(rng, u128)),
        TypeKind::String => TypeValidation::String(gen_len_validation(rng)),
        TypeKind::Array { .. } => TypeValidation::Array(gen_len_validation(rng)),
        TypeKind::Map { .. } => TypeValidation::Map(gen_len_validation(rng)),
        TypeKind::Custom(ScryptoCustomTypeKind::Reference) => TypeValidation::Custom(ScryptoCustomTypeValidation::Reference(gen_ref_validation(rng))),
        TypeKind::Custom(ScryptoCustomTypeKind::Own) => TypeValidation::Custom(ScryptoCustomTypeValidation::Own(gen_own_validation(rng))),
        _ => TypeValidation::None,
    }
}
fn any_validation(rng: &mut Rng) -> Val {
    let ks: [Kind; 8] = [
        TypeKind::U8, TypeKind::I32, TypeKind::String, TypeKind::Array { element_type: wk(7) },
        TypeKind::Map { key_type: wk(7), value_type: wk(7) },
        TypeKind::Custom(ScryptoCustomTypeKind::Reference), TypeKind::Custom(ScryptoCustomTypeKind::Own), TypeKind::U128,
    ];
    let k = rng.pick(&ks).clone();
    loop {
        let v = natural_validation(rng, &k);
        if v != TypeValidation::None {
            return v;
        }
    }
}
fn natural_metadata(rng: &mut Rng, k: &Kind) -> TypeMetadata {
    let nm = |rng: &mut Rng| -> Option<Cow<'static, str>> { if rng.chance(2, 3) { Some(Cow::Borrowed(*rng.pick(NAMES))) } else { None } };
    match k {
        TypeKind::Tuple { field_types } => TypeMetadata {
            type_name: nm(rng),
            child_names: if rng.chance(1, 2) {
                Some(ChildNames::NamedFields((0..field_types.len()).map(|i| Cow::Owned(format!("f{}", i))).collect()))
            } else {
                None
            },
        },
        TypeKind::Enum { variants } => TypeMetadata {
            type_name: Some(Cow::Borrowed(*rng.pick(NAMES))),
            child_names: Some(ChildNames::EnumVariants(
                variants
                    .iter()
                    .map(|(d, fs)| {
                        (
                            *d,
                            TypeMetadata {
                                type_name: Some(Cow::Owned(format!("V{}", d))),
                                child_names: if rng.chance(1, 2) && !fs.is_empty() {
                                    Some(ChildNames::NamedFields((0..fs.len()).map(|i| Cow::Owned(format!("g{}", i))).collect()))
                                } else {
                                    None
                                },
                            },
                        )
                    })
                    .collect(),
            )),
        },
        _ => TypeMetadata { type_name: nm(rng), child_names: None },
    }
}
fn gen_kind(rng: &mut Rng, n: usize, wks: &[u8]) -> Kind {
    match rng.below(24) {
        0..=4 => TypeKind::Tuple { field_types: (0..rng.below(4)).map(|_| gen_tid(rng, n, wks)).collect() },
        5..=8 => {
            let mut variants = IndexMap::new();
            for _ in 0..(1 + rng.below(3)) {
                let d = *rng.pick(&[0u8, 1, 2, 3, 7, 255]);
                variants.insert(d, (0..rng.below(3)).map(|_| gen_tid(rng, n, wks)).collect::<Vec<_>>());
            }
            TypeKind::Enum { variants }
        }
        9..=11 => TypeKind::Array { element_type: gen_tid(rng, n, wks) },
        12..=13 => TypeKind::Map { key_type: gen_tid(rng, n, wks), value_type: gen_tid(rng, n, wks) },
        14 => TypeKind::Any,
        15 => TypeKind::Bool,
        16 => TypeKind::String,
        17 => TypeKind::U8,
        18 => rng.pick(&[TypeKind::I8, TypeKind::I16, TypeKind::I32, TypeKind::I64, TypeKind::I128]).clone(),
        19 => rng.pick(&[TypeKind::U16, TypeKind::U32, TypeKind::U64, TypeKind::U128]).clone(),
        20 => TypeKind::Custom(ScryptoCustomTypeKind::Reference),
        21 => TypeKind::Custom(ScryptoCustomTypeKind::Own),
        _ => TypeKind::Custom(rng.pick(&[ScryptoCustomTypeKind::Decimal, ScryptoCustomTypeKind::PreciseDecimal, ScryptoCustomTypeKind::NonFungibleLocalId]).clone()),
    }
}
/// A random schema; `wild` also produces inconsistent ones (wrong validation for the kind, missing
/// metadata, vectors of different lengths, dangling ids).
fn gen_schema(rng: &mut Rng, wild: bool) -> Sch {
    let wks = known_wk_ids();
    let n = 1 + rng.below(6) as usize;
    let mut s = Sch { type_kinds: vec![], type_metadata: vec![], type_validations: vec![] };
    for _ in 0..n {
        let mut k = gen_kind(rng, n, &wks);
        if !wild {
            // keep ids resolvable
            let fix = |t: &mut LocalTypeId| match t {
                LocalTypeId::SchemaLocalIndex(i) if *i >= n => *t = wk(7),
                LocalTypeId::WellKnown(w) if ScryptoCustomSchema::resolve_well_known_type(*w).is_none() => *t = wk(12),
                _ => {}
            };
            match &mut k {
                TypeKind::Array { element_type } => fix(element_type),
                TypeKind::Tuple { field_types } => field_types.iter_mut().for_each(fix),
                TypeKind::Enum { variants } => variants.values_mut().for_each(|v| v.iter_mut().for_each(fix)),
                TypeKind::Map { key_type, value_type } => {
                    fix(key_type);
                    fix(value_type);
                }
                _ => {}
            }
        }
        let v = if wild && rng.chance(1, 8) { any_validation(rng) } else { natural_validation(rng, &k) };
        let m = if wild && rng.chance(1, 10) { TypeMetadata::unnamed() } else { natural_metadata(rng, &k) };
        s.type_kinds.push(k);
        s.type_metadata.push(m);
        s.type_validations.push(v);
    }
    if wild && rng.chance(1, 10) {
        match rng.below(3) {
            0 => { s.type_validations.pop(); }
            1 => { s.type_metadata.pop(); }
            _ => { s.type_kinds.pop(); }
        }
    }
    s
}

// ------------------------------------------------------------------------------------------------
// values guided by a schema

struct VGen<'a> {
    s: &'a Sch,
    /// false as soon as a choice was made that is not known to respect the schema
    valid: bool,
    budget: i32,
    /// probability (in 1/64) of deliberately leaving the schema at a node
    stray: u64,
}
fn value_kind_of(v: &ScryptoValue) -> ScryptoValueKind {
    match v {
        Value::Bool { .. } => ValueKind::Bool,
        Value::I8 { .. } => ValueKind::I8,
        Value::I16 { .. } => ValueKind::I16,
        Value::I32 { .. } => ValueKind::I32,
        Value::I64 { .. } => ValueKind::I64,
        Value::I128 { .. } => ValueKind::I128,
        Value::U8 { .. } => ValueKind::U8,
        Value::U16 { .. } => ValueKind::U16,
        Value::U32 { .. } => ValueKind::U32,
        Value::U64 { .. } => ValueKind::U64,
        Value::U128 { .. } => ValueKind::U128,
        Value::String { .. } => ValueKind::String,
        Value::Enum { .. } => ValueKind::Enum,
        Value::Array { .. } => ValueKind::Array,
        Value::Tuple { .. } => ValueKind::Tuple,
        Value::Map { .. } => ValueKind::Map,
        Value::Custom { value } => ValueKind::Custom(match value {
            ScryptoCustomValue::Reference(_) => ScryptoCustomValueKind::Reference,
            ScryptoCustomValue::Own(_) => ScryptoCustomValueKind::Own,
            ScryptoCustomValue::Decimal(_) => ScryptoCustomValueKind::Decimal,
            ScryptoCustomValue::PreciseDecimal(_) => ScryptoCustomValueKind::PreciseDecimal,
            ScryptoCustomValue::NonFungibleLocalId(_) => ScryptoCustomValueKind::NonFungibleLocalId,
        }),
    }
}
macro_rules! gen_int_value {
    ($self:expr, $rng:expr, $ty:ty, $variant:ident, $val:expr) => {{
        let (lo, hi) = match $val {
            Some(TypeValidation::$variant(nv)) => (nv.min.unwrap_or(<$ty>::MIN), nv.max.unwrap_or(<$ty>::MAX)),
            Some(TypeValidation::None) => (<$ty>::MIN, <$ty>::MAX),
            _ => { $self.valid = false; (<$ty>::MIN, <$ty>::MAX) }
        };
        let cand: $ty = match $rng.below(6) {
            0 => lo,
            1 => hi,
            2 => lo.wrapping_add(1),
            3 => hi.wrapping_sub(1),
            4 => lo.wrapping_sub(1),
            _ => $rng.next() as $ty,
        };
        if !(lo <= cand && cand <= hi) {
            if $rng.below(64) < $self.stray || lo > hi { $self.valid = false; cand } else { lo }
        } else { cand }
    }};
}
impl<'a> VGen<'a> {
    fn len_in(&mut self, rng: &mut Rng, v: Option<&Val>, which: u8) -> usize {
        let lv = match (v, which) {
            (Some(TypeValidation::String(l)), 0) | (Some(TypeValidation::Array(l)), 1) | (Some(TypeValidation::Map(l)), 2) => *l,
            (Some(TypeValidation::None), _) => LengthValidation::none(),
            _ => {
                self.valid = false;
                LengthValidation::none()
            }
        };
        let lo = lv.min.unwrap_or(0) as usize;
        let hi = lv.max.unwrap_or(u32::MAX) as usize;
        let cap = if self.budget <= 0 { 0 } else { 4 };
        let mut n = match rng.below(5) { 0 => lo, 1 => hi.min(lo + 6), 2 => lo + 1, 3 => lo.saturating_sub(1), _ => rng.below(5) as usize };
        if !(lo <= n && n <= hi) {
            if rng.below(64) < self.stray || lo > hi || lo > 40 { self.valid = false; n = n.min(8); } else { n = lo; }
        } else if n > cap.max(lo) {
            n = cap.max(lo);
        }
        n
    }
    fn simple_of_kind(&mut self, rng: &mut Rng, vk: ScryptoValueKind) -> ScryptoValue {
        match vk {
            ValueKind::Bool => Value::Bool { value: rng.chance(1, 2) },
            ValueKind::I8 => Value::I8 { value: rng.next() as i8 },
            ValueKind::I16 => Value::I16 { value: rng.next() as i16 },
            ValueKind::I32 => Value::I32 { value: rng.next() as i32 },
            ValueKind::I64 => Value::I64 { value: rng.next() as i64 },
            ValueKind::I128 => Value::I128 { value: rng.next() as i128 },
            ValueKind::U8 => Value::U8 { value: rng.next() as u8 },
            ValueKind::U16 => Value::U16 { value: rng.next() as u16 },
            ValueKind::U32 => Value::U32 { value: rng.next() as u32 },
            ValueKind::U64 => Value::U64 { value: rng.next() },
            ValueKind::U128 => Value::U128 { value: rng.next() as u128 },
            ValueKind::String => Value::String { value: ["", "a", "héllo", "xyz_1"][rng.below(4) as usize].to_string() },
            ValueKind::Tuple => Value::Tuple { fields: if rng.chance(1, 2) { vec![] } else { vec![Value::U8 { value: 1 }, Value::String { value: "t".into() }] } },
            ValueKind::Enum => Value::Enum { discriminator: rng.below(3) as u8, fields: if rng.chance(1, 2) { vec![] } else { vec![Value::Bool { value: true }] } },
            ValueKind::Array => Value::Array { element_value_kind: ValueKind::U8, elements: (0..rng.below(3)).map(|i| Value::U8 { value: i as u8 }).collect() },
            ValueKind::Map => Value::Map { key_value_kind: ValueKind::U8, value_value_kind: ValueKind::String, entries: (0..rng.below(3)).map(|i| (Value::U8 { value: i as u8 }, Value::String { value: "v".into() })).collect() },
            ValueKind::Custom(c) => Value::Custom { value: self.custom(rng, c, None) },
        }
    }
    fn node(&mut self, rng: &mut Rng, pred: Option<&dyn Fn(&NodeId) -> bool>) -> NodeId {
        let all: Vec<u8> = (0..=255u8).collect();
        let ok: Vec<u8> = match pred { Some(p) => all.iter().copied().filter(|b| p(&NodeId([*b; 30]))).collect(), None => all.clone() };
        let b = if ok.is_empty() || rng.below(64) < self.stray {
            self.valid = false;
            *rng.pick(&all)
        } else {
            *rng.pick(&ok)
        };
        let mut id = [b; 30];
        id[29] = rng.next() as u8;
        NodeId(id)
    }
    fn custom(&mut self, rng: &mut Rng, c: ScryptoCustomValueKind, v: Option<&Val>) -> ScryptoCustomValue {
        match c {
            ScryptoCustomValueKind::Reference => {
                let n = match v {
                    Some(TypeValidation::Custom(ScryptoCustomTypeValidation::Reference(r))) => {
                        let r = r.clone();
                        self.node(rng, Some(&move |n: &NodeId| match &r {
                            ReferenceValidation::IsGlobal | ReferenceValidation::IsGlobalTyped(_, _) => n.is_global(),
                            ReferenceValidation::IsGlobalPackage => n.is_global_package(),
                            ReferenceValidation::IsGlobalComponent => n.is_global_component(),
                            ReferenceValidation::IsGlobalResourceManager => n.is_global_resource_manager(),
                            ReferenceValidation::IsInternal | ReferenceValidation::IsInternalTyped(_, _) => n.is_internal(),
                        }))
                    }
                    Some(TypeValidation::None) | None => self.node(rng, None),
                    _ => { self.valid = false; self.node(rng, None) }
                };
                ScryptoCustomValue::Reference(Reference(n))
            }
            ScryptoCustomValueKind::Own => {
                let n = match v {
                    Some(TypeValidation::Custom(ScryptoCustomTypeValidation::Own(o))) => {
                        let o = o.clone();
                        self.node(rng, Some(&move |n: &NodeId| match &o {
                            OwnValidation::IsBucket | OwnValidation::IsProof => n.is_internal(),
                            OwnValidation::IsVault => n.is_internal_vault(),
                            OwnValidation::IsKeyValueStore => n.is_internal_kv_store(),
                            _ => true,
                        }))
                    }
                    Some(TypeValidation::None) | None => self.node(rng, None),
                    _ => { self.valid = false; self.node(rng, None) }
                };
                ScryptoCustomValue::Own(Own(n))
            }
            ScryptoCustomValueKind::Decimal => ScryptoCustomValue::Decimal(Decimal::from_attos(I192::from(rng.next() as i64))),
            ScryptoCustomValueKind::PreciseDecimal => ScryptoCustomValue::PreciseDecimal(PreciseDecimal::from_precise_subunits(I256::from(rng.next() as i64))),
            ScryptoCustomValueKind::NonFungibleLocalId => ScryptoCustomValue::NonFungibleLocalId(match rng.below(4) {
                0 => NonFungibleLocalId::integer(rng.next()),
                1 => NonFungibleLocalId::string("ab_1").unwrap(),
                2 => NonFungibleLocalId::bytes(vec![1u8, 2, 3]).unwrap(),
                _ => NonFungibleLocalId::ruid([rng.next() as u8; 32]),
            }),
        }
    }
    /// the value kind a value of type `t` must have (None for Any / unresolvable)
    fn kind_of_type(&self, t: LocalTypeId) -> Option<ScryptoValueKind> {
        Some(match self.s.resolve_type_kind(t)? {
            TypeKind::Any => return None,
            TypeKind::Bool => ValueKind::Bool,
            TypeKind::I8 => ValueKind::I8,
            TypeKind::I16 => ValueKind::I16,
            TypeKind::I32 => ValueKind::I32,
            TypeKind::I64 => ValueKind::I64,
            TypeKind::I128 => ValueKind::I128,
            TypeKind::U8 => ValueKind::U8,
            TypeKind::U16 => ValueKind::U16,
            TypeKind::U32 => ValueKind::U32,
            TypeKind::U64 => ValueKind::U64,
            TypeKind::U128 => ValueKind::U128,
            TypeKind::String => ValueKind::String,
            TypeKind::Array { .. } => ValueKind::Array,
            TypeKind::Tuple { .. } => ValueKind::Tuple,
            TypeKind::Enum { .. } => ValueKind::Enum,
            TypeKind::Map { .. } => ValueKind::Map,
            TypeKind::Custom(c) => ValueKind::Custom(match c {
                ScryptoCustomTypeKind::Reference => ScryptoCustomValueKind::Reference,
                ScryptoCustomTypeKind::Own => ScryptoCustomValueKind::Own,
                ScryptoCustomTypeKind::Decimal => ScryptoCustomValueKind::Decimal,
                ScryptoCustomTypeKind::PreciseDecimal => ScryptoCustomValueKind::PreciseDecimal,
                ScryptoCustomTypeKind::NonFungibleLocalId => ScryptoCustomValueKind::NonFungibleLocalId,
            }),
        })
    }
    /// elements of one declared kind `vk` for element type `t`
    fn elem(&mut self, rng: &mut Rng, t: LocalTypeId, vk: ScryptoValueKind, depth: usize) -> ScryptoValue {
        let v = self.value(rng, t, depth);
        if value_kind_of(&v) == vk {
            v
        } else {
            // Any-typed or strayed element: keep the container encodable
            if self.kind_of_type(t).is_some() { self.valid = false; }
            self.simple_of_kind(rng, vk)
        }
    }
    fn value(&mut self, rng: &mut Rng, t: LocalTypeId, depth: usize) -> ScryptoValue {
        self.budget -= 1;
        let all_kinds = [ValueKind::Bool, ValueKind::U8, ValueKind::I32, ValueKind::U64, ValueKind::String, ValueKind::Tuple, ValueKind::Enum, ValueKind::Array, ValueKind::Map,
            ValueKind::Custom(ScryptoCustomValueKind::Decimal), ValueKind::Custom(ScryptoCustomValueKind::Reference), ValueKind::Custom(ScryptoCustomValueKind::Own)];
        if depth > 24 || self.budget < -400 {
            self.valid = false;
            return Value::U8 { value: 0 };
        }
        if rng.below(64) < self.stray {
            self.valid = false;
            let k = *rng.pick(&all_kinds);
            return self.simple_of_kind(rng, k);
        }
        let Some(kind) = self.s.resolve_type_kind(t) else {
            self.valid = false;
            return Value::U8 { value: 0 };
        };
        let kind = kind.clone();
        let val = self.s.resolve_type_validation(t).cloned();
        if val.is_none() {
            self.valid = false;
        }
        let v = val.as_ref();
        match &kind {
            TypeKind::Any => {
                if v != Some(&TypeValidation::None) { self.valid = false; }
                let k = *rng.pick(&all_kinds);
                self.simple_of_kind(rng, k)
            }
            TypeKind::Bool => { if v != Some(&TypeValidation::None) { self.valid = false; } Value::Bool { value: rng.chance(1, 2) } }
            TypeKind::I8 => Value::I8 { value: gen_int_value!(self, rng, i8, I8, v) },
            TypeKind::I16 => Value::I16 { value: gen_int_value!(self, rng, i16, I16, v) },
            TypeKind::I32 => Value::I32 { value: gen_int_value!(self, rng, i32, I32, v) },
            TypeKind::I64 => Value::I64 { value: gen_int_value!(self, rng, i64, I64, v) },
            TypeKind::I128 => Value::I128 { value: gen_int_value!(self, rng, i128, I128, v) },
            TypeKind::U8 => Value::U8 { value: gen_int_value!(self, rng, u8, U8, v) },
            TypeKind::U16 => Value::U16 { value: gen_int_value!(self, rng, u16, U16, v) },
            TypeKind::U32 => Value::U32 { value: gen_int_value!(self, rng, u32, U32, v) },
            TypeKind::U64 => Value::U64 { value: gen_int_value!(self, rng, u64, U64, v) },
            TypeKind::U128 => Value::U128 { value: gen_int_value!(self, rng, u128, U128, v) },
            TypeKind::String => {
                let n = self.len_in(rng, v, 0);
                Value::String { value: "abcdefghijklmnopqrstuvwxyz0123456789abcdefghijklmnopqrstuvwxyz".chars().cycle().take(n).collect() }
            }
            TypeKind::Array { element_type } => {
                let n = self.len_in(rng, v, 1);
                let vk = self.kind_of_type(*element_type).unwrap_or_else(|| *rng.pick(&[ValueKind::U8, ValueKind::String, ValueKind::Tuple]));
                if self.s.resolve_type_kind(*element_type).is_none() { self.valid = false; }
                let elements = (0..n).map(|_| self.elem(rng, *element_type, vk, depth + 1)).collect();
                Value::Array { element_value_kind: vk, elements }
            }
            TypeKind::Map { key_type, value_type } => {
                let n = self.len_in(rng, v, 2);
                let kk = self.kind_of_type(*key_type).unwrap_or(ValueKind::U8);
                let vk = self.kind_of_type(*value_type).unwrap_or(ValueKind::String);
                if self.s.resolve_type_kind(*key_type).is_none() || self.s.resolve_type_kind(*value_type).is_none() { self.valid = false; }
                let entries = (0..n).map(|_| (self.elem(rng, *key_type, kk, depth + 1), self.elem(rng, *value_type, vk, depth + 1))).collect();
                Value::Map { key_value_kind: kk, value_value_kind: vk, entries }
            }
            TypeKind::Tuple { field_types } => {
                if v != Some(&TypeValidation::None) { self.valid = false; }
                let mut fields: Vec<ScryptoValue> = field_types.iter().map(|f| self.value(rng, *f, depth + 1)).collect();
                if rng.below(64) < self.stray { self.valid = false; if rng.chance(1, 2) { fields.pop(); } else { fields.push(Value::U8 { value: 9 }); } }
                Value::Tuple { fields }
            }
            TypeKind::Enum { variants } => {
                if v != Some(&TypeValidation::None) { self.valid = false; }
                if variants.is_empty() {
                    self.valid = false;
                    return Value::Enum { discriminator: 0, fields: vec![] };
                }
                let idx = if self.budget <= 0 {
                    (0..variants.len()).min_by_key(|i| variants.get_index(*i).unwrap().1.len()).unwrap()
                } else {
                    rng.below(variants.len() as u64) as usize
                };
                let (d, fts) = variants.get_index(idx).unwrap();
                let mut d = *d;
                let fields = fts.iter().map(|f| self.value(rng, *f, depth + 1)).collect();
                if rng.below(64) < self.stray { self.valid = false; d = d.wrapping_add(1); }
                Value::Enum { discriminator: d, fields }
            }
            TypeKind::Custom(c) => {
                let ck = match c {
                    ScryptoCustomTypeKind::Reference => ScryptoCustomValueKind::Reference,
                    ScryptoCustomTypeKind::Own => ScryptoCustomValueKind::Own,
                    ScryptoCustomTypeKind::Decimal => ScryptoCustomValueKind::Decimal,
                    ScryptoCustomTypeKind::PreciseDecimal => ScryptoCustomValueKind::PreciseDecimal,
                    ScryptoCustomTypeKind::NonFungibleLocalId => ScryptoCustomValueKind::NonFungibleLocalId,
                };
                if matches!(c, ScryptoCustomTypeKind::Decimal | ScryptoCustomTypeKind::PreciseDecimal | ScryptoCustomTypeKind::NonFungibleLocalId) && v != Some(&TypeValidation::None) {
                    self.valid = false;
                }
                Value::Custom { value: self.custom(rng, ck, v) }
            }
        }
    }
}
/// (payload, constructed-valid)
fn gen_payload(rng: &mut Rng, s: &Sch, t: LocalTypeId, stray: u64) -> Option<(Vec<u8>, bool)> {
    let mut g = VGen { s, valid: true, budget: 40, stray };
    let v = g.value(rng, t, 0);
    let p = scrypto_encode(&v).ok()?;
    Some((p, g.valid))
}
fn mutate_payload(rng: &mut Rng, p: &[u8]) -> Vec<u8> {
    let mut q = p.to_vec();
    if q.is_empty() {
        return vec![0x5c];
    }
    match rng.below(6) {
        0 => { let i = rng.below(q.len() as u64) as usize; q[i] ^= 1 << rng.below(8); }
        1 => { let i = rng.below(q.len() as u64) as usize; q[i] = *rng.pick(&[0u8, 1, 2, 7, 9, 12, 0x20, 0x21, 0x22, 0x23, 0x80, 0x90, 0xa0, 0xb0, 0xc0, 0xff]); }
        2 => { q.truncate(rng.below(q.len() as u64) as usize); }
        3 => { q.push(rng.next() as u8); }
        4 => { let i = rng.below(q.len() as u64) as usize; q.remove(i); }
        _ => { let i = rng.below(q.len() as u64) as usize; q.insert(i, rng.next() as u8); }
    }
    q
}

// ------------------------------------------------------------------------------------------------
// type expressions of the universe of Model/SborTyped.lean and the relation "tid describes ty",
// evaluated with the real `resolve_type_kind` / `resolve_type_validation`

#[derive(Debug, Clone)]
enum Ty { Bool, Int(u8), Str, Unit, Opt(Box<Ty>), Arr(Box<Ty>), Pair(Box<Ty>, Box<Ty>), Map(Box<Ty>, Box<Ty>), Res(Box<Ty>, Box<Ty>) }

fn parse_ty(t: &[u64], pos: &mut usize) -> Option<Ty> {
    let tag = *t.get(*pos)?;
    *pos += 1;
    Some(match tag {
        0 => Ty::Bool,
        1 => { let k = *t.get(*pos)?; *pos += 1; if k > 9 { return None; } Ty::Int(k as u8) }
        2 => Ty::Str,
        3 => Ty::Unit,
        4 => Ty::Opt(Box::new(parse_ty(t, pos)?)),
        5 => Ty::Arr(Box::new(parse_ty(t, pos)?)),
        6 => { let a = parse_ty(t, pos)?; let b = parse_ty(t, pos)?; Ty::Pair(Box::new(a), Box::new(b)) }
        7 => { let a = parse_ty(t, pos)?; let b = parse_ty(t, pos)?; Ty::Map(Box::new(a), Box::new(b)) }
        8 => { let a = parse_ty(t, pos)?; let b = parse_ty(t, pos)?; Ty::Res(Box::new(a), Box::new(b)) }
        _ => return None,
    })
}
fn int_kind(k: u8) -> Kind {
    [TypeKind::I8, TypeKind::I16, TypeKind::I32, TypeKind::I64, TypeKind::I128, TypeKind::U8, TypeKind::U16, TypeKind::U32, TypeKind::U64, TypeKind::U128][k as usize].clone()
}
fn describes_rs(s: &Sch, tid: LocalTypeId, ty: &Ty) -> bool {
    let Some(k) = s.resolve_type_kind(tid) else { return false };
    if s.resolve_type_validation(tid) != Some(&TypeValidation::None) {
        return false;
    }
    match (ty, k) {
        (Ty::Bool, TypeKind::Bool) | (Ty::Str, TypeKind::String) => true,
        (Ty::Int(i), k) => *k == int_kind(*i),
        (Ty::Unit, TypeKind::Tuple { field_types }) => field_types.is_empty(),
        (Ty::Opt(t), TypeKind::Enum { variants }) => {
            let v: Vec<_> = variants.iter().collect();
            v.len() == 2 && *v[0].0 == 0 && v[0].1.is_empty() && *v[1].0 == 1 && v[1].1.len() == 1 && describes_rs(s, v[1].1[0], t)
        }
        (Ty::Arr(t), TypeKind::Array { element_type }) => describes_rs(s, *element_type, t),
        (Ty::Pair(a, b), TypeKind::Tuple { field_types }) => field_types.len() == 2 && describes_rs(s, field_types[0], a) && describes_rs(s, field_types[1], b),
        (Ty::Map(a, b), TypeKind::Map { key_type, value_type }) => describes_rs(s, *key_type, a) && describes_rs(s, *value_type, b),
        (Ty::Res(a, b), TypeKind::Enum { variants }) => {
            let v: Vec<_> = variants.iter().collect();
            v.len() == 2 && *v[0].0 == 0 && v[0].1.len() == 1 && *v[1].0 == 1 && v[1].1.len() == 1 && describes_rs(s, v[0].1[0], a) && describes_rs(s, v[1].1[0], b)
        }
        _ => false,
    }
}
/// registry types that belong to the universe, with their type expression
const UNIVERSE: &[(&str, &str)] = &[
    ("u8", "1 5"), ("i64", "1 3"), ("u128", "1 9"), ("bool", "0"), ("String", "2"), ("()", "3"),
    ("(u8,String)", "6 1 5 2"), ("Vec<u8>", "5 1 5"), ("Vec<u32>", "5 1 7"), ("Option<String>", "4 2"),
    ("Result<u8,String>", "8 1 5 2"), ("BTreeMap<String,u32>", "7 2 1 7"), ("Vec<(u32,bool)>", "5 6 1 7 0"),
    ("BTreeSet<u16>", "5 1 6"),
];

// ------------------------------------------------------------------------------------------------
// area c22

pub struct A22;

fn emit_vals(rng: &mut Rng, out: &mut dyn Write, s: &Sch, roots: &[LocalTypeId], k: usize, typed: Option<&str>) {
    for _ in 0..k {
        let t = *rng.pick(roots);
        let stray = *rng.pick(&[0u64, 0, 0, 2, 6]);
        let Some((p, valid)) = gen_payload(rng, s, t, stray) else { continue };
        let depth = if rng.chance(1, 12) { 1 + rng.below(5) } else { 64 };
        let (p, valid) = if rng.chance(1, 4) { (mutate_payload(rng, &p), false) } else { (p, valid) };
        match typed {
            None => writeln!(out, "val {} {} {} {}", depth, tid_str(&t), hex(&p), if valid { "v" } else { "u" }).unwrap(),
            Some(name) => writeln!(out, "tval {} {} {} {}", depth, tid_str(&t), hex(&p), name).unwrap(),
        }
    }
}

impl Area for A22 {
    fn gen(&self, rng: &mut Rng, n: usize, out: &mut dyn Write) {
        let reg = registry();
        for i in 0..n {
            writeln!(out, "reset").unwrap();
            if i % 3 == 0 {
                // a real derived type, payloads guided by its generated schema
                let c = &reg[(i / 3) % reg.len()];
                let (t, s) = c.schema();
                writeln!(out, "{}", schema_line("schema", &s)).unwrap();
                if let Some((_, ty)) = UNIVERSE.iter().find(|(n, _)| *n == c.name()) {
                    writeln!(out, "desc {} {} {}", tid_str(&t), c.name(), ty).unwrap();
                } else if rng.chance(1, 3) {
                    writeln!(out, "desc {} - {}", tid_str(&t), rng.pick(UNIVERSE).1).unwrap();
                }
                emit_vals(rng, out, &s, &[t], 6, Some(&c.name()));
            } else {
                let wild = i % 3 == 2;
                let s = gen_schema(rng, wild);
                writeln!(out, "{}", schema_line("schema", &s)).unwrap();
                let mut roots: Vec<LocalTypeId> = (0..s.type_kinds.len()).map(LocalTypeId::SchemaLocalIndex).collect();
                roots.push(wk(0x40));
                roots.push(wk(*rng.pick(&known_wk_ids())));
                if wild {
                    roots.push(LocalTypeId::SchemaLocalIndex(s.type_kinds.len() + 1));
                    roots.push(wk(rng.below(256) as u8));
                }
                if rng.chance(1, 3) {
                    writeln!(out, "desc {} - {}", tid_str(rng.pick(&roots)), rng.pick(UNIVERSE).1).unwrap();
                }
                emit_vals(rng, out, &s, &roots, 6, None);
            }
        }
        // malformed stream
        writeln!(out, "reset").unwrap();
        writeln!(out, "val 64 1 0 5c2100 u").unwrap();
        writeln!(out, "schema zz 1 0").unwrap();
        writeln!(out, "frobnicate").unwrap();
    }
    fn runner(&self) -> Box<dyn Runner> {
        Box::new(R22 { s: None, reg: registry() })
    }
    fn consts(&self) -> Vec<(String, String)> {
        consts_common()
    }
}

struct R22 {
    s: Option<Sch>,
    reg: Vec<Box<dyn TypedCase>>,
}

fn val_common(s: &Option<Sch>, t: &[&str]) -> Option<(Sch, usize, LocalTypeId, Vec<u8>)> {
    let s = s.clone()?;
    let depth: usize = t.get(1)?.parse().ok()?;
    let tid = parse_tid(t.get(2)?, t.get(3)?)?;
    let p = unhex(t.get(4)?)?;
    Some((s, depth, tid, p))
}

impl Runner for R22 {
    fn step(&mut self, line: &str) -> Answer {
        let t: Vec<&str> = line.split(' ').filter(|w| !w.is_empty()).collect();
        match t.first().copied() {
            Some("reset") if t.len() == 1 => {
                self.s = None;
                Answer::ok("ok")
            }
            Some("schema") => match parse_schema_line(&t) {
                Some(s) => {
                    self.s = Some(s);
                    Answer::ok("ok")
                }
                None => Answer::ok("bad-op"),
            },
            Some("val") if t.len() == 6 => {
                let Some((s, depth, tid, p)) = val_common(&self.s, &t) else { return Answer::ok("bad-op") };
                let (ans, accepted, fail) = real_validate(&s, tid, depth, &p);
                if let Some((k, d)) = fail {
                    return Answer::fail(ans, k, d);
                }
                if t[5] == "v" && depth >= 64 && !accepted {
                    return Answer::fail(ans.clone(), format!("constructed-valid-rejected:{}", ans.replace(' ', "-")), "a value constructed to respect every kind and validation of the schema was rejected");
                }
                Answer::ok(ans)
            }
            Some("desc") if t.len() >= 5 => {
                let Some(s) = self.s.clone() else { return Answer::ok("bad-op") };
                let Some(tid) = parse_tid(t[1], t[2]) else { return Answer::ok("bad-op") };
                let toks: Option<Vec<u64>> = t[4..].iter().map(|x| x.parse::<u64>().ok()).collect();
                let Some(toks) = toks else { return Answer::ok("bad-op") };
                let mut pos = 0;
                let Some(ty) = parse_ty(&toks, &mut pos) else { return Answer::ok("bad-op") };
                if pos != toks.len() { return Answer::ok("bad-op"); }
                let r = describes_rs(&s, tid, &ty);
                if let Some(c) = self.reg.iter().find(|c| c.name() == t[3]) {
                    let (ct, cs) = c.schema();
                    let expected = UNIVERSE.iter().find(|(n, _)| *n == t[3]).map(|(_, e)| *e == t[4..].join(" ")).unwrap_or(false);
                    if expected && cs == s && ct == tid && !r {
                        return Answer::fail(r.to_string(), format!("describe-shape:{}", c.name()), "the schema generated by Describe for this type does not have the shape its typed codec implies");
                    }
                }
                Answer::ok(r.to_string())
            }
            Some("tval") if t.len() == 6 => {
                let Some((s, depth, tid, p)) = val_common(&self.s, &t) else { return Answer::ok("bad-op") };
                let Some(c) = self.reg.iter().find(|c| c.name() == t[5]) else { return Answer::ok("bad-op") };
                let (ans, accepted, fail) = real_validate(&s, tid, depth, &p);
                if let Some((k, d)) = fail {
                    return Answer::fail(ans, k, d);
                }
                // the property, evaluated on the implementation: the line's schema must be the type's own
                let (ct, cs) = c.schema();
                if cs == s && ct == tid && depth == 64 {
                    if let Some((re, same)) = c.try_decode(&p) {
                        if !accepted {
                            return Answer::fail(ans.clone(), format!("typed-accepts-schema-rejects:{}:{}", err_class(&s, tid, depth, &p, &ans), c.name()), "typed decoder accepted a payload that does not validate against the type's generated schema");
                        }
                        if !same {
                            return Answer::fail(ans, format!("typed-roundtrip:{}", c.name()), "decode(encode(x)) != x");
                        }
                        let (a2, acc2, _) = real_validate(&s, tid, depth, &re);
                        if !acc2 {
                            return Answer::fail(ans, format!("encoded-rejected:{}:{}", err_class(&s, tid, depth, &re, &a2), c.name()), format!("encoding of a typed value does not validate against the generated schema: {}", a2));
                        }
                    }
                }
                Answer::ok(ans)
            }
            _ => Answer::ok("bad-op"),
        }
    }
}

include!("c22_c23part.inc");

fn main() {
    main_with(&[("c22", &A22), ("c23", &A23)]);
}
