//! C24 / C25 — `Decimal` and `PreciseDecimal` arithmetic, conversions and rounding.
//!
//! Areas
//!   c24 : checked add/sub/mul/div/neg/abs, Decimal<->PreciseDecimal, from/to integers, op-with-integer
//!   c25 : checked_round (7 modes), checked_floor / checked_ceiling, for_withdrawal
//!
//! Values travel as signed decimal integers of *subunits* (attos for `d`, 10^-36 for `p`).
//! The runner calls the real radix-common code; the oracle recomputes every answer with exact
//! integer/rational arithmetic on `num_bigint::BigInt` (sign-and-magnitude, no use of the code under test).
use harness::util::*;
use num_bigint::{BigInt, BigUint, Sign};
use num_traits::{One, Signed, ToPrimitive, Zero};
use radix_common::math::*;
use radix_engine_interface::blueprints::resource::{ForWithdrawal, WithdrawStrategy};
use std::io::Write;
use std::str::FromStr;

// ------------------------------------------------------------------------------------------ helpers

#[derive(Clone, Copy, PartialEq, Eq)]
enum Ty {
    D,
    P,
}

impl Ty {
    fn bits(self) -> u32 {
        match self {
            Ty::D => 192,
            Ty::P => 256,
        }
    }
    fn scale(self) -> u32 {
        match self {
            Ty::D => 18,
            Ty::P => 36,
        }
    }
    fn tag(self) -> &'static str {
        match self {
            Ty::D => "d",
            Ty::P => "p",
        }
    }
    fn parse(s: &str) -> Option<Ty> {
        match s {
            "d" => Some(Ty::D),
            "p" => Some(Ty::P),
            _ => None,
        }
    }
}

fn pow2(k: u32) -> BigInt {
    BigInt::one() << (k as usize)
}
fn pow10(k: u32) -> BigInt {
    let mut r = BigInt::one();
    for _ in 0..k {
        r *= 10;
    }
    r
}
fn min_of(bits: u32) -> BigInt {
    -pow2(bits - 1)
}
fn max_of(bits: u32) -> BigInt {
    pow2(bits - 1) - 1
}
fn in_bits(bits: u32, v: &BigInt) -> bool {
    *v >= min_of(bits) && *v <= max_of(bits)
}
fn in_ubits(bits: u32, v: &BigInt) -> bool {
    !v.is_negative() && *v < pow2(bits)
}

/// strict integer syntax: optional '-', then ASCII digits only
fn parse_int(s: &str) -> Option<BigInt> {
    let ds = s.strip_prefix('-').unwrap_or(s);
    if ds.is_empty() || !ds.bytes().all(|c| c.is_ascii_digit()) {
        return None;
    }
    BigInt::from_str(s).ok()
}
fn parse_val(t: Ty, s: &str) -> Option<BigInt> {
    parse_int(s).filter(|v| in_bits(t.bits(), v))
}

fn dec(v: &BigInt) -> Decimal {
    Decimal::from_attos(I192::from_str(&v.to_string()).expect("in range"))
}
fn pdec(v: &BigInt) -> PreciseDecimal {
    PreciseDecimal::from_precise_subunits(I256::from_str(&v.to_string()).expect("in range"))
}
fn dec_big(d: Decimal) -> BigInt {
    BigInt::from_str(&d.attos().to_string()).unwrap()
}
fn pdec_big(d: PreciseDecimal) -> BigInt {
    BigInt::from_str(&d.precise_subunits().to_string()).unwrap()
}

/// exact quotient truncated toward zero, computed on magnitudes (independent of signed-division conventions)
fn trunc_div(num: &BigInt, den: &BigInt) -> BigInt {
    let q: BigUint = num.magnitude() / den.magnitude();
    let neg = (num.sign() == Sign::Minus) != (den.sign() == Sign::Minus);
    let q = BigInt::from(q);
    if neg {
        -q
    } else {
        q
    }
}
/// floor(num/den) for den > 0, on magnitudes
fn floor_div(num: &BigInt, den: &BigInt) -> BigInt {
    let q = BigInt::from(num.magnitude() / den.magnitude());
    let exact = (num.magnitude() % den.magnitude()).is_zero();
    if num.is_negative() {
        if exact {
            -q
        } else {
            -q - 1
        }
    } else {
        q
    }
}

fn show_opt(o: &Option<BigInt>) -> String {
    match o {
        Some(v) => format!("some {}", v),
        None => "none".to_string(),
    }
}

/// class of an operand / result for failure keys
fn class(t_bits: u32, v: &BigInt) -> &'static str {
    if *v == min_of(t_bits) {
        "min"
    } else if *v == max_of(t_bits) {
        "max"
    } else if v.is_zero() {
        "zero"
    } else if v.is_negative() {
        "neg"
    } else {
        "pos"
    }
}

// ------------------------------------------------------------------------------------------ integer source types

#[derive(Clone, Copy)]
struct IntTy {
    signed: bool,
    bits: u32,
}
const WIDTHS: [u32; 11] = [8, 16, 32, 64, 128, 192, 256, 320, 384, 448, 512];

fn parse_int_ty(s: &str) -> Option<IntTy> {
    let (signed, r) = if let Some(r) = s.strip_prefix('i') {
        (true, r)
    } else if let Some(r) = s.strip_prefix('u') {
        (false, r)
    } else {
        return None;
    };
    if r.is_empty() || !r.bytes().all(|c| c.is_ascii_digit()) {
        return None;
    }
    let bits: u32 = r.parse().ok()?;
    if WIDTHS.contains(&bits) {
        Some(IntTy { signed, bits })
    } else {
        None
    }
}
impl IntTy {
    fn holds(&self, v: &BigInt) -> bool {
        if self.signed {
            in_bits(self.bits, v)
        } else {
            in_ubits(self.bits, v)
        }
    }
    fn name(&self) -> String {
        format!("{}{}", if self.signed { "i" } else { "u" }, self.bits)
    }
}

fn out_dec<E: std::fmt::Debug>(r: Result<Result<Decimal, E>, String>) -> String {
    match r {
        Err(_) => "panic".into(),
        Ok(Ok(d)) => format!("ok {}", dec_big(d)),
        Ok(Err(e)) => format!("err {:?}", e),
    }
}
fn out_pdec<E: std::fmt::Debug>(r: Result<Result<PreciseDecimal, E>, String>) -> String {
    match r {
        Err(_) => "panic".into(),
        Ok(Ok(d)) => format!("ok {}", pdec_big(d)),
        Ok(Err(e)) => format!("err {:?}", e),
    }
}

macro_rules! bn {
    ($T:ident, $v:expr) => {
        $T::from_str(&$v.to_string()).expect("value fits its source type")
    };
}

/// `Decimal::from(prim)` / `Decimal::try_from(bnum)` on the real code
fn real_from(t: Ty, s: IntTy, v: &BigInt) -> Option<String> {
    macro_rules! prim {
        ($P:ident, $conv:ident) => {{
            let x: $P = v.$conv().unwrap() as $P;
            Some(match t {
                Ty::D => out_dec(catch(|| Ok::<_, ParseDecimalError>(Decimal::from(x)))),
                Ty::P => out_pdec(catch(|| Ok::<_, ParsePreciseDecimalError>(PreciseDecimal::from(x)))),
            })
        }};
    }
    macro_rules! big {
        ($T:ident) => {{
            let x = bn!($T, v);
            Some(match t {
                Ty::D => out_dec(catch(|| Decimal::try_from(x))),
                Ty::P => out_pdec(catch(|| PreciseDecimal::try_from(x))),
            })
        }};
    }
    macro_rules! big_p_only {
        ($T:ident) => {{
            let x = bn!($T, v);
            match t {
                Ty::D => None,
                Ty::P => Some(out_pdec(catch(|| PreciseDecimal::try_from(x)))),
            }
        }};
    }
    match (s.signed, s.bits) {
        (true, 8) => prim!(i8, to_i128),
        (true, 16) => prim!(i16, to_i128),
        (true, 32) => prim!(i32, to_i128),
        (true, 64) => prim!(i64, to_i128),
        (true, 128) => prim!(i128, to_i128),
        (false, 8) => prim!(u8, to_u128),
        (false, 16) => prim!(u16, to_u128),
        (false, 32) => prim!(u32, to_u128),
        (false, 64) => prim!(u64, to_u128),
        (false, 128) => prim!(u128, to_u128),
        (true, 192) => big!(I192),
        (true, 256) => big!(I256),
        (true, 320) => big!(I320),
        (true, 384) => big_p_only!(I384),
        (true, 448) => big!(I448),
        (true, 512) => big!(I512),
        (false, 192) => big!(U192),
        (false, 256) => big!(U256),
        (false, 320) => big!(U320),
        (false, 384) => big_p_only!(U384),
        (false, 448) => big!(U448),
        (false, 512) => big!(U512),
        _ => None,
    }
}

/// `$prim::try_from(Decimal)` on the real code
fn real_to(t: Ty, s: IntTy, a: &BigInt) -> Option<String> {
    macro_rules! prim {
        ($P:ident) => {{
            let r = match t {
                Ty::D => catch(|| $P::try_from(dec(a)).map(|x| BigInt::from(x)).map_err(|e| format!("{:?}", e))),
                Ty::P => catch(|| $P::try_from(pdec(a)).map(|x| BigInt::from(x)).map_err(|e| format!("{:?}", e))),
            };
            Some(match r {
                Err(_) => "panic".to_string(),
                Ok(Ok(x)) => format!("ok {}", x),
                Ok(Err(e)) => format!("err {}", e),
            })
        }};
    }
    match (s.signed, s.bits) {
        (true, 8) => prim!(i8),
        (true, 16) => prim!(i16),
        (true, 32) => prim!(i32),
        (true, 64) => prim!(i64),
        (true, 128) => prim!(i128),
        (false, 8) => prim!(u8),
        (false, 16) => prim!(u16),
        (false, 32) => prim!(u32),
        (false, 64) => prim!(u64),
        (false, 128) => prim!(u128),
        _ => None,
    }
}

/// `Decimal::checked_op(self, other: $bnum)` on the real code (op 0 add, 1 sub, 2 mul, 3 div)
fn real_opint(t: Ty, op: u32, a: &BigInt, s: IntTy, v: &BigInt) -> Option<String> {
    macro_rules! big {
        ($T:ident) => {{
            let x = bn!($T, v);
            let r: Result<Option<BigInt>, String> = match t {
                Ty::D => {
                    let d = dec(a);
                    catch(|| {
                        match op {
                            0 => d.checked_add(x),
                            1 => d.checked_sub(x),
                            2 => d.checked_mul(x),
                            _ => d.checked_div(x),
                        }
                        .map(dec_big)
                    })
                }
                Ty::P => {
                    let d = pdec(a);
                    catch(|| {
                        match op {
                            0 => d.checked_add(x),
                            1 => d.checked_sub(x),
                            2 => d.checked_mul(x),
                            _ => d.checked_div(x),
                        }
                        .map(pdec_big)
                    })
                }
            };
            Some(match r {
                Err(_) => "panic".to_string(),
                Ok(o) => show_opt(&o),
            })
        }};
    }
    match (s.signed, s.bits) {
        (true, 192) => big!(I192),
        (true, 256) => big!(I256),
        (true, 320) => big!(I320),
        (true, 448) => big!(I448),
        (true, 512) => big!(I512),
        (false, 192) => big!(U192),
        (false, 256) => big!(U256),
        (false, 320) => big!(U320),
        (false, 448) => big!(U448),
        (false, 512) => big!(U512),
        _ => None,
    }
}

fn mode_of(i: u32) -> Option<RoundingMode> {
    Some(match i {
        0 => RoundingMode::ToPositiveInfinity,
        1 => RoundingMode::ToNegativeInfinity,
        2 => RoundingMode::ToZero,
        3 => RoundingMode::AwayFromZero,
        4 => RoundingMode::ToNearestMidpointTowardZero,
        5 => RoundingMode::ToNearestMidpointAwayFromZero,
        6 => RoundingMode::ToNearestMidpointToEven,
        _ => return None,
    })
}
fn parse_mode(s: &str) -> Option<u32> {
    match s {
        "0" | "1" | "2" | "3" | "4" | "5" | "6" => s.parse().ok(),
        _ => None,
    }
}

/// The value prescribed by rounding mode `m` for `x` at granularity `d > 0` (exact, unbounded).
fn prescribed_round(x: &BigInt, d: &BigInt, m: u32) -> BigInt {
    let fl = floor_div(x, d) * d;
    if fl == *x {
        return x.clone();
    }
    let ce = &fl + d;
    let pos = x.is_positive();
    let toward_zero = if pos { fl.clone() } else { ce.clone() };
    let away = if pos { ce.clone() } else { fl.clone() };
    match m {
        0 => ce,
        1 => fl,
        2 => toward_zero,
        3 => away,
        _ => {
            let twice = (x - &fl) * 2; // compare x - floor with d/2 exactly (no division)
            if twice < *d {
                fl
            } else if twice > *d {
                ce
            } else {
                match m {
                    4 => toward_zero,
                    5 => away,
                    _ => {
                        let k = floor_div(&fl, d);
                        if (k.magnitude() % 2u32).is_zero() {
                            fl
                        } else {
                            ce
                        }
                    }
                }
            }
        }
    }
}

// ------------------------------------------------------------------------------------------ value generators

fn small(rng: &mut Rng) -> BigInt {
    BigInt::from(rng.range(-3, 3))
}

fn rand_bits(rng: &mut Rng, nbits: u32) -> BigInt {
    if nbits == 0 {
        return BigInt::zero();
    }
    let nbytes = (nbits as usize + 7) / 8;
    let b = rng.bytes(nbytes);
    let mut v = BigInt::from(BigUint::from_bytes_le(&b));
    v = v % pow2(nbits);
    v |= pow2(nbits - 1); // exactly nbits significant bits
    v
}

fn clamp(bits: u32, v: BigInt) -> BigInt {
    if in_bits(bits, &v) {
        v
    } else {
        // fold back into range, keeping the sign
        let m = pow2(bits - 1);
        let r = BigInt::from(v.magnitude() % m.magnitude());
        if v.is_negative() {
            -r
        } else {
            r
        }
    }
}

/// boundary-biased value of a signed `bits`-wide integer with decimal `scale`
fn gen_val(rng: &mut Rng, bits: u32, scale: u32) -> BigInt {
    let sign = |rng: &mut Rng, v: BigInt| if rng.chance(1, 2) { -v } else { v };
    let v = match rng.below(14) {
        0 => min_of(bits),
        1 => max_of(bits),
        2 => min_of(bits) + BigInt::from(rng.below(4)),
        3 => max_of(bits) - BigInt::from(rng.below(4)),
        4 | 5 => {
            let k = rng.below(bits as u64) as u32;
            let v = pow2(k) + small(rng);
            sign(rng, v)
        }
        6 => {
            // 10^k ± δ
            let maxk = ((bits - 1) as f64 * 0.30103) as u64;
            let k = rng.below(maxk + 1) as u32;
            let v = pow10(k) + small(rng);
            sign(rng, v)
        }
        7 => BigInt::from(rng.range(-20, 20)),
        8 => {
            // integral values m * 10^scale (± δ)
            let m = if rng.chance(1, 2) { BigInt::from(rng.range(-300, 300)) } else { pow2(rng.below(bits.saturating_sub(61 + if scale > 18 { 60 } else { 0 }).max(1) as u64) as u32) + small(rng) };
            let v = m * pow10(scale) + if rng.chance(1, 3) { small(rng) } else { BigInt::zero() };
            sign(rng, v)
        }
        9 => {
            // tie at decimal place j: odd multiple of 5*10^(j-1), ± δ
            let j = 1 + rng.below(scale.max(1) as u64) as u32;
            let m = BigInt::from(rng.range(0, 50)) * 2 + 1;
            let v = m * 5 * pow10(j - 1) + if rng.chance(1, 3) { small(rng) } else { BigInt::zero() };
            sign(rng, v)
        }
        10 | 11 => {
            let nb = rng.below(bits as u64) as u32;
            let v = rand_bits(rng, nb);
            sign(rng, v)
        }
        12 => {
            // around the square root of the range (products near the limits)
            let k = (bits - 1 + scale * 33 / 10) / 2;
            let v = pow2(k) + BigInt::from(rng.range(-1000, 1000));
            sign(rng, v)
        }
        _ => {
            let nb = bits - 1 - rng.below(3) as u32;
            let v = rand_bits(rng, nb);
            sign(rng, v)
        }
    };
    clamp(bits, v)
}

/// interesting result targets for mul/div pairs
fn gen_target(rng: &mut Rng, t: Ty) -> BigInt {
    let bits = t.bits();
    match rng.below(8) {
        0 => min_of(bits),
        1 => max_of(bits),
        2 => min_of(bits) + BigInt::from(rng.range(-3, 3)),
        3 => max_of(bits) + BigInt::from(rng.range(-3, 3)),
        4 => BigInt::from(rng.range(-3, 3)),
        _ => gen_val(rng, bits, t.scale()),
    }
}

fn gen_mul_pair(rng: &mut Rng, t: Ty) -> (BigInt, BigInt) {
    let bits = t.bits();
    let one = pow10(t.scale());
    match rng.below(10) {
        0..=3 => (gen_val(rng, bits, t.scale()), gen_val(rng, bits, t.scale())),
        4..=6 => {
            // product / ONE close to a chosen target
            let target = gen_target(rng, t);
            let mut a = gen_val(rng, bits, t.scale());
            if a.is_zero() {
                a = BigInt::one();
            }
            let b = trunc_div(&(&target * &one), &a) + small(rng);
            (a, clamp(bits, b))
        }
        7 => {
            // product exactly MIN * ONE / 2^k * 2^k  (exact result is MIN or MAX+1 or nearby)
            let k = rng.below((bits - 1) as u64) as u32;
            let a = -pow2(bits - 1 - k.min(bits - 1));
            let b = pow2(k) * &one + if rng.chance(1, 2) { BigInt::zero() } else { small(rng) };
            let (a, b) = (clamp(bits, a), clamp(bits, b));
            if rng.chance(1, 2) { (a, b) } else { (b, a) }
        }
        _ => {
            // |a*b| close to the limit of the wide intermediate: 2^(wide-1)
            let wide = if t == Ty::D { 256 } else { 384 };
            let k = (wide - bits) + rng.below((2 * bits - wide) as u64) as u32; // bits of a
            let k = k.min(bits - 1);
            let a = pow2(k) + small(rng);
            let b = trunc_div(&(pow2(wide - 1) + BigInt::from(rng.range(-2, 2))), &a) + small(rng);
            let sa = rng.chance(1, 2);
            let sb = rng.chance(1, 2);
            (clamp(bits, if sa { -a } else { a }), clamp(bits, if sb { -b } else { b }))
        }
    }
}

fn gen_div_pair(rng: &mut Rng, t: Ty) -> (BigInt, BigInt) {
    let bits = t.bits();
    let one = pow10(t.scale());
    match rng.below(10) {
        0..=3 => (gen_val(rng, bits, t.scale()), gen_val(rng, bits, t.scale())),
        4 => (gen_val(rng, bits, t.scale()), BigInt::zero()),
        5..=7 => {
            // a*ONE / b close to a chosen target
            let target = gen_target(rng, t);
            let mut b = gen_val(rng, bits, t.scale());
            if b.is_zero() {
                b = -BigInt::one();
            }
            let a = trunc_div(&(&target * &b), &one) + small(rng);
            (clamp(bits, a), b)
        }
        8 => {
            // exact result MIN: a = MIN / 2^k ... , b = ONE / 2^j (only for j ≤ scale) or b = ±ONE, ±1
            let b = match rng.below(4) {
                0 => one.clone(),
                1 => -one.clone(),
                2 => &one / pow2(rng.below(t.scale() as u64 + 1) as u32),
                _ => -(&one / pow2(rng.below(t.scale() as u64 + 1) as u32)),
            };
            let a = trunc_div(&(min_of(bits) * &b), &one) + if rng.chance(1, 2) { BigInt::zero() } else { small(rng) };
            (clamp(bits, a), b)
        }
        _ => (gen_val(rng, bits, t.scale()), BigInt::from(rng.range(-3, 3))),
    }
}

fn gen_int(rng: &mut Rng, s: IntTy) -> BigInt {
    let v = if s.signed {
        gen_val(rng, s.bits, 0)
    } else {
        match rng.below(6) {
            0 => BigInt::zero(),
            1 => pow2(s.bits) - 1,
            2 => pow2(s.bits) - 1 - BigInt::from(rng.below(4)),
            3 => {
                let v = pow2(rng.below(s.bits as u64) as u32) + small(rng);
                v
            }
            4 => BigInt::from(rng.below(50)),
            _ => {
                let nb = rng.below(s.bits as u64 + 1) as u32;
                rand_bits(rng, nb)
            }
        }
    };
    if s.holds(&v) {
        v
    } else if s.signed {
        clamp(s.bits, v)
    } else {
        BigInt::from(v.magnitude() % pow2(s.bits).magnitude())
    }
}

/// integer whose decimal value is near the range limit of `t`: v * ONE ≈ ±2^(bits-1)
fn gen_int_near_limit(rng: &mut Rng, t: Ty, s: IntTy) -> BigInt {
    let lim = trunc_div(&pow2(t.bits() - 1), &pow10(t.scale()));
    let v = lim + BigInt::from(rng.range(-2, 2));
    let v = if s.signed && rng.chance(1, 2) { -v } else { v };
    if s.holds(&v) {
        v
    } else {
        gen_int(rng, s)
    }
}

fn int_ty_for(rng: &mut Rng, t: Ty, prim: Option<bool>) -> IntTy {
    loop {
        let bits = *rng.pick(&WIDTHS);
        let signed = rng.chance(1, 2);
        if let Some(p) = prim {
            if p != (bits <= 128) {
                continue;
            }
        }
        if t == Ty::D && bits == 384 {
            continue;
        }
        return IntTy { signed, bits };
    }
}

const MALFORMED: [&str; 14] = [
    "",
    "d",
    "d add 1",
    "d add 1 x",
    "d add 1 +2",
    "d add 1 2 3 4 5 6",
    "q add 1 2",
    "d pow 1 2",
    "d neg",
    "d from i7 1",
    "d from i8 128",
    "d to i256 5",
    "d2p",
    "p2d x",
];

// ------------------------------------------------------------------------------------------ area c24

pub struct A24;

impl Area for A24 {
    fn gen(&self, rng: &mut Rng, n: usize, out: &mut dyn Write) {
        for _ in 0..n {
            let t = if rng.chance(1, 2) { Ty::D } else { Ty::P };
            let (bits, scale) = (t.bits(), t.scale());
            let line = match rng.below(40) {
                0..=3 => format!("{} add {} {}", t.tag(), gen_val(rng, bits, scale), gen_val(rng, bits, scale)),
                4..=7 => format!("{} sub {} {}", t.tag(), gen_val(rng, bits, scale), gen_val(rng, bits, scale)),
                8..=15 => {
                    let (a, b) = gen_mul_pair(rng, t);
                    format!("{} mul {} {}", t.tag(), a, b)
                }
                16..=23 => {
                    let (a, b) = gen_div_pair(rng, t);
                    format!("{} div {} {}", t.tag(), a, b)
                }
                24 => format!("{} neg {}", t.tag(), gen_val(rng, bits, scale)),
                25 => format!("{} abs {}", t.tag(), gen_val(rng, bits, scale)),
                26 | 27 => format!("d2p {}", gen_val(rng, 192, 18)),
                28..=30 => {
                    // PreciseDecimal -> Decimal: values around the Decimal range limits and random
                    let v = match rng.below(4) {
                        0 => gen_val(rng, 256, 36),
                        1 => (gen_val(rng, 192, 18)) * pow10(18) + BigInt::from(rng.range(-2, 2)),
                        2 => (min_of(192) + BigInt::from(rng.range(-1, 1))) * pow10(18) + BigInt::from(rng.range(-2, 2)) * if rng.chance(1, 2) { pow10(17) } else { BigInt::one() },
                        _ => (max_of(192) + BigInt::from(rng.range(-1, 1))) * pow10(18) + BigInt::from(rng.range(-2, 2)) * if rng.chance(1, 2) { pow10(17) } else { BigInt::one() },
                    };
                    format!("p2d {}", clamp(256, v))
                }
                31 | 32 => {
                    // checked_truncate with a rounding mode
                    let v = match rng.below(3) {
                        0 => gen_val(rng, 256, 36),
                        1 => gen_val(rng, 192, 18) * pow10(18) + BigInt::from(rng.range(-1, 1)) * 5 * pow10(17) + BigInt::from(rng.range(-1, 1)),
                        _ => (if rng.chance(1, 2) { min_of(192) } else { max_of(192) } + BigInt::from(rng.range(-1, 1))) * pow10(18) + BigInt::from(rng.range(-1, 1)) * 5 * pow10(17) + BigInt::from(rng.range(-1, 1)),
                    };
                    format!("p trunc {} {}", clamp(256, v), rng.below(7))
                }
                33 | 34 => {
                    let s = int_ty_for(rng, t, None);
                    let v = if rng.chance(1, 3) { gen_int_near_limit(rng, t, s) } else { gen_int(rng, s) };
                    format!("{} from {} {}", t.tag(), s.name(), v)
                }
                35 | 36 => {
                    let s = int_ty_for(rng, t, Some(true));
                    // decimals that are integral and near the primitive's limits, or arbitrary
                    let a = match rng.below(4) {
                        0 => gen_val(rng, bits, scale),
                        1 => gen_int(rng, s) * pow10(scale) + if rng.chance(1, 4) { small(rng) } else { BigInt::zero() },
                        2 => (if s.signed { min_of(s.bits) } else { BigInt::zero() } + BigInt::from(rng.range(-2, 2))) * pow10(scale),
                        _ => (if s.signed { max_of(s.bits) } else { pow2(s.bits) - 1 } + BigInt::from(rng.range(-2, 2))) * pow10(scale),
                    };
                    format!("{} to {} {}", t.tag(), s.name(), clamp(bits, a))
                }
                37 | 38 => {
                    let mut s = int_ty_for(rng, t, Some(false));
                    if s.bits == 384 {
                        s.bits = 448; // no arithmetic impls with I384/U384 operands
                    }
                    let op = *rng.pick(&["add", "sub", "mul", "div"]);
                    let v = match rng.below(3) {
                        0 => gen_int_near_limit(rng, t, s),
                        1 => {
                            let v = BigInt::from(rng.range(-5, 5));
                            if s.holds(&v) { v } else { BigInt::zero() }
                        }
                        _ => gen_int(rng, s),
                    };
                    format!("{} opint {} {} {} {}", t.tag(), op, gen_val(rng, bits, scale), s.name(), v)
                }
                _ => {
                    // malformed stream
                    match rng.below(4) {
                        0 => rng.pick(&MALFORMED).to_string(),
                        1 => format!("{} add {} 1", t.tag(), max_of(bits) + 1), // out of the type's range
                        2 => format!("{} mul {} 1", t.tag(), min_of(bits) - 1),
                        _ => format!("{} div 1e5 1", t.tag()),
                    }
                }
            };
            if line.is_empty() {
                writeln!(out, "nop-malformed").unwrap();
            } else {
                writeln!(out, "{}", line).unwrap();
            }
        }
    }

    fn runner(&self) -> Box<dyn Runner> {
        Box::new(R24)
    }

    fn consts(&self) -> Vec<(String, String)> {
        let i = |v: BigInt| format!("{}\tint", v);
        vec![
            ("DEC_SCALE".into(), Decimal::SCALE.to_string()),
            ("DEC_BITS".into(), Decimal::BITS.to_string()),
            ("PDEC_SCALE".into(), PreciseDecimal::SCALE.to_string()),
            ("PDEC_BITS".into(), PreciseDecimal::BITS.to_string()),
            ("DEC_MIN".into(), i(dec_big(Decimal::MIN))),
            ("DEC_MAX".into(), i(dec_big(Decimal::MAX))),
            ("DEC_ONE".into(), i(dec_big(Decimal::ONE))),
            ("PDEC_MIN".into(), i(pdec_big(PreciseDecimal::MIN))),
            ("PDEC_MAX".into(), i(pdec_big(PreciseDecimal::MAX))),
            ("PDEC_ONE".into(), i(pdec_big(PreciseDecimal::ONE))),
            // widths of the intermediate integers used by checked_mul / checked_div
            ("DEC_WIDE_BITS".into(), I256::BITS.to_string()),
            ("PDEC_WIDE_BITS".into(), I384::BITS.to_string()),
        ]
    }
}

struct R24;

/// compare implementation answer with the exact expectation
fn verdict(ans: String, expect: String, key: String, what: &str) -> Answer {
    if ans == expect {
        Answer::ok(ans)
    } else {
        let d = format!("{}: implementation answered `{}`, exact arithmetic says `{}`", what, ans, expect);
        Answer::fail(ans, key, d)
    }
}

/// expectation for an op whose exact (truncated) result is `q` in a type of `bits` bits
fn expect_opt(bits: u32, q: &BigInt) -> Option<BigInt> {
    if in_bits(bits, q) {
        Some(q.clone())
    } else {
        None
    }
}

impl R24 {
    fn binop(&self, t: Ty, op: &str, a: &BigInt, b: &BigInt, line: &str) -> Answer {
        let bits = t.bits();
        let one = pow10(t.scale());
        // real code
        let r: Result<Option<BigInt>, String> = match t {
            Ty::D => {
                let (x, y) = (dec(a), dec(b));
                catch(|| {
                    match op {
                        "add" => x.checked_add(y),
                        "sub" => x.checked_sub(y),
                        "mul" => x.checked_mul(y),
                        _ => x.checked_div(y),
                    }
                    .map(dec_big)
                })
            }
            Ty::P => {
                let (x, y) = (pdec(a), pdec(b));
                catch(|| {
                    match op {
                        "add" => x.checked_add(y),
                        "sub" => x.checked_sub(y),
                        "mul" => x.checked_mul(y),
                        _ => x.checked_div(y),
                    }
                    .map(pdec_big)
                })
            }
        };
        let ans = match &r {
            Err(_) => "panic".to_string(),
            Ok(o) => show_opt(o),
        };
        // oracle: exact rational result truncated toward zero to the type's precision
        let exact: Option<BigInt> = match op {
            "add" => Some(a + b),
            "sub" => Some(a - b),
            "mul" => Some(trunc_div(&(a * b), &one)),
            _ => {
                if b.is_zero() {
                    None
                } else {
                    Some(trunc_div(&(a * &one), b))
                }
            }
        };
        let expect = match &exact {
            None => None,
            Some(q) => expect_opt(bits, q),
        };
        let es = show_opt(&expect);
        if ans == es {
            return Answer::ok(ans);
        }
        if let Some(q) = &exact {
            if *q == min_of(bits) && ans == "none" && (op == "mul" || op == "div") {
                return Answer::fail(ans, format!("narrow-min:{}-{}", t.tag(), op), format!("`{}`: exact result is exactly MIN (representable) but the implementation reports overflow", line));
            }
        }
        let key = format!("{}:{}:{}:{}", op, t.tag(), class(bits, a), class(bits, b));
        Answer::fail(ans.clone(), key, format!("`{}`: implementation answered `{}`, exact arithmetic says `{}`", line, ans, es))
    }
}

impl Runner for R24 {
    fn step(&mut self, line: &str) -> Answer {
        let w: Vec<&str> = line.split(' ').filter(|s| !s.is_empty()).collect();
        match w.as_slice() {
            ["d2p", a] => {
                let Some(a) = parse_val(Ty::D, a) else { return Answer::ok("bad-op") };
                let ans = out_pdec(catch(|| Ok::<_, ParsePreciseDecimalError>(PreciseDecimal::from(dec(&a)))));
                verdict(ans, format!("ok {}", &a * pow10(18)), "d2p".into(), line)
            }
            ["p2d", a] => {
                let Some(a) = parse_val(Ty::P, a) else { return Answer::ok("bad-op") };
                let ans = out_dec(catch(|| Decimal::try_from(pdec(&a))));
                let q = trunc_div(&a, &pow10(18));
                let expect = if in_bits(192, &q) { format!("ok {}", q) } else { "err Overflow".to_string() };
                if ans != expect && q == min_of(192) && ans == "err Overflow" {
                    return Answer::fail(ans, "narrow-min:p2d", format!("`{}`: truncated value is exactly Decimal::MIN (representable) but the conversion reports overflow", line));
                }
                verdict(ans, expect, format!("p2d:{}", class(256, &a)), line)
            }
            ["p", "trunc", a, m] => {
                let (Some(a), Some(m)) = (parse_val(Ty::P, a), parse_mode(m)) else { return Answer::ok("bad-op") };
                let mode = mode_of(m).unwrap();
                let r = catch(|| pdec(&a).checked_truncate(mode).map(dec_big));
                let ans = match &r {
                    Err(_) => "panic".to_string(),
                    Ok(Some(v)) => format!("ok {}", v),
                    Ok(None) => "none".to_string(),
                };
                // prescribed: round to a multiple of 10^18 by the mode, if that is a PreciseDecimal, then exact division
                let rounded = prescribed_round(&a, &pow10(18), m);
                let expect = if !in_bits(256, &rounded) {
                    "none".to_string()
                } else {
                    let q = trunc_div(&rounded, &pow10(18));
                    if in_bits(192, &q) {
                        format!("ok {}", q)
                    } else {
                        "none".to_string()
                    }
                };
                if ans != expect && in_bits(256, &rounded) && trunc_div(&rounded, &pow10(18)) == min_of(192) && ans == "none" {
                    return Answer::fail(ans, "narrow-min:trunc", format!("`{}`: rounded value is exactly Decimal::MIN (representable) but checked_truncate reports overflow", line));
                }
                verdict(ans, expect, format!("trunc:{}", m), line)
            }
            [ty, "from", s, v] => {
                let (Some(t), Some(s), Some(v)) = (Ty::parse(ty), parse_int_ty(s), parse_int(v)) else { return Answer::ok("bad-op") };
                if !s.holds(&v) {
                    return Answer::ok("bad-op");
                }
                let Some(ans) = real_from(t, s, &v) else { return Answer::ok("bad-op") };
                let exact = &v * pow10(t.scale());
                let expect = if in_bits(t.bits(), &exact) {
                    format!("ok {}", exact)
                } else if s.bits <= 128 {
                    "unreachable: a primitive always fits".to_string()
                } else {
                    "err Overflow".to_string()
                };
                verdict(ans, expect, format!("from:{}:{}", t.tag(), s.name()), line)
            }
            [ty, "to", s, a] => {
                let (Some(t), Some(s)) = (Ty::parse(ty), parse_int_ty(s)) else { return Answer::ok("bad-op") };
                let Some(a) = parse_val(t, a) else { return Answer::ok("bad-op") };
                let Some(ans) = real_to(t, s, &a) else { return Answer::ok("bad-op") };
                let one = pow10(t.scale());
                let i = trunc_div(&a, &one);
                let expect = if &i * &one != a {
                    "err InvalidDigit".to_string()
                } else if s.holds(&i) {
                    format!("ok {}", i)
                } else {
                    "err Overflow".to_string()
                };
                verdict(ans, expect, format!("to:{}:{}", t.tag(), s.name()), line)
            }
            [ty, "opint", op, a, s, v] => {
                let (Some(t), Some(s), Some(v)) = (Ty::parse(ty), parse_int_ty(s), parse_int(v)) else { return Answer::ok("bad-op") };
                let Some(a) = parse_val(t, a) else { return Answer::ok("bad-op") };
                let opn = match *op {
                    "add" => 0,
                    "sub" => 1,
                    "mul" => 2,
                    "div" => 3,
                    _ => return Answer::ok("bad-op"),
                };
                if !s.holds(&v) || s.bits < 192 {
                    return Answer::ok("bad-op");
                }
                let Some(ans) = real_opint(t, opn, &a, s, &v) else { return Answer::ok("bad-op") };
                let one = pow10(t.scale());
                let b = &v * &one;
                let exact: Option<BigInt> = if !in_bits(t.bits(), &b) {
                    None
                } else {
                    match opn {
                        0 => Some(&a + &b),
                        1 => Some(&a - &b),
                        2 => Some(trunc_div(&(&a * &b), &one)),
                        _ => {
                            if b.is_zero() {
                                None
                            } else {
                                Some(trunc_div(&(&a * &one), &b))
                            }
                        }
                    }
                };
                let expect = show_opt(&exact.clone().and_then(|q| expect_opt(t.bits(), &q)));
                if ans != expect && exact == Some(min_of(t.bits())) && ans == "none" && opn >= 2 {
                    return Answer::fail(ans, format!("narrow-min:{}-opint-{}", t.tag(), op), format!("`{}`: exact result is exactly MIN (representable) but the implementation reports overflow", line));
                }
                verdict(ans, expect, format!("opint:{}:{}:{}", t.tag(), op, s.name()), line)
            }
            [ty, op @ ("add" | "sub" | "mul" | "div"), a, b] => {
                let Some(t) = Ty::parse(ty) else { return Answer::ok("bad-op") };
                let (Some(a), Some(b)) = (parse_val(t, a), parse_val(t, b)) else { return Answer::ok("bad-op") };
                self.binop(t, op, &a, &b, line)
            }
            [ty, op @ ("neg" | "abs"), a] => {
                let Some(t) = Ty::parse(ty) else { return Answer::ok("bad-op") };
                let Some(a) = parse_val(t, a) else { return Answer::ok("bad-op") };
                let r: Result<Option<BigInt>, String> = match (t, *op) {
                    (Ty::D, "neg") => catch(|| dec(&a).checked_neg().map(dec_big)),
                    (Ty::D, _) => catch(|| dec(&a).checked_abs().map(dec_big)),
                    (Ty::P, "neg") => catch(|| pdec(&a).checked_neg().map(pdec_big)),
                    (Ty::P, _) => catch(|| pdec(&a).checked_abs().map(pdec_big)),
                };
                let ans = match &r {
                    Err(_) => "panic".to_string(),
                    Ok(o) => show_opt(o),
                };
                let exact = if *op == "neg" { -&a } else { BigInt::from(a.magnitude().clone()) };
                verdict(ans, show_opt(&expect_opt(t.bits(), &exact)), format!("{}:{}:{}", op, t.tag(), class(t.bits(), &a)), line)
            }
            _ => Answer::ok("bad-op"),
        }
    }
}

// ------------------------------------------------------------------------------------------ area c25

pub struct A25;

fn gen_round_val(rng: &mut Rng, t: Ty, places: i64) -> BigInt {
    let (bits, scale) = (t.bits(), t.scale());
    if places < 0 || places > scale as i64 || rng.chance(1, 4) {
        return gen_val(rng, bits, scale);
    }
    let d = pow10(scale - places as u32);
    // multiplier: small, or near the range limits, or random
    let lim = floor_div(&max_of(bits), &d);
    let m = match rng.below(6) {
        0 => BigInt::from(rng.range(-4, 4)),
        1 => &lim - BigInt::from(rng.below(3)),
        2 => -&lim - BigInt::from(1) + BigInt::from(rng.below(3)),
        3 => floor_div(&gen_val(rng, bits, scale), &d),
        4 => BigInt::from(rng.range(-1000, 1000)),
        _ => {
            let nb = rng.below(bits as u64) as u32;
            floor_div(&rand_bits(rng, nb), &d) * if rng.chance(1, 2) { -1 } else { 1 }
        }
    };
    // offset inside the unit: 0, ±1, half, half±1, d-1
    let half: BigInt = &d / 2;
    let off = match rng.below(8) {
        0 => BigInt::zero(),
        1 => BigInt::one(),
        2 => &d - 1,
        3 => half.clone(),
        4 => &half - 1,
        5 => &half + 1,
        6 => half.clone(),
        _ => floor_div(&rand_bits(rng, 120), &BigInt::one()) % &d,
    };
    clamp(bits, m * &d + off)
}

const MALFORMED25: [&str; 10] = [
    "d round 1 0",
    "d round 1 0 7",
    "d round 1 x 0",
    "d round 1 99999999999 0",
    "x round 1 0 0",
    "d floor",
    "d ceil 1 2",
    "d withdraw 1 256 0",
    "d withdraw 1 -1 x",
    "p withdraw 1 2 0",
];

impl Area for A25 {
    fn gen(&self, rng: &mut Rng, n: usize, out: &mut dyn Write) {
        for _ in 0..n {
            let t = if rng.chance(1, 2) { Ty::D } else { Ty::P };
            let scale = t.scale() as i64;
            let line = match rng.below(20) {
                0..=13 => {
                    let places = match rng.below(12) {
                        0 => -1,
                        1 => scale + 1,
                        2 => *rng.pick(&[i32::MIN as i64, i32::MAX as i64, 100, -100, 37, 19]),
                        3 => 0,
                        4 => scale,
                        _ => rng.range(0, scale),
                    };
                    format!("{} round {} {} {}", t.tag(), gen_round_val(rng, t, places), places, rng.below(7))
                }
                14 | 15 => format!("{} floor {}", t.tag(), gen_round_val(rng, t, 0)),
                16 | 17 => format!("{} ceil {}", t.tag(), gen_round_val(rng, t, 0)),
                18 => {
                    let dv = match rng.below(6) {
                        0 => 19,
                        1 => 255,
                        2 => rng.range(19, 255),
                        _ => rng.range(0, 18),
                    };
                    let m = if rng.chance(1, 5) { "x".to_string() } else { rng.below(7).to_string() };
                    format!("d withdraw {} {} {}", gen_round_val(rng, Ty::D, dv), dv, m)
                }
                _ => rng.pick(&MALFORMED25).to_string(),
            };
            writeln!(out, "{}", line).unwrap();
        }
    }

    fn runner(&self) -> Box<dyn Runner> {
        Box::new(R25)
    }

    /// The resolved direction table of `ResolvedRoundingStrategy::from_mode` as the compiled tree behaves:
    /// for every mode, sign, position relative to the midpoint and parity of the lower neighbour, whether
    /// `checked_round(0, mode)` returned the upper neighbour.
    fn consts(&self) -> Vec<(String, String)> {
        let mut rows = vec![];
        for m in 0..7u32 {
            for pos in [true, false] {
                for ord in [-1i32, 0, 1] {
                    for odd in [false, true] {
                        // lower neighbour k (floor), with requested parity and sign
                        let k: i64 = match (pos, odd) {
                            (true, false) => 2,
                            (true, true) => 3,
                            (false, false) => -4,
                            (false, true) => -3,
                        };
                        let frac: i64 = match ord {
                            -1 => 300_000_000_000_000_000,
                            0 => 500_000_000_000_000_000,
                            _ => 700_000_000_000_000_000,
                        };
                        let x = BigInt::from(k) * pow10(18) + BigInt::from(frac);
                        let r = dec(&x).checked_round(0, mode_of(m).unwrap()).map(dec_big);
                        let up = match r {
                            Some(v) if v == BigInt::from(k + 1) * pow10(18) => "true",
                            Some(v) if v == BigInt::from(k) * pow10(18) => "false",
                            _ => "false /- unexpected -/",
                        };
                        rows.push(format!("({}, {}, {}, {}, {})", m, pos, ord, odd, up));
                    }
                }
            }
        }
        vec![
            ("DEC_SCALE".into(), Decimal::SCALE.to_string()),
            ("PDEC_SCALE".into(), PreciseDecimal::SCALE.to_string()),
            ("ROUND_TABLE".into(), format!("[{}]\traw\tList (Nat × Bool × Int × Bool × Bool)", rows.join(", "))),
        ]
    }
}

struct R25;

impl R25 {
    fn round(&self, t: Ty, a: &BigInt, places: i64, m: u32, line: &str, what: &str) -> Answer {
        let mode = mode_of(m).unwrap();
        let p32 = places as i32;
        let r: Result<Option<BigInt>, String> = match t {
            Ty::D => catch(|| dec(a).checked_round(p32, mode).map(dec_big)),
            Ty::P => catch(|| pdec(a).checked_round(p32, mode).map(pdec_big)),
        };
        let ans = match &r {
            Err(_) => "panic".to_string(),
            Ok(Some(v)) => format!("ok {}", v),
            Ok(None) => "none".to_string(),
        };
        let expect = if places < 0 || places > t.scale() as i64 {
            "panic".to_string() // documented: panics outside [0..SCALE]
        } else {
            let d = pow10(t.scale() - places as u32);
            let r = prescribed_round(a, &d, m);
            if in_bits(t.bits(), &r) {
                format!("ok {}", r)
            } else {
                "none".to_string()
            }
        };
        if ans == expect {
            return Answer::ok(ans);
        }
        let key = format!("{}:{}:mode{}:{}", what, t.tag(), m, class(t.bits(), a));
        Answer::fail(ans.clone(), key, format!("`{}`: implementation answered `{}`, the rounding mode prescribes `{}`", line, ans, expect))
    }
}

impl Runner for R25 {
    fn step(&mut self, line: &str) -> Answer {
        let w: Vec<&str> = line.split(' ').filter(|s| !s.is_empty()).collect();
        match w.as_slice() {
            [ty, "round", a, p, m] => {
                let (Some(t), Some(p), Some(m)) = (Ty::parse(ty), parse_int(p), parse_mode(m)) else { return Answer::ok("bad-op") };
                let Some(a) = parse_val(t, a) else { return Answer::ok("bad-op") };
                let Some(p) = p.to_i32() else { return Answer::ok("bad-op") };
                self.round(t, &a, p as i64, m, line, "round")
            }
            [ty, op @ ("floor" | "ceil"), a] => {
                let Some(t) = Ty::parse(ty) else { return Answer::ok("bad-op") };
                let Some(a) = parse_val(t, a) else { return Answer::ok("bad-op") };
                let r: Result<Option<BigInt>, String> = match (t, *op) {
                    (Ty::D, "floor") => catch(|| dec(&a).checked_floor().map(dec_big)),
                    (Ty::D, _) => catch(|| dec(&a).checked_ceiling().map(dec_big)),
                    (Ty::P, "floor") => catch(|| pdec(&a).checked_floor().map(pdec_big)),
                    (Ty::P, _) => catch(|| pdec(&a).checked_ceiling().map(pdec_big)),
                };
                let ans = match &r {
                    Err(_) => "panic".to_string(),
                    Ok(Some(v)) => format!("ok {}", v),
                    Ok(None) => "none".to_string(),
                };
                // floor/ceiling to an integer, stated directly
                let one = pow10(t.scale());
                let fl = floor_div(&a, &one) * &one;
                let want = if *op == "floor" || fl == a { fl } else { fl + &one };
                let expect = if in_bits(t.bits(), &want) { format!("ok {}", want) } else { "none".to_string() };
                verdict(ans, expect, format!("{}:{}:{}", op, t.tag(), class(t.bits(), &a)), line)
            }
            ["d", "withdraw", a, dv, m] => {
                let (Some(a), Some(dv)) = (parse_val(Ty::D, a), parse_int(dv)) else { return Answer::ok("bad-op") };
                let Some(dv) = dv.to_u8() else { return Answer::ok("bad-op") };
                if *m == "x" {
                    let r = catch(|| dec(&a).for_withdrawal(dv, WithdrawStrategy::Exact).map(dec_big));
                    let ans = match &r {
                        Err(_) => "panic".to_string(),
                        Ok(Some(v)) => format!("ok {}", v),
                        Ok(None) => "none".to_string(),
                    };
                    return verdict(ans, format!("ok {}", a), "withdraw-exact".into(), line);
                }
                let Some(m) = parse_mode(m) else { return Answer::ok("bad-op") };
                let mode = mode_of(m).unwrap();
                let r = catch(|| dec(&a).for_withdrawal(dv, WithdrawStrategy::Rounded(mode)).map(dec_big));
                let ans = match &r {
                    Err(_) => "panic".to_string(),
                    Ok(Some(v)) => format!("ok {}", v),
                    Ok(None) => "none".to_string(),
                };
                let expect = if dv > 18 {
                    "panic".to_string()
                } else {
                    let r = prescribed_round(&a, &pow10(18 - dv as u32), m);
                    if in_bits(192, &r) {
                        format!("ok {}", r)
                    } else {
                        "none".to_string()
                    }
                };
                verdict(ans, expect, format!("withdraw:mode{}", m), line)
            }
            _ => Answer::ok("bad-op"),
        }
    }
}

fn main() {
    main_with(&[("c24", &A24), ("c25", &A25)]);
}
