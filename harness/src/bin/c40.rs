//! C40 — access controller: changes need two roles or an elapsed timer.
//!   area `c40`: engine level. A real access controller (latest blueprint version) is created on the
//!   `LedgerSimulator` with badge resources b0..b3; every op line is one real transaction (a call of
//!   an access-controller method by a holder of some of the badges) or a clock advance
//!   (`advance_to_round_at_timestamp`). The answer is the outcome kind + the resulting controller
//!   state (state tuple, role assignment, asset in vault), compared with the Lean model; the property
//!   oracle judges the *observed* effects (roles replaced / asset left the vault / proof created)
//!   against the history of successful calls.
//!   `consts` regenerates the method → role table from the `methods { … }` block of
//!   `radix-engine/src/blueprints/access_controller/v2/package.rs` (source text, read at run time)
//!   and, next to it, the table the compiled package definition contains.
use harness::util::*;
use radix_common::prelude::*;
use radix_engine::blueprints::access_controller::latest::*;
use radix_engine::blueprints::access_controller::*;
use radix_engine::errors::*;
use radix_engine::object_modules::role_assignment::*;
use radix_engine::system::system_db_reader::*;
use radix_engine::transaction::*;
use radix_engine_interface::blueprints::access_controller::*;
use radix_engine_interface::blueprints::package::*;
use radix_engine_interface::prelude::*;
use radix_transactions::prelude::*;
use scrypto_test::prelude::*;
use std::io::Write;

pub struct A;

const NB: usize = 4;
const BASE_MIN: u64 = 28_000_000;

/// (source identifier, compiled method name) — index = `Method.code` of the Lean model.
const METHODS: [(&str, &str); 21] = [
    ("ACCESS_CONTROLLER_CREATE_PROOF_IDENT", ACCESS_CONTROLLER_CREATE_PROOF_IDENT),
    ("ACCESS_CONTROLLER_INITIATE_RECOVERY_AS_PRIMARY_IDENT", ACCESS_CONTROLLER_INITIATE_RECOVERY_AS_PRIMARY_IDENT),
    ("ACCESS_CONTROLLER_INITIATE_RECOVERY_AS_RECOVERY_IDENT", ACCESS_CONTROLLER_INITIATE_RECOVERY_AS_RECOVERY_IDENT),
    ("ACCESS_CONTROLLER_INITIATE_BADGE_WITHDRAW_ATTEMPT_AS_PRIMARY_IDENT", ACCESS_CONTROLLER_INITIATE_BADGE_WITHDRAW_ATTEMPT_AS_PRIMARY_IDENT),
    ("ACCESS_CONTROLLER_INITIATE_BADGE_WITHDRAW_ATTEMPT_AS_RECOVERY_IDENT", ACCESS_CONTROLLER_INITIATE_BADGE_WITHDRAW_ATTEMPT_AS_RECOVERY_IDENT),
    ("ACCESS_CONTROLLER_QUICK_CONFIRM_PRIMARY_ROLE_RECOVERY_PROPOSAL_IDENT", ACCESS_CONTROLLER_QUICK_CONFIRM_PRIMARY_ROLE_RECOVERY_PROPOSAL_IDENT),
    ("ACCESS_CONTROLLER_QUICK_CONFIRM_RECOVERY_ROLE_RECOVERY_PROPOSAL_IDENT", ACCESS_CONTROLLER_QUICK_CONFIRM_RECOVERY_ROLE_RECOVERY_PROPOSAL_IDENT),
    ("ACCESS_CONTROLLER_QUICK_CONFIRM_PRIMARY_ROLE_BADGE_WITHDRAW_ATTEMPT_IDENT", ACCESS_CONTROLLER_QUICK_CONFIRM_PRIMARY_ROLE_BADGE_WITHDRAW_ATTEMPT_IDENT),
    ("ACCESS_CONTROLLER_QUICK_CONFIRM_RECOVERY_ROLE_BADGE_WITHDRAW_ATTEMPT_IDENT", ACCESS_CONTROLLER_QUICK_CONFIRM_RECOVERY_ROLE_BADGE_WITHDRAW_ATTEMPT_IDENT),
    ("ACCESS_CONTROLLER_TIMED_CONFIRM_RECOVERY_IDENT", ACCESS_CONTROLLER_TIMED_CONFIRM_RECOVERY_IDENT),
    ("ACCESS_CONTROLLER_CANCEL_PRIMARY_ROLE_RECOVERY_PROPOSAL_IDENT", ACCESS_CONTROLLER_CANCEL_PRIMARY_ROLE_RECOVERY_PROPOSAL_IDENT),
    ("ACCESS_CONTROLLER_CANCEL_RECOVERY_ROLE_RECOVERY_PROPOSAL_IDENT", ACCESS_CONTROLLER_CANCEL_RECOVERY_ROLE_RECOVERY_PROPOSAL_IDENT),
    ("ACCESS_CONTROLLER_CANCEL_PRIMARY_ROLE_BADGE_WITHDRAW_ATTEMPT_IDENT", ACCESS_CONTROLLER_CANCEL_PRIMARY_ROLE_BADGE_WITHDRAW_ATTEMPT_IDENT),
    ("ACCESS_CONTROLLER_CANCEL_RECOVERY_ROLE_BADGE_WITHDRAW_ATTEMPT_IDENT", ACCESS_CONTROLLER_CANCEL_RECOVERY_ROLE_BADGE_WITHDRAW_ATTEMPT_IDENT),
    ("ACCESS_CONTROLLER_LOCK_PRIMARY_ROLE_IDENT", ACCESS_CONTROLLER_LOCK_PRIMARY_ROLE_IDENT),
    ("ACCESS_CONTROLLER_UNLOCK_PRIMARY_ROLE_IDENT", ACCESS_CONTROLLER_UNLOCK_PRIMARY_ROLE_IDENT),
    ("ACCESS_CONTROLLER_STOP_TIMED_RECOVERY_IDENT", ACCESS_CONTROLLER_STOP_TIMED_RECOVERY_IDENT),
    ("ACCESS_CONTROLLER_MINT_RECOVERY_BADGES_IDENT", ACCESS_CONTROLLER_MINT_RECOVERY_BADGES_IDENT),
    ("ACCESS_CONTROLLER_LOCK_RECOVERY_FEE_IDENT", ACCESS_CONTROLLER_LOCK_RECOVERY_FEE_IDENT),
    ("ACCESS_CONTROLLER_WITHDRAW_RECOVERY_FEE_IDENT", ACCESS_CONTROLLER_WITHDRAW_RECOVERY_FEE_IDENT),
    ("ACCESS_CONTROLLER_CONTRIBUTE_RECOVERY_FEE_IDENT", ACCESS_CONTROLLER_CONTRIBUTE_RECOVERY_FEE_IDENT),
];
const M_CREATE_PROOF: usize = 0;
const M_INIT_REC_P: usize = 1;
const M_INIT_REC_R: usize = 2;
const M_INIT_WD_P: usize = 3;
const M_INIT_WD_R: usize = 4;
const M_QC_P_REC: usize = 5;
const M_QC_R_REC: usize = 6;
const M_QC_P_WD: usize = 7;
const M_QC_R_WD: usize = 8;
const M_TIMED: usize = 9;
const M_CANCEL_P_REC: usize = 10;
const M_CANCEL_R_REC: usize = 11;
const M_CANCEL_P_WD: usize = 12;
const M_CANCEL_R_WD: usize = 13;
const M_LOCK: usize = 14;
const M_UNLOCK: usize = 15;
const M_STOP: usize = 16;
const M_MINT: usize = 17;
const M_LOCK_FEE: usize = 18;
const M_WITHDRAW_FEE: usize = 19;
const M_CONTRIBUTE: usize = 20;

fn takes_proposal(m: usize) -> bool {
    matches!(m, M_INIT_REC_P | M_INIT_REC_R | M_QC_P_REC | M_QC_R_REC | M_TIMED | M_STOP)
}

fn role_code(name: &str) -> u64 {
    match name {
        "primary" => 0,
        "recovery" => 1,
        "confirmation" => 2,
        _ => 99, // a role no caller of the model holds (OWNER/SELF/unknown)
    }
}

fn lean_table(rows: &[(usize, Option<Vec<u64>>)]) -> String {
    let items: Vec<String> = rows
        .iter()
        .map(|(c, a)| match a {
            None => format!("({}, none)", c),
            Some(rs) => format!("({}, some [{}])", c, rs.iter().map(|r| r.to_string()).collect::<Vec<_>>().join(", ")),
        })
        .collect();
    format!("[{}]", items.join(", "))
}

/// last-wins de-duplication, first position kept (IndexMap::insert semantics)
fn dedup(rows: Vec<(usize, Option<Vec<u64>>)>) -> Vec<(usize, Option<Vec<u64>>)> {
    let mut out: Vec<(usize, Option<Vec<u64>>)> = vec![];
    for (c, a) in rows {
        if let Some(e) = out.iter_mut().find(|e| e.0 == c) {
            e.1 = a;
        } else {
            out.push((c, a));
        }
    }
    out
}

/// Parses the `methods { … }` block of the `roles_template!` invocation in v2/package.rs.
fn source_table() -> Vec<(usize, Option<Vec<u64>>)> {
    let repo = std::env::var("VERIF_REPO").unwrap_or_else(|_| "/repo".to_string());
    let path = format!("{}/radix-engine/src/blueprints/access_controller/v2/package.rs", repo);
    let src = match std::fs::read_to_string(&path) {
        Ok(s) => s,
        Err(_) => return vec![],
    };
    // strip comments
    let re_block = regex::Regex::new(r"(?s)/\*.*?\*/").unwrap();
    let re_line = regex::Regex::new(r"//[^\n]*").unwrap();
    let src = re_block.replace_all(&src, "").to_string();
    let src = re_line.replace_all(&src, "").to_string();
    let start = match src.find("roles_template!") {
        Some(i) => i,
        None => return vec![],
    };
    let rest = &src[start..];
    let re_m = regex::Regex::new(r"\bmethods\s*\{").unwrap();
    let m = match re_m.find(rest) {
        Some(m) => m,
        None => return vec![],
    };
    let body_start = m.end();
    let mut depth = 1i32;
    let mut end = None;
    for (i, ch) in rest[body_start..].char_indices() {
        match ch {
            '{' => depth += 1,
            '}' => {
                depth -= 1;
                if depth == 0 {
                    end = Some(body_start + i);
                    break;
                }
            }
            _ => {}
        }
    }
    let body = match end {
        Some(e) => &rest[body_start..e],
        None => return vec![],
    };
    let re_str = regex::Regex::new(r#""([^"]*)""#).unwrap();
    let mut rows = vec![];
    for entry in body.split(';') {
        let entry = entry.trim();
        if entry.is_empty() {
            continue;
        }
        let (lhs, rhs) = match entry.split_once("=>") {
            Some(x) => (x.0.trim(), x.1.trim()),
            None => {
                rows.push((999, Some(vec![])));
                continue;
            }
        };
        let code = METHODS
            .iter()
            .position(|(id, name)| *id == lhs || lhs.trim_matches('"') == *name)
            .unwrap_or(999);
        let acc = if rhs.ends_with("MethodAccessibility::Public") || rhs == "Public" {
            None
        } else if rhs.starts_with('[') && rhs.ends_with(']') {
            Some(re_str.captures_iter(rhs).map(|c| role_code(&c[1])).collect())
        } else {
            Some(vec![]) // OuterObjectOnly / OwnPackageOnly / anything else: not callable by a role holder
        };
        rows.push((code, acc));
    }
    dedup(rows)
}

fn compiled_table() -> Vec<(usize, Option<Vec<u64>>)> {
    let def = AccessControllerV2NativePackage::definition();
    let bp = match def.blueprints.get(ACCESS_CONTROLLER_BLUEPRINT) {
        Some(b) => b,
        None => return vec![],
    };
    let mut rows = vec![];
    if let MethodAuthTemplate::StaticRoleDefinition(s) = &bp.auth_config.method_auth {
        for (k, v) in s.methods.iter() {
            let code = METHODS.iter().position(|(_, name)| *name == k.ident.as_str()).unwrap_or(999);
            let acc = match v {
                MethodAccessibility::Public => None,
                MethodAccessibility::RoleProtected(l) => Some(l.list.iter().map(|r| role_code(r.key.as_str())).collect()),
                _ => Some(vec![]),
            };
            rows.push((code, acc));
        }
    }
    dedup(rows)
}

// ------------------------------------------------------------------------------------------ rules

#[derive(Clone, Debug, PartialEq, Eq)]
enum Rule {
    A,
    D,
    R(usize),
    Y(Vec<usize>),
    L(Vec<usize>),
}

fn parse_digits(s: &str) -> Option<Vec<usize>> {
    s.chars()
        .map(|c| if ('0'..='3').contains(&c) { Some(c as usize - '0' as usize) } else { None })
        .collect()
}

fn parse_rule(s: &str) -> Option<Rule> {
    let cs: Vec<char> = s.chars().collect();
    match cs.first() {
        Some('A') if cs.len() == 1 => Some(Rule::A),
        Some('D') if cs.len() == 1 => Some(Rule::D),
        Some('R') if cs.len() == 2 => parse_digits(&s[1..]).map(|d| Rule::R(d[0])),
        Some('Y') => parse_digits(&s[1..]).map(Rule::Y),
        Some('L') => parse_digits(&s[1..]).map(Rule::L),
        _ => None,
    }
}

fn parse_rule_set(s: &str) -> Option<[Rule; 3]> {
    let parts: Vec<&str> = s.split(',').collect();
    if parts.len() != 3 {
        return None;
    }
    Some([parse_rule(parts[0])?, parse_rule(parts[1])?, parse_rule(parts[2])?])
}

/// `n` or a decimal u32 (digits only)
fn parse_delay(s: &str) -> Option<Option<u32>> {
    if s == "n" {
        return Some(None);
    }
    if s.is_empty() || !s.chars().all(|c| c.is_ascii_digit()) || s.len() > 12 {
        return None;
    }
    s.parse::<u64>().ok().and_then(|d| u32::try_from(d).ok()).map(Some)
}

fn parse_nat(s: &str) -> Option<u64> {
    if s.is_empty() || !s.chars().all(|c| c.is_ascii_digit()) || s.len() > 18 {
        return None;
    }
    s.parse::<u64>().ok()
}

fn show_rule(r: &Rule) -> String {
    let d = |v: &Vec<usize>| v.iter().map(|x| x.to_string()).collect::<String>();
    match r {
        Rule::A => "A".into(),
        Rule::D => "D".into(),
        Rule::R(b) => format!("R{}", b),
        Rule::Y(v) => format!("Y{}", d(v)),
        Rule::L(v) => format!("L{}", d(v)),
    }
}

fn show_rules(rs: &[Rule; 3]) -> String {
    format!("{},{},{}", show_rule(&rs[0]), show_rule(&rs[1]), show_rule(&rs[2]))
}

fn show_delay(d: Option<u32>) -> String {
    match d {
        None => "n".into(),
        Some(d) => d.to_string(),
    }
}

/// the oracle's own evaluation of a rule against the badges the caller presents
fn sat(r: &Rule, held: &[usize]) -> bool {
    match r {
        Rule::A => true,
        Rule::D => false,
        Rule::R(b) => held.contains(b),
        Rule::Y(v) => v.iter().any(|b| held.contains(b)),
        Rule::L(v) => v.iter().all(|b| held.contains(b)),
    }
}

// ------------------------------------------------------------------------------------------ generator

fn gen_rule(rng: &mut Rng) -> Rule {
    match rng.below(20) {
        0 => Rule::A,
        1 => Rule::D,
        2 => {
            let n = rng.below(3) as usize;
            Rule::Y((0..n).map(|_| rng.below(NB as u64) as usize).collect())
        }
        3 => {
            let n = rng.below(3) as usize;
            Rule::L((0..n).map(|_| rng.below(NB as u64) as usize).collect())
        }
        _ => Rule::R(rng.below(NB as u64) as usize),
    }
}

fn gen_rules(rng: &mut Rng) -> [Rule; 3] {
    match rng.below(10) {
        0..=4 => [Rule::R(0), Rule::R(1), Rule::R(2)],
        5 => {
            // a permutation / shifted assignment of the three role badges
            let k = rng.below(4) as usize;
            [Rule::R((k) % 4), Rule::R((k + 1) % 4), Rule::R((k + 2) % 4)]
        }
        6 => {
            // two roles share a badge
            let a = rng.below(NB as u64) as usize;
            let b = rng.below(NB as u64) as usize;
            match rng.below(3) {
                0 => [Rule::R(a), Rule::R(a), Rule::R(b)],
                1 => [Rule::R(a), Rule::R(b), Rule::R(a)],
                _ => [Rule::R(b), Rule::R(a), Rule::R(a)],
            }
        }
        _ => [gen_rule(rng), gen_rule(rng), gen_rule(rng)],
    }
}

fn gen_delay(rng: &mut Rng) -> Option<u32> {
    match rng.below(12) {
        0..=2 => None,
        3 => Some(0),
        4 | 5 => Some(1),
        6 => Some(2),
        7 => Some(5),
        8 => Some(10),
        9 => Some(1000),
        10 => Some(u32::MAX),
        _ => Some(rng.below(30) as u32),
    }
}

fn gen_mask(rng: &mut Rng) -> u64 {
    match rng.below(20) {
        0 => 0,
        1 => 15,
        2 => 3,
        3 => 5,
        4 => 6,
        5 => 7,
        6 => 8,
        7 => rng.below(16),
        _ => 1 << rng.below(3),
    }
}

struct GenCase {
    pool: Vec<([Rule; 3], Option<u32>)>,
    secs: u64,
    delay: Option<u32>,
    /// the generator's guess of the current role rules (updated optimistically after scripted confirms)
    cur: [Rule; 3],
}

fn mask_of_rule(rng: &mut Rng, r: &Rule) -> u64 {
    match r {
        Rule::A => 0,
        Rule::D => gen_mask(rng),
        Rule::R(b) => 1 << b,
        Rule::Y(v) => v.first().map(|b| 1u64 << b).unwrap_or(0),
        Rule::L(v) => v.iter().fold(0, |m, b| m | (1u64 << b)),
    }
}

impl GenCase {
    fn proposal(&self, rng: &mut Rng) -> String {
        if rng.chance(1, 12) {
            format!("{} {}", show_rules(&gen_rules(rng)), show_delay(gen_delay(rng)))
        } else {
            let p = rng.pick(&self.pool);
            format!("{} {}", show_rules(&p.0), show_delay(p.1))
        }
    }
    fn call(&self, rng: &mut Rng, out: &mut dyn Write, mask: u64, m: usize, prop: Option<&str>) {
        if takes_proposal(m) {
            let p = match prop {
                Some(p) => p.to_string(),
                None => self.proposal(rng),
            };
            writeln!(out, "call {} {} {}", mask, METHODS[m].1, p).unwrap();
        } else {
            writeln!(out, "call {} {}", mask, METHODS[m].1).unwrap();
        }
    }
    fn advance(&mut self, rng: &mut Rng, out: &mut dyn Write) {
        let d = self.delay.unwrap_or(3) as u64;
        let step = match rng.below(8) {
            0 => 0,
            1 => 1 + rng.below(59),
            2 => 60,
            3 => (d.min(100_000) * 60).saturating_sub(1 + rng.below(60)),
            4 => d.min(100_000) * 60,
            5 => d.min(100_000) * 60 + rng.below(120),
            6 => 59,
            _ => rng.below(600),
        };
        self.secs += step;
        writeln!(out, "time {}", self.secs).unwrap();
    }
}

impl Area for A {
    fn gen(&self, rng: &mut Rng, n: usize, out: &mut dyn Write) {
        for _ in 0..n {
            let delay = gen_delay(rng);
            let rules = gen_rules(rng);
            writeln!(out, "reset {} {} {}", BASE_MIN, show_delay(delay), show_rules(&rules)).unwrap();
            let mut g = GenCase { pool: vec![], secs: 0, delay, cur: rules.clone() };
            for _ in 0..(1 + rng.below(3)) {
                g.pool.push((gen_rules(rng), gen_delay(rng)));
            }
            if rng.chance(1, 2) {
                g.secs = rng.below(120);
                writeln!(out, "time {}", g.secs).unwrap();
            }
            let len = 3 + rng.below(28);
            let mut i = 0;
            while i < len {
                i += 1;
                match rng.below(100) {
                    0..=2 => {
                        // malformed stream
                        match rng.below(8) {
                            0 => writeln!(out, "call 16 create_proof").unwrap(),
                            1 => writeln!(out, "call 1 no_such_method").unwrap(),
                            2 => writeln!(out, "call 1 create_proof extra").unwrap(),
                            3 => writeln!(out, "call 1 initiate_recovery_as_primary R9,R1,R2 n").unwrap(),
                            4 => writeln!(out, "call 1 initiate_recovery_as_primary R0,R1 n").unwrap(),
                            5 => writeln!(out, "time x").unwrap(),
                            6 => writeln!(out, "call 2 timed_confirm_recovery R0,R1,R2 4294967296").unwrap(),
                            _ => writeln!(out, "call x lock_primary_role").unwrap(),
                        }
                    }
                    3..=14 => g.advance(rng, out),
                    15..=54 => {
                        // scripted fragment: initiate, (noise), confirm / cancel / stop / timed confirm
                        let prop = g.proposal(rng);
                        let who = rng.below(2); // 0 primary, 1 recovery proposes
                        let recovery_kind = rng.chance(2, 3);
                        let init = match (who, recovery_kind) {
                            (0, true) => M_INIT_REC_P,
                            (1, true) => M_INIT_REC_R,
                            (0, false) => M_INIT_WD_P,
                            _ => M_INIT_WD_R,
                        };
                        let own = if rng.chance(5, 6) { mask_of_rule(rng, &g.cur[who as usize].clone()) } else { gen_mask(rng) };
                        g.call(rng, out, own, init, Some(&prop));
                        if rng.chance(1, 3) {
                            let m = *rng.pick(&[M_LOCK, M_UNLOCK, M_CREATE_PROOF, M_STOP, M_MINT, M_CONTRIBUTE]);
                            let mask = gen_mask(rng);
                            g.call(rng, out, mask, m, Some(&prop));
                        }
                        if rng.chance(1, 3) {
                            g.advance(rng, out);
                        }
                        let fin = match (who, recovery_kind, rng.below(10)) {
                            (0, true, 0..=5) => M_QC_P_REC,
                            (0, true, 6..=7) => M_CANCEL_P_REC,
                            (0, true, _) => M_QC_R_REC,
                            (1, true, 0..=3) => M_QC_R_REC,
                            (1, true, 4..=6) => M_TIMED,
                            (1, true, 7) => M_STOP,
                            (1, true, 8) => M_CANCEL_R_REC,
                            (1, true, _) => M_QC_P_REC,
                            (0, false, 0..=6) => M_QC_P_WD,
                            (0, false, 7..=8) => M_CANCEL_P_WD,
                            (0, false, _) => M_QC_R_WD,
                            (_, false, 0..=6) => M_QC_R_WD,
                            (_, false, 7..=8) => M_CANCEL_R_WD,
                            _ => M_QC_P_WD,
                        };
                        if fin == M_TIMED {
                            // around the deadline: minute of initiation + delay, +/- a little
                            if let Some(d) = g.delay {
                                if (d as u64) <= 100_000 && rng.chance(4, 5) {
                                    let deadline = (g.secs / 60 + d as u64) * 60;
                                    let t = match rng.below(6) {
                                        0 => deadline.saturating_sub(1),
                                        1 => deadline.saturating_sub(60),
                                        2 => deadline + rng.below(60),
                                        3 => deadline + 60 + rng.below(600),
                                        _ => deadline,
                                    };
                                    if t >= g.secs {
                                        g.secs = t;
                                        writeln!(out, "time {}", g.secs).unwrap();
                                    }
                                }
                            }
                        }
                        // the confirming party: mostly another single badge, sometimes the proposer itself
                        let mask = match rng.below(10) {
                            0 => own,
                            1 => gen_mask(rng),
                            2..=5 => mask_of_rule(rng, &g.cur[2].clone()),
                            _ => mask_of_rule(rng, &g.cur[(1 - who) as usize].clone()),
                        };
                        let p2 = if rng.chance(1, 8) { None } else { Some(prop.as_str()) };
                        g.call(rng, out, mask, fin, p2);
                        i += 2;
                        if p2.is_some() && matches!(fin, M_QC_P_REC | M_QC_R_REC | M_TIMED) && ((fin == M_QC_P_REC) == (who == 0)) {
                            if let Some(r) = parse_rule_set(prop.split(' ').next().unwrap()) {
                                g.cur = r;
                            }
                        }
                        if matches!(fin, M_QC_P_WD | M_QC_R_WD) && rng.chance(3, 4) {
                            i = len; // after a withdrawal every role is DenyAll: little left to explore
                        }
                    }
                    55..=66 => {
                        // lock / proof / unlock fragment
                        let rec = mask_of_rule(rng, &g.cur[1].clone());
                        let prim = mask_of_rule(rng, &g.cur[0].clone());
                        g.call(rng, out, rec, M_LOCK, None);
                        // while locked: whatever the primary role does on its own must not re-enable proofs
                        if rng.chance(1, 2) {
                            for _ in 0..(1 + rng.below(3)) {
                                let m = *rng.pick(&[M_INIT_REC_P, M_CANCEL_P_REC, M_INIT_WD_P, M_CANCEL_P_WD]);
                                g.call(rng, out, prim, m, None);
                                i += 1;
                            }
                        }
                        let who = if rng.chance(4, 5) { prim } else { gen_mask(rng) };
                        g.call(rng, out, who, M_CREATE_PROOF, None);
                        if rng.chance(1, 2) {
                            let u = if rng.chance(3, 4) { rec } else { prim };
                            g.call(rng, out, u, M_UNLOCK, None);
                            g.call(rng, out, prim, M_CREATE_PROOF, None);
                        }
                        i += 2;
                    }
                    _ => {
                        let m = rng.below(METHODS.len() as u64) as usize;
                        let mask = if rng.chance(3, 5) { let r = g.cur[rng.below(3) as usize].clone(); mask_of_rule(rng, &r) } else { gen_mask(rng) };
                        g.call(rng, out, mask, m, None);
                    }
                }
            }
        }
    }

    fn runner(&self) -> Box<dyn Runner> {
        Box::new(R::new())
    }

    fn consts(&self) -> Vec<(String, String)> {
        let names: Vec<String> = METHODS.iter().map(|m| format!("{:?}", m.1)).collect();
        vec![
            ("methodNames".into(), format!("[{}]\traw\tList String", names.join(", "))),
            ("methodTable".into(), format!("{}\traw\tList (Nat × Option (List Nat))", lean_table(&source_table()))),
            ("compiledTable".into(), format!("{}\traw\tList (Nat × Option (List Nat))", lean_table(&compiled_table()))),
        ]
    }
}

// ------------------------------------------------------------------------------------------ runner

struct Obs {
    locked: bool,
    prim_rec: Option<String>,
    prim_wd: bool,
    rec_rec: Option<(bool, String, i64)>, // (timed, proposal, allowed_after secs)
    rec_wd: bool,
    delay: Option<u32>,
    roles: [Rule; 3],
    roles_known: bool,
    asset: bool,
    fee: bool,
}

/// what the oracle remembers of the history of successful calls
#[derive(Default)]
struct Hist {
    prim_rec: Option<String>,
    rec_rec: Option<(String, u64, bool)>, // proposal, minute of initiation, timer still running
    prim_wd: bool,
    rec_wd: bool,
    locked: bool,
}

struct R {
    ledger: DefaultLedgerSimulator,
    snapshot: LedgerSimulatorSnapshot,
    pk: Secp256k1PublicKey,
    account: ComponentAddress,
    asset: ResourceAddress,
    badges: [ResourceAddress; NB],
    ac: Option<ComponentAddress>,
    base: u64,
    secs: u64,
    mint_ctr: u64,
    hist: Hist,
}

impl R {
    fn new() -> R {
        let mut ledger = LedgerSimulatorBuilder::new().build();
        let (pk, _, account) = ledger.new_account(false);
        let asset = ledger.create_fungible_resource(1.into(), 0, account);
        let badges = [
            ledger.create_fungible_resource(10.into(), 0, account),
            ledger.create_fungible_resource(10.into(), 0, account),
            ledger.create_fungible_resource(10.into(), 0, account),
            ledger.create_fungible_resource(10.into(), 0, account),
        ];
        let snapshot = ledger.create_snapshot();
        R { ledger, snapshot, pk, account, asset, badges, ac: None, base: 0, secs: 0, mint_ctr: 0, hist: Hist::default() }
    }

    fn access_rule(&self, r: &Rule) -> AccessRule {
        let res = |b: &usize| ResourceOrNonFungible::Resource(self.badges[*b]);
        match r {
            Rule::A => AccessRule::AllowAll,
            Rule::D => AccessRule::DenyAll,
            Rule::R(b) => AccessRule::Protected(CompositeRequirement::BasicRequirement(BasicRequirement::Require(res(b)))),
            Rule::Y(v) => AccessRule::Protected(CompositeRequirement::BasicRequirement(BasicRequirement::AnyOf(v.iter().map(res).collect()))),
            Rule::L(v) => AccessRule::Protected(CompositeRequirement::BasicRequirement(BasicRequirement::AllOf(v.iter().map(res).collect()))),
        }
    }

    fn rule_of(&self, r: &AccessRule) -> Option<Rule> {
        let idx = |x: &ResourceOrNonFungible| -> Option<usize> {
            match x {
                ResourceOrNonFungible::Resource(a) => self.badges.iter().position(|b| b == a),
                _ => None,
            }
        };
        match r {
            AccessRule::AllowAll => Some(Rule::A),
            AccessRule::DenyAll => Some(Rule::D),
            AccessRule::Protected(CompositeRequirement::BasicRequirement(b)) => match b {
                BasicRequirement::Require(x) => idx(x).map(Rule::R),
                BasicRequirement::AnyOf(v) => v.iter().map(idx).collect::<Option<Vec<_>>>().map(Rule::Y),
                BasicRequirement::AllOf(v) => v.iter().map(idx).collect::<Option<Vec<_>>>().map(Rule::L),
                _ => None,
            },
            _ => None,
        }
    }

    fn rule_set(&self, rs: &[Rule; 3]) -> RuleSet {
        RuleSet { primary_role: self.access_rule(&rs[0]), recovery_role: self.access_rule(&rs[1]), confirmation_role: self.access_rule(&rs[2]) }
    }

    fn show_real_rule(&self, r: &AccessRule) -> String {
        self.rule_of(r).map(|r| show_rule(&r)).unwrap_or_else(|| "?".into())
    }

    fn show_proposal(&self, p: &RecoveryProposal) -> String {
        format!(
            "{},{},{}/{}",
            self.show_real_rule(&p.rule_set.primary_role),
            self.show_real_rule(&p.rule_set.recovery_role),
            self.show_real_rule(&p.rule_set.confirmation_role),
            show_delay(p.timed_recovery_delay_in_minutes)
        )
    }

    /// reads the controller's state from the substate database
    fn observe(&mut self) -> Obs {
        let ac = self.ac.unwrap();
        let (st, roles): (AccessControllerV2Substate, Vec<Option<AccessRule>>) = {
            let reader = SystemDatabaseReader::new(self.ledger.substate_db());
            let st = reader
                .read_object_field(ac.as_node_id(), ModuleId::Main, AccessControllerV2Field::State.field_index())
                .unwrap()
                .as_typed::<AccessControllerV2StateFieldPayload>()
                .unwrap()
                .fully_update_and_into_latest_version();
            let roles = ["primary", "recovery", "confirmation"]
                .iter()
                .map(|name| {
                    reader
                        .read_object_collection_entry::<_, RoleAssignmentAccessRuleEntryPayload>(
                            ac.as_node_id(),
                            ModuleId::RoleAssignment,
                            ObjectCollectionKey::KeyValue(
                                RoleAssignmentCollection::AccessRuleKeyValue.collection_index(),
                                &ModuleRoleKey::new(ModuleId::Main, RoleKey::new(*name)),
                            ),
                        )
                        .unwrap()
                        .map(|p| p.fully_update_and_into_latest_version())
                })
                .collect();
            (st, roles)
        };
        let asset_amount = self.ledger.inspect_vault_balance(st.controlled_asset.0 .0).unwrap_or(Decimal::ZERO);
        let mut roles_known = true;
        let mut rs = [Rule::D, Rule::D, Rule::D];
        for (i, r) in roles.iter().enumerate() {
            match r.as_ref().and_then(|r| self.rule_of(r)) {
                Some(x) => rs[i] = x,
                None => roles_known = false,
            }
        }
        Obs {
            locked: matches!(st.state.0, PrimaryRoleLockingState::Locked),
            prim_rec: match &st.state.1 {
                PrimaryRoleRecoveryAttemptState::NoRecoveryAttempt => None,
                PrimaryRoleRecoveryAttemptState::RecoveryAttempt(p) => Some(self.show_proposal(p)),
            },
            prim_wd: matches!(st.state.2, PrimaryRoleBadgeWithdrawAttemptState::BadgeWithdrawAttempt),
            rec_rec: match &st.state.3 {
                RecoveryRoleRecoveryAttemptState::NoRecoveryAttempt => None,
                RecoveryRoleRecoveryAttemptState::RecoveryAttempt(RecoveryRoleRecoveryState::UntimedRecovery(p)) => Some((false, self.show_proposal(p), 0)),
                RecoveryRoleRecoveryAttemptState::RecoveryAttempt(RecoveryRoleRecoveryState::TimedRecovery { proposal, timed_recovery_allowed_after }) => {
                    Some((true, self.show_proposal(proposal), timed_recovery_allowed_after.seconds_since_unix_epoch))
                }
            },
            rec_wd: matches!(st.state.4, RecoveryRoleBadgeWithdrawAttemptState::BadgeWithdrawAttempt),
            delay: st.timed_recovery_delay_in_minutes,
            roles: rs,
            roles_known,
            asset: asset_amount == Decimal::ONE,
            fee: st.xrd_fee_vault.is_some(),
        }
    }

    fn show_obs(o: &Obs) -> String {
        let bit = |b: bool| if b { "1" } else { "0" };
        let rr = match &o.rec_rec {
            None => "-".to_string(),
            Some((false, p, _)) => format!("U:{}", p),
            Some((true, p, t)) => format!("T:{}@{}", p, t),
        };
        format!(
            "st={};{};{};{};{} delay={} roles={} asset={} fee={}",
            if o.locked { "L" } else { "U" },
            o.prim_rec.clone().unwrap_or_else(|| "-".into()),
            bit(o.prim_wd),
            rr,
            bit(o.rec_wd),
            show_delay(o.delay),
            if o.roles_known { show_rules(&o.roles) } else { "?".into() },
            bit(o.asset),
            bit(o.fee)
        )
    }

    fn set_time(&mut self) -> bool {
        let ms = (self.base * 60 + self.secs) as i64 * 1000;
        let receipt = self.ledger.advance_to_round_at_timestamp(Round::of(1), ms);
        receipt.is_commit_success()
    }

    fn reset(&mut self, t: &[&str]) -> Answer {
        if t.len() != 4 {
            return Answer::ok("bad-op");
        }
        let (base, delay, rules) = match (parse_nat(t[1]), parse_delay(t[2]), parse_rule_set(t[3])) {
            (Some(b), Some(d), Some(r)) => (b, d, r),
            _ => return Answer::ok("bad-op"),
        };
        self.ledger.restore_snapshot(self.snapshot.clone());
        self.base = base;
        self.secs = 0;
        self.hist = Hist::default();
        self.ac = None;
        if !self.set_time() {
            return Answer::ok("err:time");
        }
        let rs = self.rule_set(&rules);
        let manifest = ManifestBuilder::new()
            .lock_standard_test_fee(self.account)
            .withdraw_from_account(self.account, self.asset, 1)
            .take_all_from_worktop(self.asset, "asset")
            .create_access_controller("asset", rs.primary_role, rs.recovery_role, rs.confirmation_role, delay)
            .build();
        let receipt = self.ledger.execute_manifest(manifest, [NonFungibleGlobalId::from_public_key(&self.pk)]);
        if !receipt.is_commit_success() {
            return Answer::ok("err:create");
        }
        self.ac = Some(receipt.expect_commit(true).new_component_addresses()[0]);
        let o = self.observe();
        let ans = format!("ok {}", Self::show_obs(&o));
        if o.locked || o.prim_rec.is_some() || o.prim_wd || o.rec_rec.is_some() || o.rec_wd || !o.asset {
            return Answer::fail(ans, "create-not-default", "a freshly created controller is not in the default state with the asset in its vault");
        }
        Answer::ok(ans)
    }

    fn call(&mut self, t: &[&str]) -> Answer {
        let ac = match self.ac {
            Some(a) => a,
            None => return Answer::ok("bad-op"),
        };
        if t.len() < 3 {
            return Answer::ok("bad-op");
        }
        let mask = match parse_nat(t[1]) {
            Some(m) if m < 16 => m,
            _ => return Answer::ok("bad-op"),
        };
        let m = match METHODS.iter().position(|x| x.1 == t[2]) {
            Some(m) => m,
            None => return Answer::ok("bad-op"),
        };
        let prop: Option<([Rule; 3], Option<u32>)> = if takes_proposal(m) {
            if t.len() != 5 {
                return Answer::ok("bad-op");
            }
            match (parse_rule_set(t[3]), parse_delay(t[4])) {
                (Some(r), Some(d)) => Some((r, d)),
                _ => return Answer::ok("bad-op"),
            }
        } else {
            if t.len() != 3 {
                return Answer::ok("bad-op");
            }
            None
        };
        let held: Vec<usize> = (0..NB).filter(|i| (mask >> i) & 1 == 1).collect();
        let before = self.observe();

        // ---- build and run the real transaction
        let mut b = ManifestBuilder::new().lock_fee_from_faucet();
        for i in &held {
            b = b.create_proof_from_account_of_amount(self.account, self.badges[*i], 1);
        }
        let mut call_index = 1 + held.len();
        let name = METHODS[m].1;
        b = match m {
            M_INIT_REC_P | M_INIT_REC_R | M_QC_P_REC | M_QC_R_REC | M_TIMED | M_STOP => {
                let (r, d) = prop.clone().unwrap();
                // all six input structs have the same shape (rule_set, timed_recovery_delay_in_minutes)
                b.call_method(ac, name, AccessControllerInitiateRecoveryAsPrimaryInput { rule_set: self.rule_set(&r), timed_recovery_delay_in_minutes: d })
            }
            M_MINT => {
                self.mint_ctr += 1;
                b.call_method(ac, name, AccessControllerMintRecoveryBadgesInput { non_fungible_local_ids: indexset![NonFungibleLocalId::integer(self.mint_ctr)] })
            }
            M_LOCK_FEE => b.call_method(ac, name, AccessControllerLockRecoveryFeeInput { amount: dec!(1) }),
            M_WITHDRAW_FEE => b.call_method(ac, name, AccessControllerWithdrawRecoveryFeeInput { amount: dec!(1) }),
            M_CONTRIBUTE => {
                call_index += 2;
                b.withdraw_from_account(self.account, XRD, dec!(5))
                    .take_all_from_worktop(XRD, "xrd")
                    .call_method_with_name_lookup(ac, name, |l| AccessControllerContributeRecoveryFeeManifestInput { bucket: l.bucket("xrd") })
            }
            _ => b.call_method(ac, name, ()),
        };
        if m == M_CREATE_PROOF {
            b = b.pop_from_auth_zone("created_proof");
        }
        let manifest = b.deposit_entire_worktop(self.account).build();
        let receipt = self.ledger.execute_manifest(manifest, [NonFungibleGlobalId::from_public_key(&self.pk)]);

        // ---- canonical outcome
        let mut returned_owned = 0usize;
        let mut set_role_events = 0usize;
        let outcome: String = match &receipt.result {
            TransactionResult::Commit(c) => {
                for (id, _) in c.application_events.iter() {
                    if let EventTypeIdentifier(Emitter::Method(node, ModuleId::RoleAssignment), ev) = id {
                        if node == ac.as_node_id() && ev == "SetRoleEvent" {
                            set_role_events += 1;
                        }
                    }
                }
                match &c.outcome {
                    TransactionOutcome::Success(outputs) => {
                        if let Some(InstructionOutput::CallReturn(bytes)) = outputs.get(call_index) {
                            if let Ok(v) = IndexedScryptoValue::from_slice(bytes) {
                                returned_owned = v.owned_nodes().len();
                            }
                        }
                        "ok".to_string()
                    }
                    TransactionOutcome::Failure(e) => match e {
                        RuntimeError::SystemModuleError(SystemModuleError::AuthError(AuthError::Unauthorized(_))) => "unauthorized".to_string(),
                        RuntimeError::ApplicationError(ApplicationError::AccessControllerError(e)) => {
                            let p = |p: &Proposer| match p {
                                Proposer::Primary => "P",
                                Proposer::Recovery => "R",
                            };
                            match e {
                                AccessControllerError::OperationRequiresUnlockedPrimaryRole => "err:OperationRequiresUnlockedPrimaryRole".to_string(),
                                AccessControllerError::TimeOverflow => "err:TimeOverflow".to_string(),
                                AccessControllerError::RecoveryAlreadyExistsForProposer { proposer } => format!("err:RecoveryAlreadyExistsForProposer:{}", p(proposer)),
                                AccessControllerError::NoRecoveryExistsForProposer { proposer } => format!("err:NoRecoveryExistsForProposer:{}", p(proposer)),
                                AccessControllerError::BadgeWithdrawAttemptAlreadyExistsForProposer { proposer } => format!("err:BadgeWithdrawAttemptAlreadyExistsForProposer:{}", p(proposer)),
                                AccessControllerError::NoBadgeWithdrawAttemptExistsForProposer { proposer } => format!("err:NoBadgeWithdrawAttemptExistsForProposer:{}", p(proposer)),
                                AccessControllerError::NoTimedRecoveriesFound => "err:NoTimedRecoveriesFound".to_string(),
                                AccessControllerError::TimedRecoveryDelayHasNotElapsed => "err:TimedRecoveryDelayHasNotElapsed".to_string(),
                                AccessControllerError::RecoveryProposalMismatch { .. } => "err:RecoveryProposalMismatch".to_string(),
                                AccessControllerError::NoXrdFeeVault => "err:NoXrdFeeVault".to_string(),
                            }
                        }
                        other => {
                            let s = format!("{:?}", other);
                            format!("err:other:{}", s.chars().filter(|c| c.is_ascii_alphanumeric()).take(60).collect::<String>())
                        }
                    },
                }
            }
            TransactionResult::Reject(r) => {
                let s = format!("{:?}", r.reason);
                format!("rejected:{}", s.chars().filter(|c| c.is_ascii_alphanumeric()).take(40).collect::<String>())
            }
            TransactionResult::Abort(_) => "aborted".to_string(),
        };
        let ok = outcome == "ok";
        let after = self.observe();

        // ---- observed effect (from state and events, not from the method name)
        let roles_changed = before.roles != after.roles || before.roles_known != after.roles_known;
        let effect = if before.asset && !after.asset {
            "withdrawn".to_string()
        } else if set_role_events > 0 {
            format!("replaced:{}", if after.roles_known { show_rules(&after.roles) } else { "?".into() })
        } else if ok && m == M_CREATE_PROOF && returned_owned == 1 {
            "proof".to_string()
        } else if ok && before.fee && (m == M_LOCK_FEE || m == M_WITHDRAW_FEE) {
            "fee".to_string()
        } else {
            "none".to_string()
        };
        // fee-vault operations on an existing vault: outcome not modelled (success or vault error)
        let fee_coarse = before.fee && (m == M_LOCK_FEE || m == M_WITHDRAW_FEE) && outcome != "unauthorized";
        let ans = if fee_coarse {
            format!("ok fee {}", Self::show_obs(&after))
        } else {
            format!("{} {} {}", outcome, effect, Self::show_obs(&after))
        };

        // ---- property oracle, on the implementation's behaviour only
        let now_min = self.base + self.secs / 60;
        let holds = |role: usize| sat(&before.roles[role], &held);
        let pstr = prop.as_ref().map(|(r, d)| format!("{}/{}", show_rules(r), show_delay(*d)));
        let mut fail: Option<(String, String)> = None;
        let mut flag = |k: String, d: String| {
            if fail.is_none() {
                fail = Some((k, d));
            }
        };
        if !ok {
            // a failed transaction must leave everything as it was
            if Self::show_obs(&before) != Self::show_obs(&after) {
                flag(format!("failed-call-changed-state:{}", name), format!("{} -> {}", Self::show_obs(&before), Self::show_obs(&after)));
            }
        }
        if roles_changed && set_role_events == 0 {
            flag(format!("roles-changed-silently:{}", name), "role assignment differs after the call but no SetRoleEvent was emitted".into());
        }
        if returned_owned > 0 && !matches!(m, M_CREATE_PROOF | M_MINT | M_WITHDRAW_FEE | M_QC_P_WD | M_QC_R_WD) {
            flag(format!("unexpected-owned-return:{}", name), "method returned a bucket/proof".into());
        }
        if effect == "withdrawn" {
            // needs: a withdraw attempt of proposer A still pending in the history, confirmed by a different role allowed to
            let just = match m {
                M_QC_P_WD => self.hist.prim_wd && (holds(1) || holds(2)),
                M_QC_R_WD => self.hist.rec_wd && (holds(0) || holds(2)),
                _ => false,
            };
            if !ok || !just {
                flag(format!("asset-withdrawn-unjustified:{}", name), format!("asset left the vault on `{}` by badges {:?} (roles {}) without a pending attempt confirmed by another role", name, held, show_rules(&before.roles)));
            }
        } else if effect.starts_with("replaced") {
            let new_roles = show_rules(&after.roles);
            let p = pstr.clone().unwrap_or_default();
            let p_rules = p.split('/').next().unwrap_or("").to_string();
            let just = match m {
                M_QC_P_REC => self.hist.prim_rec.as_deref() == Some(p.as_str()) && new_roles == p_rules && (holds(1) || holds(2)),
                M_QC_R_REC => self.hist.rec_rec.as_ref().map(|x| x.0.as_str()) == Some(p.as_str()) && new_roles == p_rules && (holds(0) || holds(2)),
                M_TIMED => match (&self.hist.rec_rec, before.delay) {
                    (Some((hp, t0, true)), Some(d)) => hp == &p && new_roles == p_rules && now_min >= t0 + d as u64,
                    _ => false,
                },
                _ => false,
            };
            if !ok || !just || !after.roles_known {
                flag(format!("rule-set-replaced-unjustified:{}", name), format!("roles became {} on `{}` by badges {:?} (roles before {}) at minute {} without a matching pending proposal confirmed by another role / elapsed timer", new_roles, name, held, show_rules(&before.roles), now_min));
            }
        } else if effect == "proof" {
            if before.locked || self.hist.locked {
                flag("proof-while-primary-locked".into(), format!("create_proof succeeded while the primary role is locked (state locked={}, history locked={})", before.locked, self.hist.locked));
            }
        }
        if ok && m == M_CREATE_PROOF && returned_owned != 1 {
            flag("create-proof-no-proof".into(), "create_proof succeeded without returning a proof".into());
        }
        // after a confirmation everything is reset
        if (effect == "withdrawn" || effect.starts_with("replaced")) && (after.locked || after.prim_rec.is_some() || after.prim_wd || after.rec_rec.is_some() || after.rec_wd) {
            flag(format!("state-not-reset-after-confirm:{}", name), Self::show_obs(&after));
        }
        // history bookkeeping: successful calls only; an initiate must come from a holder of the proposer role
        if ok {
            match m {
                M_INIT_REC_P | M_INIT_WD_P if !holds(0) => flag(format!("initiate-without-role:{}", name), format!("badges {:?} do not satisfy the primary rule {}", held, show_rule(&before.roles[0]))),
                M_INIT_REC_R | M_INIT_WD_R if !holds(1) => flag(format!("initiate-without-role:{}", name), format!("badges {:?} do not satisfy the recovery rule {}", held, show_rule(&before.roles[1]))),
                _ => {}
            }
            let confirmed = effect == "withdrawn" || effect.starts_with("replaced");
            if confirmed {
                self.hist = Hist::default();
            } else {
                match m {
                    M_INIT_REC_P => self.hist.prim_rec = pstr.clone(),
                    M_INIT_REC_R => self.hist.rec_rec = Some((pstr.clone().unwrap(), now_min, before.delay.is_some())),
                    M_INIT_WD_P => self.hist.prim_wd = true,
                    M_INIT_WD_R => self.hist.rec_wd = true,
                    M_CANCEL_P_REC => self.hist.prim_rec = None,
                    M_CANCEL_R_REC => self.hist.rec_rec = None,
                    M_CANCEL_P_WD => self.hist.prim_wd = false,
                    M_CANCEL_R_WD => self.hist.rec_wd = false,
                    M_STOP => {
                        if let Some(x) = self.hist.rec_rec.as_mut() {
                            x.2 = false;
                        }
                    }
                    M_LOCK => self.hist.locked = true,
                    M_UNLOCK => self.hist.locked = false,
                    _ => {}
                }
            }
        }
        match fail {
            None => Answer::ok(ans),
            Some((k, d)) => Answer::fail(ans, k, d),
        }
    }
}

impl Runner for R {
    fn step(&mut self, line: &str) -> Answer {
        let t: Vec<&str> = line.split(' ').filter(|s| !s.is_empty()).collect();
        if t.is_empty() {
            return Answer::ok("bad-op");
        }
        match t[0] {
            "reset" => self.reset(&t),
            "time" => {
                if t.len() != 2 || self.ac.is_none() {
                    return Answer::ok("bad-op");
                }
                match parse_nat(t[1]) {
                    Some(s) => {
                        if s < self.secs {
                            Answer::ok("stale")
                        } else {
                            self.secs = s;
                            if self.set_time() {
                                Answer::ok("ok")
                            } else {
                                Answer::ok("err:time")
                            }
                        }
                    }
                    None => Answer::ok("bad-op"),
                }
            }
            "call" => self.call(&t),
            _ => Answer::ok("bad-op"),
        }
    }
}

fn main() {
    main_with(&[("c40", &A)]);
}
