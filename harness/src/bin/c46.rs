//! C46 — WASM instrumentation preserves program meaning.
//!
//! MiniWasm programs (i64 values, i32 conditions, blocks of empty type, direct calls, br/br_if/return, trapping
//! div_u/rem_u, unreachable) are generated as token streams, compiled with wasm-encoder, and run in wasmi 0.39
//! (a) un-instrumented and (b) after the real `WasmModule::inject_instruction_metering` +
//! `inject_stack_metering`, with a host `env.gas` that counts and enforces a budget. The metered blocks the real
//! instrumenter inserted (position, cost) are read back from the instrumented code.
//! Oracle (independent of the Lean model): same results / trap kinds with sufficient budget; charged units equal
//! on repeated runs; with budget = needed − 1 the run ends out-of-gas, with budget = needed it does not.
use harness::util::*;
use radix_engine::vm::wasm::*;
use std::io::Write;
use wasm_encoder as we;
use wasmparser as wp;

// ------------------------------------------------------------------------------------------------
// tokens → wasm

fn num(t: &str, pre: &str) -> Option<u64> {
    t.strip_prefix(pre).and_then(|x| x.parse::<u64>().ok())
}

fn instr_of(t: &str, nfuncs: u32) -> Option<we::Instruction<'static>> {
    use we::Instruction as I;
    Some(match t {
        "add" => I::I64Add,
        "sub" => I::I64Sub,
        "mul" => I::I64Mul,
        "divu" => I::I64DivU,
        "remu" => I::I64RemU,
        "and" => I::I64And,
        "or" => I::I64Or,
        "xor" => I::I64Xor,
        "shl" => I::I64Shl,
        "shru" => I::I64ShrU,
        "eq" => I::I64Eq,
        "ne" => I::I64Ne,
        "ltu" => I::I64LtU,
        "gtu" => I::I64GtU,
        "eqz" => I::I64Eqz,
        "ext" => I::I64ExtendI32U,
        "drop" => I::Drop,
        "sel" => I::Select,
        "nop" => I::Nop,
        "ret" => I::Return,
        "unr" => I::Unreachable,
        "blk" => I::Block(we::BlockType::Empty),
        "loop" => I::Loop(we::BlockType::Empty),
        "if" => I::If(we::BlockType::Empty),
        "else" => I::Else,
        "end" => I::End,
        _ => {
            if let Some(d) = num(t, "brif") {
                I::BrIf(d as u32)
            } else if let Some(d) = num(t, "br") {
                I::Br(d as u32)
            } else if let Some(f) = num(t, "call") {
                if f as u32 >= nfuncs {
                    return None;
                }
                I::Call(f as u32)
            } else if let Some(i) = num(t, "lg") {
                I::LocalGet(i as u32)
            } else if let Some(i) = num(t, "ls") {
                I::LocalSet(i as u32)
            } else if let Some(i) = num(t, "lt") {
                I::LocalTee(i as u32)
            } else if let Some(v) = num(t, "c") {
                I::I64Const(v as i64)
            } else {
                return None;
            }
        }
    })
}

#[derive(Clone, Debug)]
struct FuncT {
    params: u32,
    locals: u32,
    toks: Vec<String>,
}

fn build(funcs: &[FuncT]) -> Option<Vec<u8>> {
    let mut m = we::Module::new();
    let mut ts = we::TypeSection::new();
    for f in funcs {
        ts.ty().function((0..f.params).map(|_| we::ValType::I64), [we::ValType::I64]);
    }
    m.section(&ts);
    let mut fs = we::FunctionSection::new();
    for i in 0..funcs.len() {
        fs.function(i as u32);
    }
    m.section(&fs);
    let mut es = we::ExportSection::new();
    for i in 0..funcs.len() {
        es.export(&format!("f{}", i), we::ExportKind::Func, i as u32);
    }
    m.section(&es);
    let mut cs = we::CodeSection::new();
    for f in funcs {
        let mut b = we::Function::new(if f.locals > 0 { vec![(f.locals, we::ValType::I64)] } else { vec![] });
        for t in &f.toks {
            b.instruction(&instr_of(t, funcs.len() as u32)?);
        }
        cs.function(&b);
    }
    m.section(&cs);
    Some(m.finish())
}

// ------------------------------------------------------------------------------------------------
// running in wasmi

#[derive(Debug)]
struct OutOfGas;
impl std::fmt::Display for OutOfGas {
    fn fmt(&self, f: &mut std::fmt::Formatter<'_>) -> std::fmt::Result {
        write!(f, "out of gas")
    }
}
impl wasmi::core::HostError for OutOfGas {}

struct Host {
    used: u64,
    budget: Option<u64>,
}

#[derive(Debug, Clone, PartialEq, Eq)]
enum Outcome {
    Val(u64),
    Trap(String),
    Oog,
}

fn show(o: &Outcome) -> String {
    match o {
        Outcome::Val(v) => format!("v{}", v),
        Outcome::Trap(k) => format!("trap.{}", k),
        Outcome::Oog => "oog".into(),
    }
}

fn execute(code: &[u8], args: &[u64], budget: Option<u64>) -> Result<(Outcome, u64), String> {
    let engine = wasmi::Engine::default();
    let module = wasmi::Module::new(&engine, code).map_err(|e| format!("compile: {:?}", e))?;
    let mut store = wasmi::Store::new(&engine, Host { used: 0, budget });
    let mut linker = <wasmi::Linker<Host>>::new(&engine);
    linker
        .func_wrap("env", "gas", |mut caller: wasmi::Caller<'_, Host>, n: i64| -> Result<(), wasmi::Error> {
            let h = caller.data_mut();
            let new = h.used.checked_add(n as u64).ok_or_else(|| wasmi::Error::host(OutOfGas))?;
            if let Some(b) = h.budget {
                if new > b {
                    return Err(wasmi::Error::host(OutOfGas));
                }
            }
            h.used = new;
            Ok(())
        })
        .map_err(|e| format!("linker: {:?}", e))?;
    let instance = linker.instantiate(&mut store, &module).map_err(|e| format!("instantiate: {:?}", e))?.start(&mut store).map_err(|e| format!("start: {:?}", e))?;
    let f = instance.get_func(&store, "f0").ok_or("no export f0")?;
    let a: Vec<wasmi::Val> = args.iter().map(|x| wasmi::Val::I64(*x as i64)).collect();
    let mut out = [wasmi::Val::I64(0)];
    let r = f.call(&mut store, &a, &mut out);
    let used = store.data().used;
    match r {
        Ok(()) => match out[0] {
            wasmi::Val::I64(v) => Ok((Outcome::Val(v as u64), used)),
            _ => Err("result type".into()),
        },
        Err(e) => {
            if e.downcast_ref::<OutOfGas>().is_some() {
                Ok((Outcome::Oog, used))
            } else if let Some(tc) = e.as_trap_code() {
                let k = match tc {
                    wasmi::core::TrapCode::UnreachableCodeReached => "unreachable".to_string(),
                    wasmi::core::TrapCode::IntegerDivisionByZero => "div".to_string(),
                    other => format!("{:?}", other),
                };
                Ok((Outcome::Trap(k), used))
            } else {
                Err(format!("wasmi error: {:?}", e))
            }
        }
    }
}

// ------------------------------------------------------------------------------------------------
// the real instrumenter

fn instrument(code: &[u8], stack: bool) -> Result<Vec<u8>, String> {
    let cfg = WasmValidatorConfigV1::new();
    let r = catch(|| -> Result<Vec<u8>, PrepareError> {
        let m = WasmModule::init(code)?.inject_instruction_metering(&cfg)?;
        let m = if stack { m.inject_stack_metering(cfg.max_stack_size())? } else { m };
        Ok(m.to_bytes()?.0)
    });
    match r {
        Err(p) => Err(format!("panic: {}", p)),
        Ok(Err(e)) => Err(format!("{:?}", e)),
        Ok(Ok(b)) => Ok(b),
    }
}

/// (position in the ORIGINAL flat operator sequence, cost) of every `i64.const c; call $gas` pair, per function;
/// also checks that removing those pairs gives back the original operator sequence (with calls shifted by one)
fn read_blocks(metered: &[u8], original: &[u8]) -> Result<Vec<Vec<(usize, u64)>>, String> {
    let ops_of = |bytes: &[u8]| -> Result<(Vec<Vec<String>>, Option<u32>), String> {
        let mut gas_idx = None;
        let mut nimp = 0u32;
        let mut v = vec![];
        for p in wp::Parser::new(0).parse_all(bytes) {
            match p.map_err(|e| e.to_string())? {
                wp::Payload::ImportSection(r) => {
                    for i in r.into_imports() {
                        let i = i.map_err(|e| e.to_string())?;
                        if let wp::TypeRef::Func(_) = i.ty {
                            if i.module == "env" && i.name == "gas" {
                                gas_idx = Some(nimp);
                            }
                            nimp += 1;
                        }
                    }
                }
                wp::Payload::CodeSectionEntry(b) => {
                    let mut ops = vec![];
                    for op in b.get_operators_reader().map_err(|e| e.to_string())? {
                        ops.push(format!("{:?}", op.map_err(|e| e.to_string())?));
                    }
                    v.push(ops);
                }
                _ => {}
            }
        }
        Ok((v, gas_idx))
    };
    let (mops, gas) = ops_of(metered)?;
    let (oops, _) = ops_of(original)?;
    let gas = gas.ok_or("no gas import")?;
    let call_gas = format!("Call {{ function_index: {} }}", gas);
    let mut res = vec![];
    for (fi, ops) in mops.iter().enumerate() {
        let mut blocks = vec![];
        let mut stripped = vec![];
        let mut i = 0;
        while i < ops.len() {
            if i + 1 < ops.len() && ops[i].starts_with("I64Const") && ops[i + 1] == call_gas {
                let c: i64 = ops[i].trim_start_matches("I64Const { value: ").trim_end_matches(" }").parse().map_err(|_| "const parse")?;
                blocks.push((stripped.len(), c as u64));
                i += 2;
            } else {
                stripped.push(ops[i].clone());
                i += 1;
            }
        }
        // compare with the original sequence, function indices shifted by the added import
        let orig = oops.get(fi).ok_or("function count")?;
        if orig.len() != stripped.len() {
            return Err(format!("function {}: instrumented body minus gas calls has {} operators, original {}", fi, stripped.len(), orig.len()));
        }
        for (a, b) in orig.iter().zip(stripped.iter()) {
            let a2 = if let Some(x) = a.strip_prefix("Call { function_index: ") {
                let n: u32 = x.trim_end_matches(" }").parse().unwrap_or(0);
                format!("Call {{ function_index: {} }}", if n >= gas { n + 1 } else { n })
            } else {
                a.clone()
            };
            if &a2 != b {
                return Err(format!("function {}: operator changed by instrumentation: {} -> {}", fi, a, b));
            }
        }
        res.push(blocks);
    }
    Ok(res)
}

// ------------------------------------------------------------------------------------------------
// generator: typed statements/expressions over i64 locals

struct G<'a> {
    rng: &'a mut Rng,
    nlocals: u32, // params + locals
    fidx: usize,
    nfuncs: usize,
    fparams: Vec<u32>,
    labels: Vec<bool>, // innermost last; true = loop
    budget: i32,       // remaining size
    reserved: Vec<u32>, // loop counters: not assigned by generated statements
}

impl<'a> G<'a> {
    fn expr(&mut self, out: &mut Vec<String>, depth: u32) {
        self.budget -= 1;
        let k = if depth >= 3 || self.budget <= 0 { self.rng.below(2) } else { self.rng.below(12) };
        match k {
            0 => {
                let v = match self.rng.below(6) {
                    0 => 0,
                    1 => 1,
                    2 => u64::MAX,
                    3 => self.rng.below(70),
                    4 => 1u64 << self.rng.below(64),
                    _ => self.rng.next(),
                };
                out.push(format!("c{}", v));
            }
            1 => out.push(format!("lg{}", self.rng.below(self.nlocals as u64))),
            2..=5 => {
                self.expr(out, depth + 1);
                self.expr(out, depth + 1);
                let ops = ["add", "sub", "mul", "divu", "remu", "and", "or", "xor", "shl", "shru"];
                out.push(ops[self.rng.below(ops.len() as u64) as usize].to_string());
            }
            6 => {
                self.cond(out, depth + 1);
                out.push("ext".into());
            }
            7 => {
                self.expr(out, depth + 1);
                self.expr(out, depth + 1);
                self.cond(out, depth + 1);
                out.push("sel".into());
            }
            8 => {
                // call a later function (acyclic call graph)
                if self.fidx + 1 < self.nfuncs {
                    let f = self.fidx + 1 + self.rng.below((self.nfuncs - self.fidx - 1) as u64) as usize;
                    for _ in 0..self.fparams[f] {
                        self.expr(out, depth + 1);
                    }
                    out.push(format!("call{}", f));
                } else {
                    out.push(format!("lg{}", self.rng.below(self.nlocals as u64)));
                }
            }
            9 => {
                self.expr(out, depth + 1);
                let l = self.free_local();
                out.push(format!("lt{}", l));
            }
            _ => {
                self.expr(out, depth + 1);
                self.expr(out, depth + 1);
                out.push(["add", "sub", "xor"][self.rng.below(3) as usize].to_string());
            }
        }
    }
    fn free_local(&mut self) -> u32 {
        for _ in 0..8 {
            let l = self.rng.below(self.nlocals as u64) as u32;
            if !self.reserved.contains(&l) {
                return l;
            }
        }
        (0..self.nlocals).find(|l| !self.reserved.contains(l)).unwrap_or(0)
    }
    fn cond(&mut self, out: &mut Vec<String>, depth: u32) {
        if self.rng.chance(1, 3) {
            self.expr(out, depth + 1);
            out.push("eqz".into());
        } else {
            self.expr(out, depth + 1);
            self.expr(out, depth + 1);
            out.push(["eq", "ne", "ltu", "gtu"][self.rng.below(4) as usize].to_string());
        }
    }
    /// a forward label (block / if / function body) as a relative depth, if any
    fn forward_label(&mut self) -> u32 {
        // labels[len-1-d] is label d; the function body is label `len`
        let n = self.labels.len() as u32;
        let cands: Vec<u32> = (0..=n).filter(|d| *d == n || !self.labels[(n - 1 - d) as usize]).collect();
        *self.rng.pick(&cands)
    }
    fn stmt(&mut self, out: &mut Vec<String>, depth: u32) {
        self.budget -= 1;
        let k = if depth >= 3 || self.budget <= 0 { self.rng.below(3) } else { self.rng.below(14) };
        match k {
            0 | 1 => {
                self.expr(out, 1);
                let l = self.free_local();
                out.push(format!("ls{}", l));
            }
            2 => {
                self.expr(out, 1);
                out.push("drop".into());
            }
            3 | 4 => {
                out.push("blk".into());
                self.labels.push(false);
                self.seq(out, depth + 1);
                self.labels.pop();
                out.push("end".into());
            }
            5 | 6 => {
                self.cond(out, 1);
                out.push("if".into());
                self.labels.push(false);
                self.seq(out, depth + 1);
                out.push("else".into());
                if self.rng.chance(2, 3) {
                    self.seq(out, depth + 1);
                }
                self.labels.pop();
                out.push("end".into());
            }
            7 | 8 => {
                // counted loop: the counter local is reserved inside the body
                let free: Vec<u32> = (0..self.nlocals).filter(|l| !self.reserved.contains(l)).collect();
                if free.len() < 2 {
                    out.push("nop".into());
                    return;
                }
                let c = *self.rng.pick(&free);
                out.push(format!("c{}", 1 + self.rng.below(3)));
                out.push(format!("ls{}", c));
                out.push("loop".into());
                self.labels.push(true);
                self.reserved.push(c);
                self.seq(out, depth + 1);
                out.push(format!("lg{}", c));
                out.push("c1".into());
                out.push("sub".into());
                out.push(format!("lt{}", c));
                out.push("c0".into());
                out.push("ne".into());
                out.push("brif0".into());
                if self.rng.chance(1, 3) {
                    self.seq(out, depth + 1);
                }
                self.reserved.pop();
                self.labels.pop();
                out.push("end".into());
            }
            9 | 10 => {
                self.cond(out, 1);
                let d = self.forward_label();
                if d as usize == self.labels.len() {
                    // branch to the function label carries the result
                    out.push("if".into());
                    self.labels.push(false);
                    self.expr(out, 1);
                    out.push(format!("br{}", d + 1));
                    self.labels.pop();
                    out.push("else".into());
                    out.push("end".into());
                } else {
                    out.push(format!("brif{}", d));
                }
            }
            11 => {
                // unconditional control transfer, possibly followed by dead code
                match self.rng.below(4) {
                    0 => {
                        self.expr(out, 1);
                        out.push("ret".into());
                    }
                    1 => out.push("unr".into()),
                    _ => {
                        let d = self.forward_label();
                        if d as usize == self.labels.len() {
                            self.expr(out, 1);
                        }
                        out.push(format!("br{}", d));
                    }
                }
                if self.rng.chance(1, 2) {
                    self.expr(out, 2);
                    out.push("drop".into());
                }
            }
            12 => out.push("nop".into()),
            _ => {
                self.expr(out, 1);
                let l = self.free_local();
                out.push(format!("ls{}", l));
            }
        }
    }
    fn seq(&mut self, out: &mut Vec<String>, depth: u32) {
        let n = self.rng.below(4);
        for _ in 0..n {
            self.stmt(out, depth);
        }
    }
}

fn gen_prog(rng: &mut Rng) -> (Vec<FuncT>, Vec<u64>) {
    let nfuncs = 1 + rng.below(3) as usize;
    let fparams: Vec<u32> = (0..nfuncs).map(|_| rng.below(3) as u32).collect();
    let mut funcs = vec![];
    for i in 0..nfuncs {
        let locals = rng.below(4) as u32 + if fparams[i] == 0 { 2 } else { 1 };
        let mut toks = vec![];
        let size = 6 + rng.below(30) as i32;
        let mut g = G { rng, nlocals: fparams[i] + locals, fidx: i, nfuncs, fparams: fparams.clone(), labels: vec![], budget: size, reserved: vec![] };
        let n = 1 + g.rng.below(5);
        for _ in 0..n {
            g.stmt(&mut toks, 0);
        }
        g.expr(&mut toks, 1);
        toks.push("end".into());
        funcs.push(FuncT { params: fparams[i], locals, toks });
    }
    let args = (0..fparams[0])
        .map(|_| match rng.below(4) {
            0 => 0,
            1 => rng.below(5),
            2 => u64::MAX,
            _ => rng.next(),
        })
        .collect();
    (funcs, args)
}

fn line_of(budget: Option<u64>, funcs: &[FuncT], args: &[u64]) -> String {
    let b = budget.map(|x| x.to_string()).unwrap_or("inf".into());
    let a = if args.is_empty() { "-".to_string() } else { args.iter().map(|x| x.to_string()).collect::<Vec<_>>().join(",") };
    let mut s = format!("prog B={} args={}", b, a);
    for f in funcs {
        s.push_str(&format!(" f={}:{}:{}", f.params, f.locals, f.toks.join(",")));
    }
    s
}

pub struct A;

impl Area for A {
    fn gen(&self, rng: &mut Rng, n: usize, out: &mut dyn Write) {
        let mut i = 0;
        while i < n {
            let (funcs, args) = gen_prog(rng);
            // budget: unlimited, or around what the program needs (needs a trial run of the real thing)
            let budget = match rng.below(4) {
                0 => None,
                _ => {
                    let need = build(&funcs).and_then(|c| instrument(&c, true).ok()).and_then(|m| execute(&m, &args, None).ok()).map(|r| r.1).unwrap_or(0);
                    Some(match rng.below(5) {
                        0 => need,
                        1 => need.saturating_sub(1),
                        2 => need + 1,
                        3 => rng.below(need + 1),
                        _ => need / 2,
                    })
                }
            };
            writeln!(out, "{}", line_of(budget, &funcs, &args)).unwrap();
            i += 1;
        }
    }
    fn runner(&self) -> Box<dyn Runner> {
        Box::new(R)
    }
    fn consts(&self) -> Vec<(String, String)> {
        consts()
    }
}

struct R;

fn parse_line(line: &str) -> Option<(Option<u64>, Vec<u64>, Vec<FuncT>)> {
    let t: Vec<&str> = line.split(' ').collect();
    if t.len() < 4 || t[0] != "prog" {
        return None;
    }
    let b = t[1].strip_prefix("B=")?;
    let budget = if b == "inf" { None } else { Some(b.parse::<u64>().ok()?) };
    let a = t[2].strip_prefix("args=")?;
    let args: Vec<u64> = if a == "-" { vec![] } else { a.split(',').map(|x| x.parse::<u64>().ok()).collect::<Option<Vec<_>>>()? };
    let mut funcs = vec![];
    for f in &t[3..] {
        let f = f.strip_prefix("f=")?;
        let p: Vec<&str> = f.split(':').collect();
        if p.len() != 3 {
            return None;
        }
        funcs.push(FuncT { params: p[0].parse().ok()?, locals: p[1].parse().ok()?, toks: if p[2] == "-" { vec![] } else { p[2].split(',').map(|x| x.to_string()).collect() } });
    }
    Some((budget, args, funcs))
}

impl Runner for R {
    fn step(&mut self, line: &str) -> Answer {
        let (budget, args, funcs) = match parse_line(line) {
            Some(x) => x,
            None => return Answer::ok("bad-op"),
        };
        if funcs[0].params as usize != args.len() {
            return Answer::ok("bad-op");
        }
        let code = match build(&funcs) {
            Some(c) => c,
            None => return Answer::ok("bad-op"),
        };
        let orig = match execute(&code, &args, None) {
            Ok(r) => r.0,
            Err(e) => return Answer::ok(format!("bad-op invalid-program {}", e.replace(' ', "_"))),
        };
        let metered_only = match instrument(&code, false) {
            Ok(m) => m,
            Err(e) => return Answer::fail("instrument-failed", "instrument-failed", e),
        };
        let full = match instrument(&code, true) {
            Ok(m) => m,
            Err(e) => return Answer::fail("instrument-failed", "instrument-failed", e),
        };
        let blocks = match read_blocks(&metered_only, &code) {
            Ok(b) => b,
            Err(e) => return Answer::fail("blocks=unreadable", "instrumentation-changed-code", e),
        };
        let btxt = blocks
            .iter()
            .map(|b| if b.is_empty() { "-".to_string() } else { b.iter().map(|(p, c)| format!("{}:{}", p, c)).collect::<Vec<_>>().join("+") })
            .collect::<Vec<_>>()
            .join("/");
        let met = match execute(&full, &args, budget) {
            Ok(r) => r,
            Err(e) => return Answer::fail("execute-failed", "instrumented-not-executable", e),
        };
        let gas_txt = if met.0 == Outcome::Oog { "-".to_string() } else { met.1.to_string() };
        let ans = format!("blocks={} orig={} met={} gas={}", btxt, show(&orig), show(&met.0), gas_txt);

        // ---- property oracle (on the implementation only)
        // 1. with unlimited budget: same result / same trap kind
        let unl = match execute(&full, &args, None) {
            Ok(r) => r,
            Err(e) => return Answer::fail(ans, "instrumented-not-executable", e),
        };
        if unl.0 != orig {
            return Answer::fail(ans, "meaning-changed", format!("original {} but instrumented {}", show(&orig), show(&unl.0)));
        }
        // 2. metering alone (no stack limiter) behaves the same and charges the same
        match execute(&metered_only, &args, None) {
            Ok(r) => {
                if r.0 != orig || r.1 != unl.1 {
                    return Answer::fail(ans, "stack-metering-changed-charge", format!("metering only: {} / {} units, with stack limiter: {} / {} units", show(&r.0), r.1, show(&unl.0), unl.1));
                }
            }
            Err(e) => return Answer::fail(ans, "instrumented-not-executable", e),
        }
        // 3. deterministic charge
        let again = execute(&full, &args, None).unwrap();
        if again != unl {
            return Answer::fail(ans, "charge-not-deterministic", format!("{} units then {} units", unl.1, again.1));
        }
        // 4. budget: needed → same outcome; needed − 1 → out of gas; and the given budget is consistent
        let need = unl.1;
        let exact = execute(&full, &args, Some(need)).unwrap();
        if exact.0 != orig || exact.1 != need {
            return Answer::fail(ans, "out-of-gas-with-enough-budget", format!("budget {} = charged units, yet outcome {}", need, show(&exact.0)));
        }
        if need > 0 {
            let less = execute(&full, &args, Some(need - 1)).unwrap();
            if less.0 != Outcome::Oog {
                return Answer::fail(ans, "no-out-of-gas-below-need", format!("budget {} < needed {}, yet outcome {}", need - 1, need, show(&less.0)));
            }
        }
        if let Some(b) = budget {
            let expect_oog = b < need;
            if (met.0 == Outcome::Oog) != expect_oog {
                return Answer::fail(ans, "budget-inconsistent", format!("budget {} needed {} outcome {}", b, need, show(&met.0)));
            }
            if !expect_oog && (met.0 != orig || met.1 != need) {
                return Answer::fail(ans, "meaning-changed", format!("budget {} ≥ needed {}: outcome {} / {} units, original {}", b, need, show(&met.0), met.1, show(&orig)));
            }
        }
        Answer::ok(ans)
    }
}

// ------------------------------------------------------------------------------------------------
// weights as the compiled tree applies them: read from what the real instrumenter charges for probe functions

fn probe_cost(params: u32, result: bool, locals: u32, toks: &[&str]) -> u64 {
    // one function; cost = the constant of the leading gas charge (0 if there is none)
    let mut m = we::Module::new();
    let mut ts = we::TypeSection::new();
    ts.ty().function((0..params).map(|_| we::ValType::I64), if result { vec![we::ValType::I64] } else { vec![] });
    m.section(&ts);
    let mut fs = we::FunctionSection::new();
    fs.function(0);
    m.section(&fs);
    let mut cs = we::CodeSection::new();
    let mut b = we::Function::new(if locals > 0 { vec![(locals, we::ValType::I64)] } else { vec![] });
    for t in toks {
        b.instruction(&instr_of(t, 1).unwrap());
    }
    b.instruction(&we::Instruction::End);
    cs.function(&b);
    m.section(&cs);
    let code = m.finish();
    let met = instrument(&code, false).expect("probe instrumentation");
    let blocks = read_blocks(&met, &code).expect("probe blocks");
    blocks[0].iter().map(|b| b.1).sum()
}

fn consts() -> Vec<(String, String)> {
    let c = probe_cost(0, true, 0, &["c1"]);
    let d = probe_cost(0, false, 0, &["c1", "drop"]) - c;
    let eqz = probe_cost(0, false, 0, &["c1", "eqz", "drop"]) - c - d;
    let blk = probe_cost(0, false, 0, &["blk", "end"]);
    let mut out: Vec<(String, u64)> = vec![("W_CONST".into(), c), ("W_DROP".into(), d), ("W_EQZ".into(), eqz)];
    for (n, t) in [("ADD", "add"), ("SUB", "sub"), ("MUL", "mul"), ("DIVU", "divu"), ("REMU", "remu"), ("AND", "and"), ("OR", "or"), ("XOR", "xor"), ("SHL", "shl"), ("SHRU", "shru")] {
        out.push((format!("W_{}", n), probe_cost(0, true, 0, &["c1", "c1", t]) - 2 * c));
    }
    for (n, t) in [("EQ", "eq"), ("NE", "ne"), ("LTU", "ltu"), ("GTU", "gtu")] {
        out.push((format!("W_{}", n), probe_cost(0, false, 0, &["c1", "c1", t, "drop"]) - 2 * c - d));
    }
    out.push(("W_EXTEND".into(), probe_cost(0, true, 0, &["c1", "eqz", "ext"]) - c - eqz));
    out.push(("W_LOCAL_GET".into(), probe_cost(1, true, 0, &["lg0"])));
    out.push(("W_LOCAL_SET".into(), probe_cost(1, false, 0, &["c1", "ls0"]) - c));
    out.push(("W_LOCAL_TEE".into(), probe_cost(1, true, 0, &["c1", "lt0"]) - c));
    out.push(("W_SELECT".into(), probe_cost(0, true, 0, &["c1", "c1", "c1", "eqz", "sel"]) - 3 * c - eqz));
    out.push(("W_NOP".into(), probe_cost(0, false, 0, &["nop"])));
    out.push(("W_BLOCK".into(), blk));
    out.push(("W_LOOP".into(), probe_cost(0, false, 0, &["loop", "end"])));
    out.push(("W_IF".into(), probe_cost(0, false, 0, &["c1", "eqz", "if", "else", "end"]) - c - eqz));
    out.push(("W_BR".into(), probe_cost(0, false, 0, &["blk", "br0", "end"]) - blk));
    out.push(("W_BR_IF".into(), probe_cost(0, false, 0, &["blk", "c1", "eqz", "brif0", "end"]) - blk - c - eqz));
    out.push(("W_RETURN".into(), probe_cost(0, false, 0, &["ret"])));
    out.push(("W_UNREACHABLE".into(), probe_cost(0, false, 0, &["unr"])));
    out.push(("W_CALL".into(), probe_cost(0, true, 0, &["call0"])));
    out.push(("W_PER_LOCAL".into(), probe_cost(0, false, 1, &["nop"]) - probe_cost(0, false, 0, &["nop"])));
    out.push(("MAX_STACK_SIZE".into(), WasmValidatorConfigV1::new().max_stack_size() as u64));
    out.into_iter().map(|(k, v)| (k, v.to_string())).collect()
}

fn main() {
    main_with(&[("c46", &A)]);
}
