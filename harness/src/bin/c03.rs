//! C03 / C04 — resource conservation per committed transaction and "supply = Σ vaults" over histories,
//! driven through real transactions on the ledger simulator (fees enabled, no free credit).
//!
//! Areas `c03` (histories of 20–40 transactions) and `c04` (histories of 60–200), same protocol.
//!
//! Line protocol (stateful; a case = one history):
//!   reset
//!   res  <r> <f|n> <t|u> <div> <supply>        snapshot of every resource manager after the world set-up
//!   vault <v> <r> <amount> <id.id..|->         snapshot of every vault (amount: attos / number of ids)
//!   begin                                       model checks the loaded state: `ok inv`
//!   tx <spec..> ; <S|F|R> <op..> ; fin:<required>:<rewards vault>:<to proposer>:<to validators>:<to burn> [roy:<v>:<a>..]
//!       <spec> tells the runner which manifest to execute (account / resource indices of the world,
//!       amounts in attos). The part after the first `;` is the *op summary the generator extracted from
//!       the real receipt*: the application events in emission order (m/b/mn/bn mint, burn; w/d/rc
//!       vault withdraw, deposit, recall and their `n` variants with ids; lf lock fee with the
//!       contingent flag; nr new resource; nv new vault), and the receipt's fee summary. The runner
//!       re-executes the manifest and answers from a full scan of the substate database before and after
//!       the commit; the Lean model replays the op summary with the resource package's arithmetic and
//!       its own fee finalisation and predicts the same digest:
//!   answer: `<S|F|R> ev=<finalisation events> res=<r:Δvaults:Δsupply|-:mint−burn,..> vaults=<v:amount[:ids],..>`
//!
//! Ids in the protocol are small indices (first appearance order), never addresses.
use harness::util::*;
use num_bigint::BigInt;
use num_traits::{Signed, Zero};
use radix_common::prelude::*;
use radix_engine::blueprints::consensus_manager::*;
use radix_engine::blueprints::resource::*;
use radix_engine::system::type_info::TypeInfoSubstate;
use radix_engine::transaction::*;
use radix_engine_interface::blueprints::consensus_manager::*;
use radix_engine_interface::blueprints::pool::*;
use radix_engine_interface::prelude::*;
use radix_substate_store_interface::db_key_mapper::*;
use radix_substate_store_interface::interface::*;
use radix_transactions::prelude::*;
use scrypto_test::prelude::*;
use std::collections::{BTreeMap, BTreeSet, HashMap};
use std::io::Write;
use std::str::FromStr;

type Sim = LedgerSimulator<NoExtension, InMemorySubstateDatabase>;

fn big(d: Decimal) -> BigInt {
    BigInt::from_str(&d.attos().to_string()).unwrap()
}
fn dec(b: &BigInt) -> Option<Decimal> {
    I192::from_str(&b.to_string()).ok().map(Decimal::from_attos)
}
fn unit() -> BigInt {
    BigInt::from(10u32).pow(18)
}
fn parse_big(s: &str) -> Option<BigInt> {
    if s.is_empty() || !s.chars().enumerate().all(|(i, c)| c.is_ascii_digit() || (i == 0 && c == '-' && s.len() > 1)) {
        return None;
    }
    BigInt::from_str(s).ok()
}

// ------------------------------------------------------------------------------------------ DB scan

#[derive(Clone, PartialEq, Debug)]
struct VaultRec {
    res: ResourceAddress,
    nf: bool,
    /// fungible: attos; non-fungible: the stored amount field in attos (NOT the number of entries)
    amount: BigInt,
    ids: BTreeSet<NonFungibleLocalId>,
}

#[derive(Clone, PartialEq, Debug)]
struct ResRec {
    nf: bool,
    div: u8,
    supply: Option<BigInt>,
}

#[derive(Clone, Default)]
struct Scan {
    vaults: BTreeMap<NodeId, VaultRec>,
    res: BTreeMap<ResourceAddress, ResRec>,
    problems: Vec<String>,
}

fn raw_field(db: &InMemorySubstateDatabase, node: &NodeId, part: PartitionNumber, field: u8) -> Option<Vec<u8>> {
    db.get_raw_substate_by_db_key(&SpreadPrefixKeyMapper::to_db_partition_key(node, part), &SpreadPrefixKeyMapper::to_db_sort_key(&SubstateKey::Field(field)))
}

/// Independent full scan: every partition key of the database is visited; vault and resource-manager
/// nodes are decoded with the typed substate definitions (no use of the repo's checkers/reconciler).
fn scan(db: &InMemorySubstateDatabase) -> Scan {
    let mut nodes: BTreeSet<NodeId> = BTreeSet::new();
    for pk in db.list_partition_keys() {
        let (n, _) = SpreadPrefixKeyMapper::from_db_partition_key(&pk);
        nodes.insert(n);
    }
    let mut s = Scan::default();
    for n in nodes {
        match n.entity_type() {
            Some(EntityType::InternalFungibleVault) | Some(EntityType::InternalNonFungibleVault) => {
                let nf = n.entity_type() == Some(EntityType::InternalNonFungibleVault);
                let res = match raw_field(db, &n, TYPE_INFO_FIELD_PARTITION, 0u8).and_then(|raw| scrypto_decode::<TypeInfoSubstate>(&raw).ok()) {
                    Some(TypeInfoSubstate::Object(info)) => match info.blueprint_info.outer_obj_info {
                        OuterObjectInfo::Some { outer_object } => ResourceAddress::new_or_panic(outer_object.into_node_id().0),
                        OuterObjectInfo::None => {
                            s.problems.push(format!("vault {:?} has no outer object", n));
                            continue;
                        }
                    },
                    _ => {
                        s.problems.push(format!("vault {:?} has no type info", n));
                        continue;
                    }
                };
                let Some(raw) = raw_field(db, &n, MAIN_BASE_PARTITION, 0u8) else {
                    s.problems.push(format!("vault {:?} has no balance field", n));
                    continue;
                };
                if nf {
                    let Ok(sub) = scrypto_decode::<NonFungibleVaultBalanceFieldSubstate>(&raw) else {
                        s.problems.push(format!("vault {:?}: undecodable balance", n));
                        continue;
                    };
                    let amount = big(sub.into_payload().fully_update_and_into_latest_version().amount);
                    let part = MAIN_BASE_PARTITION.at_offset(PartitionOffset(1u8)).unwrap();
                    let mut ids = BTreeSet::new();
                    for (sk, _v) in db.list_raw_values_from_db_key(&SpreadPrefixKeyMapper::to_db_partition_key(&n, part), None) {
                        let mk = SpreadPrefixKeyMapper::map_from_db_sort_key(&sk);
                        match scrypto_decode::<NonFungibleLocalId>(&mk) {
                            Ok(id) => {
                                ids.insert(id);
                            }
                            Err(_) => s.problems.push(format!("vault {:?}: undecodable index key", n)),
                        }
                    }
                    s.vaults.insert(n, VaultRec { res, nf, amount, ids });
                } else {
                    let Ok(sub) = scrypto_decode::<FungibleVaultBalanceFieldSubstate>(&raw) else {
                        s.problems.push(format!("vault {:?}: undecodable balance", n));
                        continue;
                    };
                    let amount = big(sub.into_payload().fully_update_and_into_latest_version().amount());
                    s.vaults.insert(n, VaultRec { res, nf, amount, ids: BTreeSet::new() });
                }
            }
            Some(EntityType::GlobalFungibleResourceManager) => {
                let div = raw_field(db, &n, MAIN_BASE_PARTITION, FungibleResourceManagerField::Divisibility.into())
                    .and_then(|raw| scrypto_decode::<FungibleResourceManagerDivisibilityFieldSubstate>(&raw).ok())
                    .map(|x| x.into_payload().fully_update_and_into_latest_version())
                    .unwrap_or(18);
                let supply = raw_field(db, &n, MAIN_BASE_PARTITION, FungibleResourceManagerField::TotalSupply.into())
                    .and_then(|raw| scrypto_decode::<FungibleResourceManagerTotalSupplyFieldSubstate>(&raw).ok())
                    .map(|x| big(x.into_payload().fully_update_and_into_latest_version()));
                s.res.insert(ResourceAddress::new_or_panic(n.0), ResRec { nf: false, div, supply });
            }
            Some(EntityType::GlobalNonFungibleResourceManager) => {
                let supply = raw_field(db, &n, MAIN_BASE_PARTITION, NonFungibleResourceManagerField::TotalSupply.into())
                    .and_then(|raw| scrypto_decode::<NonFungibleResourceManagerTotalSupplyFieldSubstate>(&raw).ok())
                    .map(|x| big(x.into_payload().fully_update_and_into_latest_version()));
                s.res.insert(ResourceAddress::new_or_panic(n.0), ResRec { nf: true, div: 0, supply });
            }
            _ => {}
        }
    }
    s
}

impl Scan {
    /// Σ of the vault amounts of a resource, in model units (attos / count)
    fn vault_sum(&self, r: &ResourceAddress) -> BigInt {
        let mut t = BigInt::zero();
        for v in self.vaults.values() {
            if &v.res == r {
                t += model_amount(v);
            }
        }
        t
    }
}

/// fungible: attos; non-fungible: stored amount / 10^18
fn model_amount(v: &VaultRec) -> BigInt {
    if v.nf {
        &v.amount / unit()
    } else {
        v.amount.clone()
    }
}
fn model_supply(r: &ResRec) -> Option<BigInt> {
    r.supply.as_ref().map(|s| if r.nf { s / unit() } else { s.clone() })
}

// ------------------------------------------------------------------------------------------ indices

#[derive(Clone, Default)]
struct Idx {
    res: Vec<ResourceAddress>,
    res_of: HashMap<ResourceAddress, usize>,
    vault: Vec<NodeId>,
    vault_of: HashMap<NodeId, usize>,
    nf: HashMap<(usize, NonFungibleLocalId), usize>,
    nf_next: HashMap<usize, usize>,
}

impl Idx {
    fn r(&mut self, a: &ResourceAddress) -> usize {
        if let Some(i) = self.res_of.get(a) {
            return *i;
        }
        self.res.push(*a);
        self.res_of.insert(*a, self.res.len() - 1);
        self.res.len() - 1
    }
    fn v(&mut self, n: &NodeId) -> usize {
        if let Some(i) = self.vault_of.get(n) {
            return *i;
        }
        self.vault.push(*n);
        self.vault_of.insert(*n, self.vault.len() - 1);
        self.vault.len() - 1
    }
    fn id(&mut self, r: usize, id: &NonFungibleLocalId) -> usize {
        if let Some(i) = self.nf.get(&(r, id.clone())) {
            return *i;
        }
        let n = self.nf_next.entry(r).or_insert(0);
        let i = *n;
        *n += 1;
        self.nf.insert((r, id.clone()), i);
        i
    }
    fn ids<'a>(&mut self, r: usize, ids: impl IntoIterator<Item = &'a NonFungibleLocalId>) -> String {
        let v: Vec<String> = ids.into_iter().map(|i| self.id(r, i).to_string()).collect();
        if v.is_empty() {
            "-".to_string()
        } else {
            v.join(".")
        }
    }
    fn ids_sorted<'a>(&mut self, r: usize, ids: impl IntoIterator<Item = &'a NonFungibleLocalId>) -> String {
        let mut v: Vec<usize> = ids.into_iter().map(|i| self.id(r, i)).collect();
        v.sort();
        if v.is_empty() {
            "-".to_string()
        } else {
            v.iter().map(|x| x.to_string()).collect::<Vec<_>>().join(".")
        }
    }
}

// ------------------------------------------------------------------------------------------ world

#[derive(Clone)]
struct World {
    acct: Vec<ComponentAddress>,
    keys: Vec<Secp256k1PublicKey>,
    /// resources addressable by the specs: 0 XRD, 1 F0 (div 18), 2 F1 (div 2, recallable), 3 F2 (div 0, supply not
    /// tracked), 4 N0 (integer ids, recallable), 5 pool-1 unit, 6 pool-2 unit, 7 stake unit, 8 claim NFT, 9.. created later
    res: Vec<ResourceAddress>,
    pool1: ComponentAddress,
    pool2: ComponentAddress,
    validator: ComponentAddress,
    rewards_vault: NodeId,
    next_nf: u64,
}

struct Case {
    sim: Sim,
    w: World,
    idx: Idx,
    last: Scan,
    /// event replay accumulators since the snapshot: per vault (model units) and per resource
    acc_vault: BTreeMap<NodeId, BigInt>,
    acc_res: BTreeMap<ResourceAddress, BigInt>,
}

struct Base {
    snap: LedgerSimulatorSnapshot,
    w: World,
}

fn all_roles_f() -> FungibleResourceRoles {
    FungibleResourceRoles {
        mint_roles: mint_roles! { minter => rule!(allow_all); minter_updater => rule!(deny_all); },
        burn_roles: burn_roles! { burner => rule!(allow_all); burner_updater => rule!(deny_all); },
        recall_roles: recall_roles! { recaller => rule!(allow_all); recaller_updater => rule!(deny_all); },
        ..Default::default()
    }
}
fn all_roles_n() -> NonFungibleResourceRoles {
    NonFungibleResourceRoles {
        mint_roles: mint_roles! { minter => rule!(allow_all); minter_updater => rule!(deny_all); },
        burn_roles: burn_roles! { burner => rule!(allow_all); burner_updater => rule!(deny_all); },
        recall_roles: recall_roles! { recaller => rule!(allow_all); recaller_updater => rule!(deny_all); },
        ..Default::default()
    }
}

fn build_base() -> (Sim, Base) {
    let mut sim = LedgerSimulatorBuilder::new().without_kernel_trace().build();
    let mut acct = vec![];
    let mut keys = vec![];
    for _ in 0..3 {
        let (pk, _, a) = sim.new_allocated_account();
        acct.push(a);
        keys.push(pk);
    }
    let a0 = acct[0];
    let f0 = sim.create_freely_mintable_and_burnable_fungible_resource(OwnerRole::None, Some(Decimal::from(1_000_000u64)), 18, a0);
    let mk_f = |sim: &mut Sim, track: bool, div: u8, amt: u64| -> ResourceAddress {
        let m = ManifestBuilder::new()
            .lock_fee_from_faucet()
            .create_fungible_resource(OwnerRole::None, track, div, all_roles_f(), metadata!(), Some(Decimal::from(amt)))
            .try_deposit_entire_worktop_or_abort(a0, None)
            .build();
        sim.execute_manifest(m, vec![]).expect_commit(true).new_resource_addresses()[0]
    };
    let f1 = mk_f(&mut sim, true, 2, 500_000);
    let f2 = mk_f(&mut sim, false, 0, 100_000);
    let n0 = {
        let entries: Vec<(NonFungibleLocalId, ())> = (1..=8u64).map(|i| (NonFungibleLocalId::integer(i), ())).collect();
        let m = ManifestBuilder::new()
            .lock_fee_from_faucet()
            .create_non_fungible_resource(OwnerRole::None, NonFungibleIdType::Integer, true, all_roles_n(), metadata!(), Some(entries))
            .try_deposit_entire_worktop_or_abort(a0, None)
            .build();
        sim.execute_manifest(m, vec![]).expect_commit(true).new_resource_addresses()[0]
    };
    // spread some of everything to the other accounts
    for j in 1..3 {
        let m = ManifestBuilder::new()
            .lock_fee_from_faucet()
            .withdraw_from_account(a0, f0, Decimal::from(100_000u64))
            .withdraw_from_account(a0, f1, Decimal::from(50_000u64))
            .withdraw_from_account(a0, f2, Decimal::from(10_000u64))
            .withdraw_non_fungibles_from_account(a0, n0, [NonFungibleLocalId::integer(j as u64), NonFungibleLocalId::integer(j as u64 + 4)])
            .try_deposit_entire_worktop_or_abort(acct[j], None)
            .build();
        sim.execute_manifest(m, vec![NonFungibleGlobalId::from_public_key(&keys[0])]).expect_commit_success();
    }
    let (pool1, u1) = {
        let m = ManifestBuilder::new()
            .lock_fee_from_faucet()
            .call_function(
                POOL_PACKAGE,
                ONE_RESOURCE_POOL_BLUEPRINT,
                ONE_RESOURCE_POOL_INSTANTIATE_IDENT,
                OneResourcePoolInstantiateManifestInput { resource_address: f0.into(), pool_manager_rule: rule!(allow_all).into(), owner_role: OwnerRole::None.into(), address_reservation: None },
            )
            .build();
        let r = sim.execute_manifest(m, vec![]);
        let c = r.expect_commit_success();
        (c.new_component_addresses()[0], c.new_resource_addresses()[0])
    };
    let (pool2, u2) = {
        let m = ManifestBuilder::new()
            .lock_fee_from_faucet()
            .call_function(
                POOL_PACKAGE,
                TWO_RESOURCE_POOL_BLUEPRINT,
                TWO_RESOURCE_POOL_INSTANTIATE_IDENT,
                TwoResourcePoolInstantiateManifestInput { resource_addresses: (f1.into(), XRD.into()), pool_manager_rule: rule!(allow_all).into(), owner_role: OwnerRole::None.into(), address_reservation: None },
            )
            .build();
        let r = sim.execute_manifest(m, vec![]);
        let c = r.expect_commit_success();
        (c.new_component_addresses()[0], c.new_resource_addresses()[0])
    };
    let validator = sim.get_active_validator_with_key(&Secp256k1PrivateKey::from_u64(1u64).unwrap().public_key());
    let vinfo = sim.get_validator_info(validator);
    let raw = raw_field(sim.substate_db(), CONSENSUS_MANAGER.as_node_id(), MAIN_BASE_PARTITION, ConsensusManagerField::ValidatorRewards.into()).unwrap();
    let rewards: FieldSubstate<ConsensusManagerValidatorRewardsFieldPayload> = scrypto_decode(&raw).unwrap();
    let rewards_vault = rewards.into_payload().fully_update_and_into_latest_version().rewards_vault.0 .0;
    let w = World {
        acct,
        keys,
        res: vec![XRD, f0, f1, f2, n0, u1, u2, vinfo.stake_unit_resource, vinfo.claim_nft],
        pool1,
        pool2,
        validator,
        rewards_vault,
        next_nf: 100,
    };
    let snap = sim.create_snapshot();
    (sim, Base { snap, w })
}

// ------------------------------------------------------------------------------------------ specs → manifests

enum Built {
    User(TransactionManifestV1, Vec<bool>),
    Epoch,
}

fn amt(s: &str) -> Option<Decimal> {
    dec(&parse_big(s)?)
}

fn ids_of(s: &str) -> Option<Vec<NonFungibleLocalId>> {
    if s == "-" {
        return Some(vec![]);
    }
    s.split('.').map(|x| x.parse::<u64>().ok().map(NonFungibleLocalId::integer)).collect()
}

/// the manifest of a spec; `None` = the spec is malformed for this world (answered `bad-op`)
fn build(w: &World, db_vault_of: &dyn Fn(ComponentAddress, ResourceAddress) -> Option<NodeId>, claim_of: &dyn Fn(ComponentAddress) -> Option<NonFungibleLocalId>, t: &[&str]) -> Option<Built> {
    let a = |s: &str| -> Option<ComponentAddress> { w.acct.get(s.parse::<usize>().ok()?).copied() };
    let r = |s: &str| -> Option<ResourceAddress> { w.res.get(s.parse::<usize>().ok()?).copied() };
    let fee = Decimal::from(10u64);
    let mb = ManifestBuilder::new();
    Some(match (t[0], t.len()) {
        ("xfer", 5) => Built::User(mb.lock_fee(a(t[1])?, fee).withdraw_from_account(a(t[1])?, r(t[3])?, amt(t[4])?).try_deposit_entire_worktop_or_abort(a(t[2])?, None).build(), vec![false]),
        ("xfer2", 5) => Built::User(
            mb.lock_fee(a(t[1])?, Decimal::from(5u64)).lock_fee(a(t[2])?, Decimal::from(5u64)).withdraw_from_account(a(t[1])?, r(t[3])?, amt(t[4])?).try_deposit_entire_worktop_or_abort(a(t[2])?, None).build(),
            vec![false, false],
        ),
        ("cont", 5) => Built::User(
            mb.lock_fee(a(t[1])?, fee).lock_contingent_fee(a(t[2])?, Decimal::from(3u64)).withdraw_from_account(a(t[1])?, r(t[3])?, amt(t[4])?).try_deposit_entire_worktop_or_abort(a(t[2])?, None).build(),
            vec![false, true],
        ),
        // the fee vault is also the source and the target of an XRD transfer to itself
        ("self", 3) => Built::User(mb.lock_fee(a(t[1])?, fee).withdraw_from_account(a(t[1])?, XRD, amt(t[2])?).try_deposit_entire_worktop_or_abort(a(t[1])?, None).build(), vec![false]),
        ("mint", 4) => Built::User(mb.lock_fee(a(t[1])?, fee).mint_fungible(r(t[2])?, amt(t[3])?).try_deposit_entire_worktop_or_abort(a(t[1])?, None).build(), vec![false]),
        ("burn", 4) => Built::User(mb.lock_fee(a(t[1])?, fee).burn_in_account(a(t[1])?, r(t[2])?, amt(t[3])?).build(), vec![false]),
        ("wburn", 4) => Built::User(mb.lock_fee(a(t[1])?, fee).withdraw_from_account(a(t[1])?, r(t[2])?, amt(t[3])?).burn_all_from_worktop(r(t[2])?).build(), vec![false]),
        // mint, burn part of it again, deposit the rest (mint and burn of one resource in one transaction)
        ("mintburn", 5) => Built::User(
            mb.lock_fee(a(t[1])?, fee).mint_fungible(r(t[2])?, amt(t[3])?).burn_from_worktop(amt(t[4])?, r(t[2])?).try_deposit_entire_worktop_or_abort(a(t[1])?, None).build(),
            vec![false],
        ),
        ("mintnf", 4) => {
            let first: u64 = t[2].parse().ok()?;
            let k: u64 = t[3].parse().ok()?;
            if k > 20 {
                return None;
            }
            let entries: Vec<(NonFungibleLocalId, ())> = (first..first.checked_add(k)?).map(|i| (NonFungibleLocalId::integer(i), ())).collect();
            Built::User(mb.lock_fee(a(t[1])?, fee).mint_non_fungible(w.res[4], entries).try_deposit_entire_worktop_or_abort(a(t[1])?, None).build(), vec![false])
        }
        ("burnnf", 3) => Built::User(mb.lock_fee(a(t[1])?, fee).burn_non_fungibles_in_account(a(t[1])?, w.res[4], ids_of(t[2])?).build(), vec![false]),
        ("xfernf", 4) => Built::User(
            mb.lock_fee(a(t[1])?, fee).withdraw_non_fungibles_from_account(a(t[1])?, w.res[4], ids_of(t[3])?).try_deposit_entire_worktop_or_abort(a(t[2])?, None).build(),
            vec![false],
        ),
        ("recall", 5) => {
            let v = db_vault_of(a(t[1])?, r(t[3])?)?;
            Built::User(mb.lock_fee(a(t[2])?, fee).recall(InternalAddress::new_or_panic(v.0), amt(t[4])?).try_deposit_entire_worktop_or_abort(a(t[2])?, None).build(), vec![false])
        }
        ("recallnf", 4) => {
            let v = db_vault_of(a(t[1])?, w.res[4])?;
            Built::User(
                mb.lock_fee(a(t[2])?, fee).recall_non_fungibles(InternalAddress::new_or_panic(v.0), ids_of(t[3])?).try_deposit_entire_worktop_or_abort(a(t[2])?, None).build(),
                vec![false],
            )
        }
        ("faucet", 2) => Built::User(mb.lock_fee_from_faucet().get_free_xrd_from_faucet().try_deposit_entire_worktop_or_abort(a(t[1])?, None).build(), vec![false]),
        ("fassert", 4) => Built::User(
            mb.lock_fee(a(t[1])?, fee)
                .withdraw_from_account(a(t[1])?, r(t[2])?, amt(t[3])?)
                .assert_worktop_contains(r(t[2])?, amt(t[3])?.checked_add(Decimal::ONE)?)
                .try_deposit_entire_worktop_or_abort(a(t[1])?, None)
                .build(),
            vec![false],
        ),
        ("fleft", 4) => Built::User(mb.lock_fee(a(t[1])?, fee).withdraw_from_account(a(t[1])?, r(t[2])?, amt(t[3])?).build(), vec![false]),
        // mint, deposit, then fail: everything but the fee must be rolled back
        ("fmint", 4) => Built::User(
            mb.lock_fee(a(t[1])?, fee).mint_fungible(r(t[2])?, amt(t[3])?).try_deposit_entire_worktop_or_abort(a(t[1])?, None).assert_worktop_contains(XRD, Decimal::ONE).build(),
            vec![false],
        ),
        ("reject", 2) => Built::User(mb.lock_fee(a(t[1])?, Decimal::from(1_000_000_000_000u64)).build(), vec![false]),
        ("p1c", 3) => {
            let me = a(t[1])?;
            Built::User(
                mb.lock_fee(me, fee)
                    .withdraw_from_account(me, w.res[1], amt(t[2])?)
                    .take_all_from_worktop(w.res[1], "b")
                    .with_name_lookup(|b, l| b.call_method(w.pool1, ONE_RESOURCE_POOL_CONTRIBUTE_IDENT, OneResourcePoolContributeManifestInput { bucket: l.bucket("b") }))
                    .try_deposit_entire_worktop_or_abort(me, None)
                    .build(),
                vec![false],
            )
        }
        ("p1r", 3) => {
            let me = a(t[1])?;
            Built::User(
                mb.lock_fee(me, fee)
                    .withdraw_from_account(me, w.res[5], amt(t[2])?)
                    .take_all_from_worktop(w.res[5], "b")
                    .with_name_lookup(|b, l| b.call_method(w.pool1, ONE_RESOURCE_POOL_REDEEM_IDENT, OneResourcePoolRedeemManifestInput { bucket: l.bucket("b") }))
                    .try_deposit_entire_worktop_or_abort(me, None)
                    .build(),
                vec![false],
            )
        }
        ("p2c", 4) => {
            let me = a(t[1])?;
            Built::User(
                mb.lock_fee(me, fee)
                    .withdraw_from_account(me, w.res[2], amt(t[2])?)
                    .withdraw_from_account(me, XRD, amt(t[3])?)
                    .take_all_from_worktop(w.res[2], "b1")
                    .take_all_from_worktop(XRD, "b2")
                    .with_name_lookup(|b, l| b.call_method(w.pool2, TWO_RESOURCE_POOL_CONTRIBUTE_IDENT, TwoResourcePoolContributeManifestInput { buckets: (l.bucket("b1"), l.bucket("b2")) }))
                    .try_deposit_entire_worktop_or_abort(me, None)
                    .build(),
                vec![false],
            )
        }
        ("p2r", 3) => {
            let me = a(t[1])?;
            Built::User(
                mb.lock_fee(me, fee)
                    .withdraw_from_account(me, w.res[6], amt(t[2])?)
                    .take_all_from_worktop(w.res[6], "b")
                    .with_name_lookup(|b, l| b.call_method(w.pool2, TWO_RESOURCE_POOL_REDEEM_IDENT, TwoResourcePoolRedeemManifestInput { bucket: l.bucket("b") }))
                    .try_deposit_entire_worktop_or_abort(me, None)
                    .build(),
                vec![false],
            )
        }
        ("stake", 3) => {
            let me = a(t[1])?;
            Built::User(
                mb.lock_fee(me, fee)
                    .withdraw_from_account(me, XRD, amt(t[2])?)
                    .take_all_from_worktop(XRD, "b")
                    .with_name_lookup(|b, l| b.call_method(w.validator, VALIDATOR_STAKE_IDENT, ValidatorStakeManifestInput { stake: l.bucket("b") }))
                    .try_deposit_entire_worktop_or_abort(me, None)
                    .build(),
                vec![false],
            )
        }
        ("unstake", 3) => {
            let me = a(t[1])?;
            Built::User(
                mb.lock_fee(me, fee)
                    .withdraw_from_account(me, w.res[7], amt(t[2])?)
                    .take_all_from_worktop(w.res[7], "b")
                    .with_name_lookup(|b, l| b.call_method(w.validator, VALIDATOR_UNSTAKE_IDENT, ValidatorUnstakeManifestInput { stake_unit_bucket: l.bucket("b") }))
                    .try_deposit_entire_worktop_or_abort(me, None)
                    .build(),
                vec![false],
            )
        }
        ("claim", 2) => {
            let me = a(t[1])?;
            let id = claim_of(me)?;
            Built::User(
                mb.lock_fee(me, fee)
                    .withdraw_non_fungibles_from_account(me, w.res[8], [id])
                    .take_all_from_worktop(w.res[8], "b")
                    .with_name_lookup(|b, l| b.call_method(w.validator, VALIDATOR_CLAIM_XRD_IDENT, ValidatorClaimXrdManifestInput { bucket: l.bucket("b") }))
                    .try_deposit_entire_worktop_or_abort(me, None)
                    .build(),
                vec![false],
            )
        }
        ("newres", 5) => {
            let div: u8 = t[2].parse().ok()?;
            if div > 18 {
                return None;
            }
            let track = match t[4] {
                "t" => true,
                "u" => false,
                _ => return None,
            };
            Built::User(
                mb.lock_fee(a(t[1])?, fee).create_fungible_resource(OwnerRole::None, track, div, all_roles_f(), metadata!(), Some(amt(t[3])?)).try_deposit_entire_worktop_or_abort(a(t[1])?, None).build(),
                vec![false],
            )
        }
        ("epoch", 1) => {
            Built::Epoch
        }
        _ => return None,
    })
}

// ------------------------------------------------------------------------------------------ execution + summary

struct Outcome {
    /// `S`, `F` (committed) or `R` (rejected/aborted: nothing committed)
    class: char,
    /// op summary tokens for the model (application phase)
    ops: Vec<String>,
    fin: String,
    /// actual finalisation events
    fin_events: Vec<String>,
    digest: String,
    fail: Option<(String, String)>,
}

enum Ev {
    Mint(ResourceAddress, BigInt),
    Burn(ResourceAddress, BigInt),
    MintNf(ResourceAddress, Vec<NonFungibleLocalId>),
    BurnNf(ResourceAddress, Vec<NonFungibleLocalId>),
    Dep(NodeId, BigInt),
    Wd(NodeId, BigInt),
    Rc(NodeId, BigInt),
    DepNf(NodeId, Vec<NonFungibleLocalId>),
    WdNf(NodeId, Vec<NonFungibleLocalId>),
    RcNf(NodeId, Vec<NonFungibleLocalId>),
    Lock(NodeId, BigInt),
    Pay(NodeId, BigInt),
    NewVault(ResourceAddress, NodeId),
}

fn decode_events(events: &[(EventTypeIdentifier, Vec<u8>)]) -> Vec<Ev> {
    let mut out = vec![];
    for (id, payload) in events {
        let EventTypeIdentifier(Emitter::Method(node, ModuleId::Main), name) = id else { continue };
        let name = name.as_str();
        match node.entity_type() {
            Some(EntityType::GlobalFungibleResourceManager) => {
                let ra = ResourceAddress::new_or_panic(node.0);
                if name == MintFungibleResourceEvent::EVENT_NAME {
                    out.push(Ev::Mint(ra, big(scrypto_decode::<MintFungibleResourceEvent>(payload).unwrap().amount)));
                } else if name == BurnFungibleResourceEvent::EVENT_NAME {
                    out.push(Ev::Burn(ra, big(scrypto_decode::<BurnFungibleResourceEvent>(payload).unwrap().amount)));
                } else if name == VaultCreationEvent::EVENT_NAME {
                    out.push(Ev::NewVault(ra, scrypto_decode::<VaultCreationEvent>(payload).unwrap().vault_id));
                }
            }
            Some(EntityType::GlobalNonFungibleResourceManager) => {
                let ra = ResourceAddress::new_or_panic(node.0);
                if name == MintNonFungibleResourceEvent::EVENT_NAME {
                    out.push(Ev::MintNf(ra, scrypto_decode::<MintNonFungibleResourceEvent>(payload).unwrap().ids.into_iter().collect()));
                } else if name == BurnNonFungibleResourceEvent::EVENT_NAME {
                    out.push(Ev::BurnNf(ra, scrypto_decode::<BurnNonFungibleResourceEvent>(payload).unwrap().ids.into_iter().collect()));
                } else if name == VaultCreationEvent::EVENT_NAME {
                    out.push(Ev::NewVault(ra, scrypto_decode::<VaultCreationEvent>(payload).unwrap().vault_id));
                }
            }
            Some(EntityType::InternalFungibleVault) => {
                if name == fungible_vault::DepositEvent::EVENT_NAME {
                    out.push(Ev::Dep(*node, big(scrypto_decode::<fungible_vault::DepositEvent>(payload).unwrap().amount)));
                } else if name == fungible_vault::WithdrawEvent::EVENT_NAME {
                    out.push(Ev::Wd(*node, big(scrypto_decode::<fungible_vault::WithdrawEvent>(payload).unwrap().amount)));
                } else if name == fungible_vault::RecallEvent::EVENT_NAME {
                    out.push(Ev::Rc(*node, big(scrypto_decode::<fungible_vault::RecallEvent>(payload).unwrap().amount)));
                } else if name == fungible_vault::LockFeeEvent::EVENT_NAME {
                    out.push(Ev::Lock(*node, big(scrypto_decode::<fungible_vault::LockFeeEvent>(payload).unwrap().amount)));
                } else if name == fungible_vault::PayFeeEvent::EVENT_NAME {
                    out.push(Ev::Pay(*node, big(scrypto_decode::<fungible_vault::PayFeeEvent>(payload).unwrap().amount)));
                }
            }
            Some(EntityType::InternalNonFungibleVault) => {
                if name == non_fungible_vault::DepositEvent::EVENT_NAME {
                    out.push(Ev::DepNf(*node, scrypto_decode::<non_fungible_vault::DepositEvent>(payload).unwrap().ids.into_iter().collect()));
                } else if name == non_fungible_vault::WithdrawEvent::EVENT_NAME {
                    out.push(Ev::WdNf(*node, scrypto_decode::<non_fungible_vault::WithdrawEvent>(payload).unwrap().ids.into_iter().collect()));
                } else if name == non_fungible_vault::RecallEvent::EVENT_NAME {
                    out.push(Ev::RcNf(*node, scrypto_decode::<non_fungible_vault::RecallEvent>(payload).unwrap().ids.into_iter().collect()));
                }
            }
            _ => {}
        }
    }
    out
}

impl Case {
    fn new(base: &mut Option<(Sim, Base)>) -> Case {
        if base.is_none() {
            *base = Some(build_base());
        }
        let (sim0, b) = base.as_mut().unwrap();
        sim0.restore_snapshot(b.snap.clone());
        // a fresh simulator from the snapshot keeps the cached one untouched
        let sim = LedgerSimulatorBuilder::new().without_kernel_trace().build_from_snapshot(b.snap.clone());
        let last = scan(sim.substate_db());
        let mut idx = Idx::default();
        idx.r(&XRD);
        let mut c = Case { sim, w: b.w.clone(), idx, last: last.clone(), acc_vault: BTreeMap::new(), acc_res: BTreeMap::new() };
        for r in c.w.res.clone() {
            c.idx.r(&r);
        }
        for (n, v) in &last.vaults {
            c.acc_vault.insert(*n, model_amount(v));
        }
        for r in last.res.keys() {
            c.acc_res.insert(*r, last.vault_sum(r));
        }
        c
    }

    /// the `res` / `vault` lines describing the snapshot
    fn snapshot_lines(&mut self) -> Vec<String> {
        let last = self.last.clone();
        let mut out = vec![];
        // world resources first (stable small indices), then the rest in address order
        for (ra, rr) in &last.res {
            self.idx.r(ra);
            let _ = rr;
        }
        for i in 0..self.idx.res.len() {
            let ra = self.idx.res[i];
            let Some(rr) = last.res.get(&ra) else { continue };
            let sup = model_supply(rr);
            out.push(format!("res {} {} {} {} {}", i, if rr.nf { "n" } else { "f" }, if sup.is_some() { "t" } else { "u" }, rr.div, sup.unwrap_or_default()));
        }
        for (n, v) in &last.vaults {
            let vi = self.idx.v(n);
            let ri = self.idx.r(&v.res);
            let ids = self.idx.ids_sorted(ri, v.ids.iter());
            out.push(format!("vault {} {} {} {}", vi, ri, model_amount(v), ids));
        }
        out
    }

    fn vault_of(&self, a: ComponentAddress, r: ResourceAddress) -> Option<NodeId> {
        let reader = radix_engine::system::system_db_reader::SystemDatabaseReader::new(self.sim.substate_db());
        let _ = reader;
        None.or_else(|| {
            // account vaults live in the account's resource-vault KV collection; find by scanning the last
            // scan for vaults of this resource owned (transitively) by the account
            let mut sim_vaults: Vec<NodeId> = vec![];
            let finder = SubtreeVaults::new(self.sim.substate_db());
            if let Some(v) = finder.get_all(a.as_node_id()).get(&r) {
                sim_vaults.extend(v.iter().cloned());
            }
            sim_vaults.first().copied()
        })
    }

    fn claim_of(&self, a: ComponentAddress) -> Option<NonFungibleLocalId> {
        let v = self.vault_of(a, self.w.res[8])?;
        self.last.vaults.get(&v).and_then(|rec| rec.ids.iter().next().cloned())
    }

    fn balance(&self, a: usize, r: usize) -> BigInt {
        self.vault_of(self.w.acct[a], self.w.res[r]).and_then(|v| self.last.vaults.get(&v).map(|x| x.amount.clone())).unwrap_or_default()
    }

    fn nf_ids(&self, a: usize) -> Vec<u64> {
        self.vault_of(self.w.acct[a], self.w.res[4])
            .and_then(|v| self.last.vaults.get(&v).map(|x| x.ids.iter().filter_map(|i| if let NonFungibleLocalId::Integer(k) = i { Some(k.value()) } else { None }).collect()))
            .unwrap_or_default()
    }

    /// execute one spec on the real engine, scan, judge
    fn exec(&mut self, spec: &[&str]) -> Option<Outcome> {
        let w = self.w.clone();
        let built = {
            let me: &Case = self;
            build(&w, &|a, r| me.vault_of(a, r), &|a| me.claim_of(a), spec)?
        };
        let before = self.last.clone();
        let proofs: Vec<NonFungibleGlobalId> = w.keys.iter().map(NonFungibleGlobalId::from_public_key).collect();
        let (receipt, contingent) = match built {
            Built::User(m, c) => (catch(|| self.sim.execute_manifest(m, proofs)), c),
            Built::Epoch => {
                let st = self.sim.get_consensus_manager_state();
                let ts = self.sim.get_current_proposer_timestamp_ms();
                let m = ManifestBuilder::new_system_v1()
                    .call_method(
                        CONSENSUS_MANAGER,
                        CONSENSUS_MANAGER_NEXT_ROUND_IDENT,
                        ConsensusManagerNextRoundInput {
                            round: Round::of(st.round.number() + 1),
                            proposer_timestamp_ms: ts + 1000,
                            leader_proposal_history: LeaderProposalHistory { gap_round_leaders: vec![], current_leader: 0, is_fallback: false },
                        },
                    )
                    .build();
                (catch(|| self.sim.execute_system_transaction(m, btreeset![system_execution(SystemExecution::Validator)])), vec![])
            }
        };
        let receipt = match receipt {
            Ok(r) => r,
            Err(msg) => {
                return Some(Outcome { class: 'P', ops: vec![], fin: "fin:0:0:0:0:0".into(), fin_events: vec![], digest: "panic".into(), fail: Some(("engine-panic".into(), format!("{:?}: {}", spec, msg))) });
            }
        };
        let after = scan(self.sim.substate_db());
        let rv = self.idx.v(&w.rewards_vault);
        let TransactionResult::Commit(c) = &receipt.result else {
            // nothing may change
            let fail = if db_equal(&before, &after) { None } else { Some(("rejected-changed-state".to_string(), format!("{:?}", spec))) };
            return Some(Outcome { class: 'R', ops: vec![], fin: format!("fin:0:{}:0:0:0", rv), fin_events: vec![], digest: "R ev=- res=- vaults=-".into(), fail });
        };
        let success = c.outcome.is_success();
        if success && spec[0] == "newres" {
            if let Some(ra) = c.new_resource_addresses().first() {
                self.w.res.push(*ra);
            }
        }
        if spec[0] == "mintnf" && success {
            // ids are allocated by the generator through `next_nf`
        }
        let evs = decode_events(&c.application_events);
        // split application / finalisation events
        let k_roy = c.fee_destination.to_royalty_recipients.len();
        let first_pay = evs.iter().position(|e| matches!(e, Ev::Pay(..)));
        let split = match first_pay {
            Some(p) => p.saturating_sub(k_roy),
            None => evs.len(),
        };
        // --- op summary
        let mut ops: Vec<String> = vec![];
        for ra in &c.state_update_summary.new_resources {
            let ri = self.idx.r(ra);
            if let Some(rr) = after.res.get(ra) {
                ops.push(format!("nr:{}:{}:{}:{}", ri, if rr.nf { "n" } else { "f" }, if rr.supply.is_some() { "t" } else { "u" }, rr.div));
            }
        }
        let mut lock_i = 0;
        let vres = |s: &Case, after: &Scan, n: &NodeId| -> Option<ResourceAddress> { after.vaults.get(n).or_else(|| s.last.vaults.get(n)).map(|v| v.res) };
        let mut fin_events: Vec<String> = vec![];
        for (i, e) in evs.iter().enumerate() {
            let tok = match e {
                Ev::Mint(r, a) => format!("m:{}:{}", self.idx.r(r), a),
                Ev::Burn(r, a) => format!("b:{}:{}", self.idx.r(r), a),
                Ev::MintNf(r, ids) => {
                    let ri = self.idx.r(r);
                    format!("mn:{}:{}", ri, self.idx.ids(ri, ids.iter()))
                }
                Ev::BurnNf(r, ids) => {
                    let ri = self.idx.r(r);
                    format!("bn:{}:{}", ri, self.idx.ids(ri, ids.iter()))
                }
                Ev::Dep(v, a) => format!("d:{}:{}", self.idx.v(v), a),
                Ev::Wd(v, a) => format!("w:{}:{}", self.idx.v(v), a),
                Ev::Rc(v, a) => format!("rc:{}:{}", self.idx.v(v), a),
                Ev::DepNf(v, ids) | Ev::WdNf(v, ids) | Ev::RcNf(v, ids) => {
                    let Some(ra) = vres(self, &after, v) else { continue };
                    let ri = self.idx.r(&ra);
                    let k = match e {
                        Ev::DepNf(..) => "dn",
                        Ev::WdNf(..) => "wn",
                        _ => "rcn",
                    };
                    format!("{}:{}:{}", k, self.idx.v(v), self.idx.ids(ri, ids.iter()))
                }
                Ev::Lock(v, a) => {
                    let cflag = contingent.get(lock_i).copied().unwrap_or(false);
                    lock_i += 1;
                    format!("lf:{}:{}:{}", self.idx.v(v), a, if cflag { 1 } else { 0 })
                }
                Ev::Pay(v, a) => format!("pf:{}:{}", self.idx.v(v), a),
                Ev::NewVault(r, v) => format!("nv:{}:{}", self.idx.v(v), self.idx.r(r)),
            };
            if i < split {
                ops.push(tok);
            } else {
                fin_events.push(tok);
            }
        }
        let fd = &c.fee_destination;
        let mut fin = format!("fin:{}:{}:{}:{}:{}", big(receipt.fee_summary.total_cost()), rv, big(fd.to_proposer), big(fd.to_validator_set), big(fd.to_burn));
        for (rec, a) in &fd.to_royalty_recipients {
            fin.push_str(&format!(" roy:{}:{}", self.idx.v(&rec.vault_id()), big(*a)));
        }

        // --- digest from the two scans
        let mut touched: BTreeSet<ResourceAddress> = BTreeSet::new();
        let mut mb: BTreeMap<ResourceAddress, BigInt> = BTreeMap::new();
        let mut minted_ids: BTreeMap<ResourceAddress, BTreeSet<NonFungibleLocalId>> = BTreeMap::new();
        let mut burned_ids: BTreeMap<ResourceAddress, BTreeSet<NonFungibleLocalId>> = BTreeMap::new();
        for e in &evs {
            match e {
                Ev::Mint(r, a) => *mb.entry(*r).or_default() += a,
                Ev::Burn(r, a) => *mb.entry(*r).or_default() -= a,
                Ev::MintNf(r, ids) => {
                    *mb.entry(*r).or_default() += BigInt::from(ids.len());
                    minted_ids.entry(*r).or_default().extend(ids.iter().cloned());
                }
                Ev::BurnNf(r, ids) => {
                    *mb.entry(*r).or_default() -= BigInt::from(ids.len());
                    burned_ids.entry(*r).or_default().extend(ids.iter().cloned());
                }
                _ => {}
            }
        }
        for r in after.res.keys() {
            touched.insert(*r);
        }
        let mut res_tok: Vec<(usize, String)> = vec![];
        let mut fail: Option<(String, String)> = None;
        let mut flag = |k: &str, d: String| {
            if fail.is_none() {
                fail = Some((k.to_string(), d));
            }
        };
        let kind = spec[0];
        for r in &touched {
            let dv = after.vault_sum(r) - before.vault_sum(r);
            let sa = after.res.get(r).and_then(model_supply);
            let sb = before.res.get(r).and_then(model_supply);
            let ds: Option<BigInt> = match (&sa, &sb) {
                (Some(a), Some(b)) => Some(a - b),
                (Some(a), None) => Some(a.clone()),
                _ => None,
            };
            let m = mb.get(r).cloned().unwrap_or_default();
            // ---- property oracle C03 (per transaction)
            if dv != m {
                flag(&format!("conservation:{}", kind), format!("resource {:?}: Σ vault deltas {} but minted − burned (events) {}", r, dv, m));
            }
            if let Some(ds) = &ds {
                if *ds != m {
                    flag(&format!("supply-delta:{}", kind), format!("resource {:?}: total supply moved by {} but minted − burned (events) {}", r, ds, m));
                }
            }
            // ---- property oracle C04 (absolute)
            if let Some(sa) = &sa {
                if *sa != after.vault_sum(r) {
                    flag(&format!("supply-ne-vaults:{}", kind), format!("resource {:?}: total supply {} but Σ vaults {}", r, sa, after.vault_sum(r)));
                }
            }
            if !dv.is_zero() || ds.as_ref().map(|x| !x.is_zero()).unwrap_or(false) || !m.is_zero() {
                let ri = self.idx.r(r);
                res_tok.push((ri, format!("{}:{}:{}:{}", ri, dv, ds.map(|x| x.to_string()).unwrap_or("-".into()), m)));
            }
        }
        res_tok.sort();
        // non-fungible id sets: after = (before ∪ minted) \ burned, and every id in one vault only
        {
            let mut ids_after: BTreeMap<ResourceAddress, BTreeSet<NonFungibleLocalId>> = BTreeMap::new();
            let mut ids_before: BTreeMap<ResourceAddress, BTreeSet<NonFungibleLocalId>> = BTreeMap::new();
            for v in after.vaults.values().filter(|v| v.nf) {
                let e = ids_after.entry(v.res).or_default();
                for i in &v.ids {
                    if !e.insert(i.clone()) {
                        flag(&format!("nf-id-in-two-vaults:{}", kind), format!("{:?} {:?}", v.res, i));
                    }
                }
            }
            for v in before.vaults.values().filter(|v| v.nf) {
                ids_before.entry(v.res).or_default().extend(v.ids.iter().cloned());
            }
            let keys: BTreeSet<ResourceAddress> = ids_after.keys().chain(ids_before.keys()).chain(minted_ids.keys()).chain(burned_ids.keys()).cloned().collect();
            for r in keys {
                let mut exp = ids_before.get(&r).cloned().unwrap_or_default();
                let mi = minted_ids.get(&r).cloned().unwrap_or_default();
                let bi = burned_ids.get(&r).cloned().unwrap_or_default();
                // an id minted and burnt in the same transaction cancels
                for i in &mi {
                    exp.insert(i.clone());
                }
                for i in &bi {
                    exp.remove(i);
                }
                if exp != ids_after.get(&r).cloned().unwrap_or_default() {
                    flag(&format!("nf-ids:{}", kind), format!("resource {:?}: ids in vaults are not (before ∪ minted) \\ burned", r));
                }
            }
        }
        let mut vault_tok: Vec<(usize, String)> = vec![];
        for (n, v) in &after.vaults {
            if v.amount.is_negative() {
                flag(&format!("negative-balance:{}", kind), format!("vault {:?} holds {}", n, v.amount));
            }
            if v.nf {
                if !(&v.amount % unit()).is_zero() || model_amount(v) != BigInt::from(v.ids.len()) {
                    flag(&format!("nf-count:{}", kind), format!("vault {:?}: amount field {} attos but {} index entries", n, v.amount, v.ids.len()));
                }
            }
            let changed = match before.vaults.get(n) {
                None => true,
                Some(o) => o != v,
            };
            if changed {
                let vi = self.idx.v(n);
                let ri = self.idx.r(&v.res);
                if v.nf {
                    let ids = self.idx.ids_sorted(ri, v.ids.iter());
                    vault_tok.push((vi, format!("{}:{}:{}", vi, model_amount(v), ids)));
                } else {
                    vault_tok.push((vi, format!("{}:{}", vi, v.amount)));
                }
            }
        }
        for n in before.vaults.keys() {
            if !after.vaults.contains_key(n) {
                flag(&format!("vault-vanished:{}", kind), format!("{:?}", n));
            }
        }
        vault_tok.sort();
        for p in &after.problems {
            flag("scan-problem", p.clone());
        }
        // ---- C04: event replay since the snapshot reproduces the stored balances and supplies
        for e in &evs {
            match e {
                Ev::Mint(r, a) => *self.acc_res.entry(*r).or_default() += a,
                Ev::Burn(r, a) => *self.acc_res.entry(*r).or_default() -= a,
                Ev::MintNf(r, ids) => *self.acc_res.entry(*r).or_default() += BigInt::from(ids.len()),
                Ev::BurnNf(r, ids) => *self.acc_res.entry(*r).or_default() -= BigInt::from(ids.len()),
                Ev::Dep(v, a) => *self.acc_vault.entry(*v).or_default() += a,
                Ev::Wd(v, a) | Ev::Rc(v, a) | Ev::Pay(v, a) => *self.acc_vault.entry(*v).or_default() -= a,
                Ev::DepNf(v, ids) => *self.acc_vault.entry(*v).or_default() += BigInt::from(ids.len()),
                Ev::WdNf(v, ids) | Ev::RcNf(v, ids) => *self.acc_vault.entry(*v).or_default() -= BigInt::from(ids.len()),
                Ev::Lock(..) | Ev::NewVault(..) => {}
            }
        }
        for (n, v) in &after.vaults {
            let a = self.acc_vault.get(n).cloned().unwrap_or_default();
            if a != model_amount(v) {
                flag(&format!("event-replay-vault:{}", kind), format!("vault {:?}: events say {} database says {}", n, a, model_amount(v)));
                self.acc_vault.insert(*n, model_amount(v));
            }
        }
        for (r, rr) in &after.res {
            let a = self.acc_res.get(r).cloned().unwrap_or_default();
            let db = model_supply(rr).unwrap_or_else(|| after.vault_sum(r));
            if a != db {
                flag(&format!("event-replay-supply:{}", kind), format!("resource {:?}: events say {} database says {}", r, a, db));
                self.acc_res.insert(*r, db);
            }
        }
        // ---- preconditions and cross-checks on the receipt
        if fd.to_burn.is_negative() || fd.to_proposer.is_negative() || fd.to_validator_set.is_negative() {
            flag("negative-fee-destination", format!("{:?}", fd));
        }
        if receipt.transaction_costing_parameters.free_credit_in_xrd.is_positive() {
            flag("harness-free-credit-used", "the property excludes transactions that use free fee credit".to_string());
        }
        // the engine's own summary of vault changes must agree with the scans
        for (n, (_r, ch)) in &c.state_update_summary.vault_balance_changes {
            if let BalanceChange::Fungible(d) = ch {
                let b = before.vaults.get(n).map(|v| v.amount.clone()).unwrap_or_default();
                let a = after.vaults.get(n).map(|v| v.amount.clone()).unwrap_or_default();
                if a - b != big(*d) {
                    flag(&format!("summary-vs-scan:{}", kind), format!("vault {:?}", n));
                }
            }
        }
        if !success {
            // nothing but fees may move on failure: no resource but XRD changes
            for (n, v) in &after.vaults {
                if v.res != XRD && before.vaults.get(n) != Some(v) {
                    flag(&format!("failure-moved-resources:{}", kind), format!("vault {:?}", n));
                }
            }
        }
        let join = |v: &Vec<(usize, String)>| if v.is_empty() { "-".to_string() } else { v.iter().map(|x| x.1.clone()).collect::<Vec<_>>().join(",") };
        let digest = format!("{} ev={} res={} vaults={}", if success { 'S' } else { 'F' }, if fin_events.is_empty() { "-".to_string() } else { fin_events.join(",") }, join(&res_tok), join(&vault_tok));
        self.last = after;
        Some(Outcome { class: if success { 'S' } else { 'F' }, ops, fin, fin_events, digest, fail })
    }
}

fn db_equal(a: &Scan, b: &Scan) -> bool {
    a.vaults == b.vaults && a.res == b.res
}

// ------------------------------------------------------------------------------------------ area

pub struct A {
    lo: u64,
    hi: u64,
}

fn gen_spec(c: &mut Case, rng: &mut Rng) -> String {
    let i = rng.below(3) as usize;
    let j = rng.below(3) as usize;
    let u = unit();
    let small = |rng: &mut Rng, div: u32| -> BigInt {
        // mostly whole-ish amounts, sometimes the smallest representable step, sometimes zero
        let step = BigInt::from(10u32).pow(18 - div);
        match rng.below(10) {
            0 => BigInt::zero(),
            1 => step.clone(),
            2 => &step * BigInt::from(rng.below(1_000_000) + 1),
            _ => BigInt::from(rng.below(400) + 1) * BigInt::from(10u32).pow(18),
        }
    };
    let fres = |rng: &mut Rng| -> (usize, u32) { *rng.pick(&[(0usize, 18u32), (1, 18), (1, 18), (2, 2), (2, 2), (3, 0)]) };
    match rng.below(34) {
        0..=4 => {
            let (r, d) = fres(rng);
            format!("xfer {} {} {} {}", i, j, r, small(rng, d))
        }
        5 => {
            let (r, d) = fres(rng);
            format!("xfer2 {} {} {} {}", i, (i + 1) % 3, r, small(rng, d))
        }
        6 => {
            let (r, d) = fres(rng);
            format!("cont {} {} {} {}", i, (i + 1) % 3, r, small(rng, d))
        }
        7 => format!("self {} {}", i, small(rng, 18)),
        8..=9 => {
            let (r, d) = *rng.pick(&[(1usize, 18u32), (2, 2), (3, 0)]);
            format!("mint {} {} {}", i, r, small(rng, d))
        }
        10 => {
            let (r, d) = *rng.pick(&[(1usize, 18u32), (2, 2), (3, 0)]);
            format!("burn {} {} {}", i, r, small(rng, d))
        }
        11 => {
            let (r, d) = *rng.pick(&[(1usize, 18u32), (2, 2), (3, 0)]);
            format!("wburn {} {} {}", i, r, small(rng, d))
        }
        12 => {
            let (r, d) = *rng.pick(&[(1usize, 18u32), (2, 2), (3, 0)]);
            let a = small(rng, d);
            let b = if rng.chance(1, 2) { a.clone() } else { &a / BigInt::from(2u32) / BigInt::from(10u32).pow(18 - d) * BigInt::from(10u32).pow(18 - d) };
            format!("mintburn {} {} {} {}", i, r, a, b)
        }
        13..=14 => {
            let k = rng.below(4);
            let first = if rng.chance(1, 8) { 1 + rng.below(8) } else { c.w.next_nf };
            if first == c.w.next_nf {
                c.w.next_nf += k;
            }
            format!("mintnf {} {} {}", i, first, k)
        }
        15 => {
            let ids = c.nf_ids(i);
            let k = (rng.below(3) as usize).min(ids.len());
            let pick: Vec<String> = ids.iter().take(k).map(|x| x.to_string()).collect();
            format!("burnnf {} {}", i, if pick.is_empty() { "-".to_string() } else { pick.join(".") })
        }
        16..=17 => {
            let ids = c.nf_ids(i);
            let k = (1 + rng.below(3) as usize).min(ids.len());
            let mut pick: Vec<String> = ids.iter().rev().take(k).map(|x| x.to_string()).collect();
            if rng.chance(1, 10) {
                pick.push("9999".into()); // an id the account does not hold
            }
            format!("xfernf {} {} {}", i, j, if pick.is_empty() { "-".to_string() } else { pick.join(".") })
        }
        18 => format!("recall {} {} 2 {}", i, j, small(rng, 2)),
        19 => {
            let ids = c.nf_ids(i);
            let pick: Vec<String> = ids.iter().take(1).map(|x| x.to_string()).collect();
            format!("recallnf {} {} {}", i, j, if pick.is_empty() { "-".to_string() } else { pick.join(".") })
        }
        20 => format!("faucet {}", i),
        21 => {
            let (r, d) = fres(rng);
            format!("fassert {} {} {}", i, r, small(rng, d))
        }
        22 => {
            let (r, d) = fres(rng);
            format!("fleft {} {} {}", i, r, small(rng, d) + &u)
        }
        23 => format!("fmint {} 1 {}", i, small(rng, 18)),
        24 => {
            // more than the account holds
            let (r, _) = fres(rng);
            let bal = c.balance(i, r);
            format!("xfer {} {} {} {}", i, j, r, bal + &u)
        }
        25 => format!("p1c {} {}", i, small(rng, 18)),
        26 => {
            let b = c.balance(i, 5);
            let x = if b.is_zero() { u.clone() } else { &b / BigInt::from(1 + rng.below(4)) };
            format!("p1r {} {}", i, x)
        }
        27 => format!("p2c {} {} {}", i, small(rng, 2), small(rng, 18)),
        28 => {
            let b = c.balance(i, 6);
            let x = if b.is_zero() { u.clone() } else { &b / BigInt::from(1 + rng.below(4)) };
            format!("p2r {} {}", i, x)
        }
        29 => format!("stake {} {}", i, small(rng, 18) + &u),
        30 => {
            let b = c.balance(i, 7);
            let x = if b.is_zero() { u.clone() } else { &b / BigInt::from(1 + rng.below(3)) };
            format!("unstake {} {}", i, x)
        }
        31 => format!("claim {}", i),
        32 => {
            if rng.chance(1, 4) {
                format!("reject {}", i)
            } else {
                format!("newres {} {} {} {}", i, rng.pick(&[0u8, 6, 18]), BigInt::from(rng.below(1000)) * &u, rng.pick(&["t", "u"]))
            }
        }
        _ => "epoch".to_string(),
    }
}

impl Area for A {
    fn gen(&self, rng: &mut Rng, n: usize, out: &mut dyn Write) {
        let mut base = None;
        // corpus authoring: C03_SCRIPT=<file with one spec per line> writes that history (summaries from the real engine)
        if let Ok(path) = std::env::var("C03_SCRIPT") {
            let text = std::fs::read_to_string(path).unwrap();
            let mut c = Case::new(&mut base);
            writeln!(out, "reset").unwrap();
            for l in c.snapshot_lines() {
                writeln!(out, "{}", l).unwrap();
            }
            writeln!(out, "begin").unwrap();
            for spec in text.lines().filter(|l| !l.trim().is_empty() && !l.starts_with('#')) {
                let t: Vec<&str> = spec.split(' ').collect();
                let Some(o) = c.exec(&t) else { continue };
                writeln!(out, "tx {} ; {}{}{} ; {}", spec, o.class, if o.ops.is_empty() { "" } else { " " }, o.ops.join(" "), o.fin).unwrap();
            }
            return;
        }
        for _ in 0..n {
            let mut c = Case::new(&mut base);
            writeln!(out, "reset").unwrap();
            for l in c.snapshot_lines() {
                writeln!(out, "{}", l).unwrap();
            }
            writeln!(out, "begin").unwrap();
            let len = self.lo + rng.below(self.hi - self.lo + 1);
            let mut k = 0;
            let mut tries = 0;
            while k < len && tries < len * 3 {
                tries += 1;
                let spec = gen_spec(&mut c, rng);
                let t: Vec<&str> = spec.split(' ').collect();
                let Some(o) = c.exec(&t) else { continue };
                if o.class == 'P' {
                    writeln!(out, "tx {} ; P ; fin:0:0:0:0:0", spec).unwrap();
                } else {
                    writeln!(out, "tx {} ; {}{}{} ; {}", spec, o.class, if o.ops.is_empty() { "" } else { " " }, o.ops.join(" "), o.fin).unwrap();
                }
                k += 1;
            }
            // malformed lines
            if rng.chance(1, 3) {
                writeln!(out, "{}", rng.pick(&["tx", "tx xfer 0 1", "vault x", "frobnicate", "tx epoch ; S w:1 ; fin:a"])).unwrap();
            }
        }
    }
    fn runner(&self) -> Box<dyn Runner> {
        Box::new(R { base: None, case: None, begun: false })
    }
    fn consts(&self) -> Vec<(String, String)> {
        // does the XRD resource manager carry a TotalSupply field in the compiled tree's genesis?
        let sim = LedgerSimulatorBuilder::new().without_kernel_trace().build();
        let s = scan(sim.substate_db());
        let tracks = s.res.get(&XRD).map(|r| r.supply.is_some()).unwrap_or(true);
        vec![("xrdTracksSupply".to_string(), format!("{}\traw\tBool", tracks))]
    }
}

struct R {
    base: Option<(Sim, Base)>,
    case: Option<Case>,
    begun: bool,
}

impl Runner for R {
    fn step(&mut self, line: &str) -> Answer {
        let t: Vec<&str> = line.split(' ').filter(|x| !x.is_empty()).collect();
        if t.is_empty() {
            return Answer::ok("bad-op");
        }
        match t[0] {
            "reset" if t.len() == 1 => {
                self.case = Some(Case::new(&mut self.base));
                self.begun = false;
                Answer::ok("ok")
            }
            "res" | "vault" => {
                // the snapshot lines are input for the model; the runner checks them against its own scan
                let Some(c) = self.case.as_mut() else { return Answer::ok("bad-op") };
                if self.begun {
                    return Answer::ok("bad-op");
                }
                let lines = c.snapshot_lines();
                if lines.iter().any(|l| l == &t.join(" ")) {
                    Answer::ok("ok")
                } else if (t[0] == "res" && t.len() == 6) || (t[0] == "vault" && t.len() == 5) {
                    Answer::fail("ok", "snapshot-line-mismatch", format!("`{}` is not what the scan of the snapshot shows", line))
                } else {
                    Answer::ok("bad-op")
                }
            }
            "begin" if t.len() == 1 => {
                let Some(c) = self.case.as_mut() else { return Answer::ok("bad-op") };
                self.begun = true;
                // absolute invariant on the snapshot
                let s = c.last.clone();
                for (r, rr) in &s.res {
                    if let Some(sup) = model_supply(rr) {
                        if sup != s.vault_sum(r) {
                            return Answer::fail("ok inv", "supply-ne-vaults:snapshot", format!("{:?}", r));
                        }
                    }
                }
                Answer::ok("ok inv")
            }
            "tx" => {
                let Some(c) = self.case.as_mut() else { return Answer::ok("bad-op") };
                if !self.begun {
                    return Answer::ok("bad-op");
                }
                let parts: Vec<&str> = line.splitn(3, " ; ").collect();
                if parts.len() != 3 {
                    return Answer::ok("bad-op");
                }
                if !summary_wellformed(parts[1], parts[2]) {
                    return Answer::ok("bad-op");
                }
                let spec: Vec<&str> = parts[0].split(' ').filter(|x| !x.is_empty()).skip(1).collect();
                if spec.is_empty() {
                    return Answer::ok("bad-op");
                }
                let Some(o) = c.exec(&spec) else { return Answer::ok("bad-op") };
                // the embedded summary must be the one this execution produces
                let embedded = format!("{} ; {}", parts[1].trim(), parts[2].trim());
                let mine = format!("{}{}{} ; {}", o.class, if o.ops.is_empty() { "" } else { " " }, o.ops.join(" "), o.fin);
                let ans = if embedded == mine { o.digest.clone() } else { format!("resummarized {}", o.digest) };
                let _ = &o.fin_events;
                match o.fail {
                    Some((k, d)) => Answer::fail(ans, k, d),
                    None => Answer::ok(ans),
                }
            }
            _ => Answer::ok("bad-op"),
        }
    }
}

/// syntactic check of the summary part (the model driver applies the same grammar)
fn summary_wellformed(ops: &str, fin: &str) -> bool {
    let o: Vec<&str> = ops.split(' ').filter(|x| !x.is_empty()).collect();
    if o.is_empty() || !["S", "F", "R", "P"].contains(&o[0]) {
        return false;
    }
    let num = |s: &str| parse_big(s).is_some();
    let nat = |s: &str| s.parse::<u32>().is_ok();
    let ids = |s: &str| s == "-" || s.split('.').all(|x| x.parse::<u32>().is_ok());
    for tok in &o[1..] {
        let p: Vec<&str> = tok.split(':').collect();
        let ok = match (p[0], p.len()) {
            ("m", 3) | ("b", 3) | ("d", 3) | ("w", 3) | ("rc", 3) => nat(p[1]) && num(p[2]),
            ("mn", 3) | ("bn", 3) | ("dn", 3) | ("wn", 3) | ("rcn", 3) => nat(p[1]) && ids(p[2]),
            ("lf", 4) => nat(p[1]) && num(p[2]) && (p[3] == "0" || p[3] == "1"),
            ("nv", 3) => nat(p[1]) && nat(p[2]),
            ("nr", 5) => nat(p[1]) && (p[2] == "f" || p[2] == "n") && (p[3] == "t" || p[3] == "u") && nat(p[4]),
            _ => false,
        };
        if !ok {
            return false;
        }
    }
    let f: Vec<&str> = fin.split(' ').filter(|x| !x.is_empty()).collect();
    if f.is_empty() {
        return false;
    }
    let p: Vec<&str> = f[0].split(':').collect();
    if p.len() != 6 || p[0] != "fin" || !num(p[1]) || !nat(p[2]) || !num(p[3]) || !num(p[4]) || !num(p[5]) {
        return false;
    }
    for tok in &f[1..] {
        let p: Vec<&str> = tok.split(':').collect();
        if p.len() != 3 || p[0] != "roy" || !nat(p[1]) || !num(p[2]) {
            return false;
        }
    }
    true
}

fn main() {
    main_with(&[("c03", &A { lo: 20, hi: 40 }), ("c04", &A { lo: 60, hi: 200 })]);
}
