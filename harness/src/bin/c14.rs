//! C14 — the real `SubstateDatabaseOverlay` over `InMemorySubstateDatabase`, driven by commit
//! streams, compared (oracle) with a second `InMemorySubstateDatabase` that receives the same
//! commits directly.
//!
//! Line protocol (sort keys hex, values numbers):
//!   reset | base n p k v | commit n/p/D/k=v,k=-;n/p/R/k=v,… | get n p k | list n p <from|*>
//!   staged n p | merge
use harness::util::*;
use radix_common::prelude::*;
use radix_substate_store_impls::memory_db::InMemorySubstateDatabase;
use radix_substate_store_impls::substate_database_overlay::*;
use radix_substate_store_interface::interface::*;
use std::io::Write;

pub struct A;

const NODES: u64 = 3;
const PARTS: u64 = 3;

/// sort-key alphabet: short byte strings with shared prefixes (cursor boundaries: a key, its
/// predecessor / successor, the empty key, a key above all)
fn alphabet() -> Vec<Vec<u8>> {
    vec![vec![], vec![0], vec![0, 0], vec![1], vec![1, 0], vec![1, 1], vec![1, 255], vec![2], vec![2, 0, 0], vec![127], vec![255], vec![255, 255]]
}

fn pkey(n: u64, p: u64) -> DbPartitionKey {
    DbPartitionKey { node_key: vec![n as u8, 7], partition_num: p as u8 }
}

fn raw(v: u64) -> Vec<u8> {
    v.to_be_bytes().to_vec()
}
fn unraw(v: &[u8]) -> u64 {
    let mut b = [0u8; 8];
    b.copy_from_slice(v);
    u64::from_be_bytes(b)
}

fn num(s: &str) -> Option<u64> {
    if s.is_empty() || !s.bytes().all(|b| b.is_ascii_digit()) {
        return None;
    }
    s.parse().ok()
}

fn key(s: &str) -> Option<Vec<u8>> {
    let b = unhex(s)?;
    if b.len() > 48 {
        return None;
    }
    Some(b)
}

impl Area for A {
    fn gen(&self, rng: &mut Rng, n: usize, out: &mut dyn Write) {
        let al = alphabet();
        for _ in 0..n {
            writeln!(out, "reset").unwrap();
            let focus = (rng.below(NODES), rng.below(PARTS));
            let pick_np = |rng: &mut Rng| -> (u64, u64) { if rng.chance(3, 5) { focus } else { (rng.below(NODES), rng.below(PARTS)) } };
            for _ in 0..rng.below(12) {
                let (nn, p) = pick_np(rng);
                writeln!(out, "base {} {} {} {}", nn, p, hex(rng.pick(&al[..]).as_slice()), rng.below(1000)).unwrap();
            }
            let len = 1 + rng.below(30);
            for _ in 0..len {
                let (nn, p) = pick_np(rng);
                match rng.below(100) {
                    0..=34 => {
                        // a commit touching 1..3 distinct partitions
                        let mut pairs: Vec<(u64, u64)> = vec![(nn, p)];
                        for _ in 0..rng.below(3) {
                            let q = (rng.below(NODES), rng.below(PARTS));
                            if !pairs.contains(&q) {
                                pairs.push(q);
                            }
                        }
                        let mut items = vec![];
                        for (a, b) in pairs {
                            let mut keys: Vec<Vec<u8>> = al.iter().filter(|_| rng.chance(1, 4)).cloned().collect();
                            // IndexMap order is arbitrary: shuffle
                            for i in (1..keys.len()).rev() {
                                let j = rng.below(i as u64 + 1) as usize;
                                keys.swap(i, j);
                            }
                            if rng.chance(1, 3) {
                                let body: Vec<String> = keys.iter().map(|k| format!("{}={}", hex(k), rng.below(1000))).collect();
                                items.push(format!("{}/{}/R/{}", a, b, if body.is_empty() { "-".into() } else { body.join(",") }));
                            } else {
                                let body: Vec<String> = keys.iter().map(|k| if rng.chance(2, 5) { format!("{}=-", hex(k)) } else { format!("{}={}", hex(k), rng.below(1000)) }).collect();
                                items.push(format!("{}/{}/D/{}", a, b, if body.is_empty() { "-".into() } else { body.join(",") }));
                            }
                        }
                        writeln!(out, "commit {}", items.join(";")).unwrap();
                    }
                    35..=54 => writeln!(out, "get {} {} {}", nn, p, hex(rng.pick(&al[..]).as_slice())).unwrap(),
                    55..=84 => {
                        if rng.chance(1, 4) {
                            writeln!(out, "list {} {} *", nn, p).unwrap()
                        } else {
                            writeln!(out, "list {} {} {}", nn, p, hex(rng.pick(&al[..]).as_slice())).unwrap()
                        }
                    }
                    85..=91 => writeln!(out, "staged {} {}", nn, p).unwrap(),
                    92..=95 => {
                        writeln!(out, "merge").unwrap();
                        for a in 0..NODES {
                            for b in 0..PARTS {
                                if (a, b) == focus || rng.chance(1, 3) {
                                    writeln!(out, "list {} {} *", a, b).unwrap();
                                }
                            }
                        }
                    }
                    96..=97 => writeln!(out, "commit -").unwrap(),
                    _ => {
                        let bad = ["get 1", "commit 0/0/X/00=1", "commit 0/0/D/00=1;0/0/R/-", "list 0 0", "frobnicate", "get 0 0 0g", "commit 0/0/R/00=-", "staged a 0"];
                        writeln!(out, "{}", rng.pick(&bad)).unwrap()
                    }
                }
            }
            // always end with the observable state of the focus partition
            writeln!(out, "list {} {} *", focus.0, focus.1).unwrap();
        }
    }
    fn runner(&self) -> Box<dyn Runner> {
        Box::new(R::new())
    }
}

struct R {
    started: bool,
    overlay: Option<SubstateDatabaseOverlay<InMemorySubstateDatabase, InMemorySubstateDatabase>>,
    /// oracle: the same database with the commits applied directly
    reference: InMemorySubstateDatabase,
}

impl R {
    fn new() -> R {
        R { started: false, overlay: Some(SubstateDatabaseOverlay::new_owned(InMemorySubstateDatabase::standard())), reference: InMemorySubstateDatabase::standard() }
    }
}

fn parse_updates(s: &str) -> Option<DatabaseUpdates> {
    let mut du = DatabaseUpdates::default();
    if s == "-" {
        return Some(du);
    }
    let mut seen: Vec<(u64, u64)> = vec![];
    for item in s.split(';') {
        let t: Vec<&str> = item.split('/').collect();
        if t.len() != 4 {
            return None;
        }
        let (n, p) = (num(t[0])?, num(t[1])?);
        let pu = match t[2] {
            "D" => {
                let mut m = index_map_new();
                if t[3] != "-" {
                    for kv in t[3].split(',') {
                        let u: Vec<&str> = kv.split('=').collect();
                        if u.len() != 2 {
                            return None;
                        }
                        let k = DbSortKey(key(u[0])?);
                        let v = if u[1] == "-" { DatabaseUpdate::Delete } else { DatabaseUpdate::Set(raw(num(u[1])?)) };
                        m.insert(k, v);
                    }
                }
                PartitionDatabaseUpdates::Delta { substate_updates: m }
            }
            "R" => {
                let mut m = index_map_new();
                if t[3] != "-" {
                    for kv in t[3].split(',') {
                        let u: Vec<&str> = kv.split('=').collect();
                        if u.len() != 2 {
                            return None;
                        }
                        m.insert(DbSortKey(key(u[0])?), raw(num(u[1])?));
                    }
                }
                PartitionDatabaseUpdates::Reset { new_substate_values: m }
            }
            _ => return None,
        };
        if seen.contains(&(n, p)) {
            return None;
        }
        seen.push((n, p));
        du.node_updates.entry(pkey(n, p).node_key).or_default().partition_updates.insert(p as u8, pu);
    }
    Some(du)
}

fn show_entries(es: &[(DbSortKey, Vec<u8>)]) -> String {
    format!("[{}]", es.iter().map(|(k, v)| format!("{}={}", hex(&k.0), unraw(v))).collect::<Vec<_>>().join(","))
}

impl Runner for R {
    fn step(&mut self, line: &str) -> Answer {
        let t: Vec<&str> = line.split(' ').filter(|s| !s.is_empty()).collect();
        if t.is_empty() {
            return Answer::ok("bad-op");
        }
        match (t[0], t.len()) {
            ("reset", 1) => {
                *self = R::new();
                Answer::ok("ok")
            }
            ("base", 5) => {
                let parsed = (|| Some((num(t[1])?, num(t[2])?, key(t[3])?, num(t[4])?)))();
                match parsed {
                    None => Answer::ok("bad-op"),
                    Some((n, p, k, v)) => {
                        if self.started {
                            return Answer::ok("late-base");
                        }
                        let du = DatabaseUpdates::from_delta_maps(indexmap!(pkey(n, p) => indexmap!(DbSortKey(k) => DatabaseUpdate::Set(raw(v)))));
                        // fill the root (through a throw-away overlay merge) and the reference
                        let (mut root, _) = self.overlay.take().unwrap().deconstruct();
                        root.commit(&du);
                        self.overlay = Some(SubstateDatabaseOverlay::new_owned(root));
                        self.reference.commit(&du);
                        Answer::ok("ok")
                    }
                }
            }
            ("commit", 2) => match parse_updates(t[1]) {
                None => Answer::ok("bad-op"),
                Some(du) => {
                    self.started = true;
                    self.overlay.as_mut().unwrap().commit(&du);
                    self.reference.commit(&du);
                    Answer::ok("ok")
                }
            },
            ("get", 4) => {
                let parsed = (|| Some((num(t[1])?, num(t[2])?, key(t[3])?)))();
                match parsed {
                    None => Answer::ok("bad-op"),
                    Some((n, p, k)) => {
                        self.started = true;
                        let r = self.overlay.as_ref().unwrap().get_raw_substate_by_db_key(&pkey(n, p), &DbSortKey(k.clone()));
                        let e = self.reference.get_raw_substate_by_db_key(&pkey(n, p), &DbSortKey(k));
                        let ans = match &r {
                            Some(v) => format!("some {}", unraw(v)),
                            None => "none".to_string(),
                        };
                        if r != e {
                            return Answer::fail(ans, "overlay-get", format!("overlay read {:?}, database with the commits applied has {:?}", r, e));
                        }
                        Answer::ok(ans)
                    }
                }
            }
            ("list", 4) => {
                let parsed = (|| Some((num(t[1])?, num(t[2])?, if t[3] == "*" { None } else { Some(DbSortKey(key(t[3])?)) })))();
                match parsed {
                    None => Answer::ok("bad-op"),
                    Some((n, p, from)) => {
                        self.started = true;
                        let r: Vec<_> = self.overlay.as_ref().unwrap().list_raw_values_from_db_key(&pkey(n, p), from.as_ref()).collect();
                        let e: Vec<_> = self.reference.list_raw_values_from_db_key(&pkey(n, p), from.as_ref()).collect();
                        let ans = show_entries(&r);
                        if r != e {
                            let kind = if from.is_some() { "cursor" } else { "start" };
                            return Answer::fail(ans, format!("overlay-list:{}", kind), format!("overlay lists {} but the database with the commits applied lists {}", show_entries(&r), show_entries(&e)));
                        }
                        Answer::ok(ans)
                    }
                }
            }
            ("staged", 3) => {
                let parsed = (|| Some((num(t[1])?, num(t[2])?)))();
                match parsed {
                    None => Answer::ok("bad-op"),
                    Some((n, p)) => {
                        self.started = true;
                        let du = self.overlay.as_ref().unwrap().database_updates();
                        let pu = du.node_updates.get(&pkey(n, p).node_key).and_then(|nu| nu.partition_updates.get(&(p as u8)));
                        let ans = match pu {
                            None => "none".to_string(),
                            Some(PartitionDatabaseUpdates::Delta { substate_updates }) => format!(
                                "D[{}]",
                                substate_updates
                                    .iter()
                                    .map(|(k, u)| format!("{}={}", hex(&k.0), match u {
                                        DatabaseUpdate::Set(v) => unraw(v).to_string(),
                                        DatabaseUpdate::Delete => "-".to_string(),
                                    }))
                                    .collect::<Vec<_>>()
                                    .join(",")
                            ),
                            Some(PartitionDatabaseUpdates::Reset { new_substate_values }) => {
                                format!("R{}", show_entries(&new_substate_values.iter().map(|(k, v)| (k.clone(), v.clone())).collect::<Vec<_>>()))
                            }
                        };
                        Answer::ok(ans)
                    }
                }
            }
            ("merge", 1) => {
                self.started = true;
                let mut ov = self.overlay.take().unwrap();
                ov.commit_overlay_into_root_store();
                let (root, rest) = ov.deconstruct();
                let ok = root == self.reference && rest.node_updates.is_empty();
                self.overlay = Some(SubstateDatabaseOverlay::new_owned(root));
                if !ok {
                    return Answer::fail("ok", "overlay-merge", "root database after merging the overlay differs from the database with the commits applied");
                }
                Answer::ok("ok")
            }
            _ => Answer::ok("bad-op"),
        }
    }
}

fn main() {
    main_with(&[("c14", &A)]);
}
